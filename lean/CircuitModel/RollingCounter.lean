/-
  RollingCounter.lean — model of faststats.RollingBuckets.Advance (sequential semantics: every CAS
  succeeds) and faststats.RollingCounter, following the Go control flow statement by statement.

  Go source mirrored: faststats/rolling_bucket.go (Advance), faststats/rolling_counter.go
  (Inc, RollingSumAt, TotalSum, GetBuckets, clearBucket, Reset, Marshal/UnmarshalJSON).

  Domain: `n = NumBuckets ≥ 0`, `w = BucketWidth > 0` ns. A time is its offset `d : Int` (ns) from
  `StartTime` (may be negative).  Absolute bucket indices are naturals because the code rejects
  `d < 0` before computing one.
-/
import CircuitModel.Basic
namespace CM

structure RC where
  n : Nat
  w : Int
  last : Nat            -- RollingBuckets.LastAbsIndex
  buckets : List Int    -- len = n
  rolling : Int         -- rollingSum
  total : Int           -- totalSum
  deriving Repr, DecidableEq

def RC.new (n : Nat) (w : Int) : RC :=
  { n := n, w := w, last := 0, buckets := List.replicate n 0, rolling := 0, total := 0 }

/-- `clearBucket(idx)`: `toDec := buckets[idx].Swap(0); rollingSum.Add(-toDec)`. -/
def RC.clear (c : RC) (idx : Nat) : RC :=
  { c with buckets := c.buckets.set idx 0, rolling := c.rolling - c.buckets.getD idx 0 }

/-- the `for i := 0; i < NumBuckets && lastAbsVal < absIndex; i++` loop of `Advance`;
    the last argument is the remaining trip count. -/
def RC.rollLoop (c : RC) (abs : Nat) : Nat → RC
  | 0 => c
  | k+1 =>
    if c.last < abs then
      RC.rollLoop ({ c with last := c.last + 1 }.clear ((c.last + 1) % c.n)) abs k
    else c

/-- absolute bucket index of a non-negative offset. -/
def absIdx (w d : Int) : Nat := (d / w).toNat

/-- `Advance(now, clearBucket)`; `none` is Go's `-1`. -/
def RC.advance (c : RC) (d : Int) : RC × Option Nat :=
  if c.n = 0 then (c, none)
  else if d < 0 then (c, none)
  else
    let abs := absIdx c.w d
    if abs = c.last then (c, some (abs % c.n))
    else if abs < c.last then
      -- backwards in time: ignore when it fell out of the window
      if c.last - abs ≥ c.n then (c, none) else (c, some (abs % c.n))
    else
      let c' := c.rollLoop abs c.n
      -- final CompareAndSwap(lastAbsVal, absIndex) then the tail call, which now hits `indexDiff == 0`
      ({ c' with last := abs }, some (abs % c.n))

def RC.inc (c : RC) (d : Int) : RC :=
  let c := { c with total := c.total + 1 }
  if c.buckets.length = 0 then c
  else
    match c.advance d with
    | (c, none) => c
    | (c, some idx) =>
      { c with buckets := c.buckets.set idx (c.buckets.getD idx 0 + 1), rolling := c.rolling + 1 }

def RC.sumAt (c : RC) (d : Int) : RC × Int :=
  let c := (c.advance d).1
  (c, c.rolling)

/-- `GetBuckets(now)`; `none` = the integer-divide-by-zero panic when `NumBuckets = 0`. -/
def RC.getBuckets (c : RC) (d : Int) : RC × Option (List Int) :=
  let c := (c.advance d).1
  if c.n = 0 then (c, none)
  else
    let startIdx := c.last % c.n
    (c, some ((List.range c.n).map fun i =>
      let idx := if startIdx < i then startIdx + c.n - i else startIdx - i
      c.buckets.getD idx 0))

def RC.clearAll (c : RC) : Nat → RC
  | 0 => c
  | k+1 => (RC.clearAll c k).clear k

def RC.reset (c : RC) (d : Int) : RC :=
  let c := (c.advance d).1
  c.clearAll c.n

inductive RCOp where
  | inc (d : Int) | sum (d : Int) | bk (d : Int) | reset (d : Int) | total | json
  deriving Repr, DecidableEq

inductive RCOut where
  | ok | int (v : Int) | ints (l : List Int) | panic
  deriving Repr, DecidableEq

def RC.step (c : RC) : RCOp → RC × RCOut
  | .inc d => (c.inc d, .ok)
  | .sum d => let (c, v) := c.sumAt d; (c, .int v)
  | .bk d => match c.getBuckets d with
    | (c, some l) => (c, .ints l)
    | (c, none) => (c, .panic)
  | .reset d => (c.reset d, .ok)
  | .total => (c, .int c.total)
  | .json => (c, .ok)   -- Marshal then Unmarshal into a fresh counter restores every field

def RC.run (c : RC) : List RCOp → List RCOut
  | [] => []
  | op :: ops => let (c', o) := c.step op; o :: RC.run c' ops

def RC.exec (c : RC) (ops : List RCOp) : RC := ops.foldl (fun c op => (c.step op).1) c

end CM

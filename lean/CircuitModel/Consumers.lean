/-
  Consumers.lean — models of the metric consumers, as functions of the callbacks a circuit delivers:
    metrics/rolling        RunStats (seven RollingCounters + a RollingPercentile), FallbackStats (three counters)
    metrics/responsetimeslo Tracker
    metriceventstream      the record built by collectCommandMetrics, field by field
  Times handed to the counters are offsets from the stats' construction time, pinned by the harness to the clock origin.
-/
import CircuitModel.Circuit
import CircuitModel.RollingCounter
import CircuitModel.RollingPercentile
namespace CM.Cons

structure RunStats where
  successes : RC
  rejects : RC
  failures : RC
  shortCircuits : RC
  timeouts : RC
  badRequests : RC
  interrupts : RC
  latencies : RP
  deriving Repr, DecidableEq

def RunStats.new (n : Nat) (dur : Int) (pn : Nat) (pdur : Int) (psize : Nat) : RunStats :=
  let w := tdiv dur n
  { successes := RC.new n w, rejects := RC.new n w, failures := RC.new n w, shortCircuits := RC.new n w,
    timeouts := RC.new n w, badRequests := RC.new n w, interrupts := RC.new n w,
    latencies := RP.new pn (tdiv pdur pn) psize }

/-- which counter each RunMetrics callback touches, and whether the duration is sampled -/
def RunStats.onRun (r : RunStats) (k : Kind) (t dur : Int) : RunStats :=
  match k with
  | .success => { r with successes := r.successes.inc t, latencies := r.latencies.add dur t }
  | .interrupt => { r with interrupts := r.interrupts.inc t, latencies := r.latencies.add dur t }
  | .reject => { r with rejects := r.rejects.inc t }
  | .failure => { r with failures := r.failures.inc t, latencies := r.latencies.add dur t }
  | .shortCircuit => { r with shortCircuits := r.shortCircuits.inc t }
  | .timeout => { r with timeouts := r.timeouts.inc t, latencies := r.latencies.add dur t }
  | .badRequest => { r with badRequests := r.badRequests.inc t, latencies := r.latencies.add dur t }

structure FbStats where
  successes : RC
  rejects : RC
  failures : RC
  deriving Repr, DecidableEq

def FbStats.new (n : Nat) (dur : Int) : FbStats :=
  let w := tdiv dur n
  { successes := RC.new n w, rejects := RC.new n w, failures := RC.new n w }

def FbStats.onFb (f : FbStats) (k : FbKind) (t : Int) : FbStats :=
  match k with
  | .success => { f with successes := f.successes.inc t }
  | .reject => { f with rejects := f.rejects.inc t }
  | .failure => { f with failures := f.failures.inc t }

/-- responsetimeslo.Tracker -/
structure Slo where
  maxHealthy : Int
  pass : Int := 0
  fail : Int := 0
  deriving Repr, DecidableEq

def Slo.onRun (s : Slo) (k : Kind) (dur : Int) : Slo :=
  match k with
  | .success => if dur ≤ s.maxHealthy then { s with pass := s.pass + 1 } else { s with fail := s.fail + 1 }
  | .failure | .timeout | .reject | .shortCircuit => { s with fail := s.fail + 1 }
  | .interrupt => if dur > s.maxHealthy then { s with fail := s.fail + 1 } else s
  | .badRequest => s

structure All where
  run : RunStats
  fb : FbStats
  slo : Slo
  deriving Repr, DecidableEq

def All.onEmit (a : All) : Emit → All
  | .run k t d => { a with run := a.run.onRun k t d, slo := a.slo.onRun k d }
  | .fb k t _ => { a with fb := a.fb.onFb k t }
  | _ => a

/-- the seven rolling sums at `now`, in the order success, reject, failure, shortCircuit, timeout, badRequest,
    interrupt (reading advances each counter's window) -/
def RunStats.sums (r : RunStats) (now : Int) : RunStats × List Int :=
  let (a, va) := r.successes.sumAt now
  let (b, vb) := r.rejects.sumAt now
  let (c, vc) := r.failures.sumAt now
  let (d, vd) := r.shortCircuits.sumAt now
  let (e, ve) := r.timeouts.sumAt now
  let (f, vf) := r.badRequests.sumAt now
  let (g, vg) := r.interrupts.sumAt now
  ({ r with successes := a, rejects := b, failures := c, shortCircuits := d, timeouts := e, badRequests := f, interrupts := g },
   [va, vb, vc, vd, ve, vf, vg])

def RunStats.totals (r : RunStats) : List Int :=
  [r.successes.total, r.rejects.total, r.failures.total, r.shortCircuits.total, r.timeouts.total, r.badRequests.total, r.interrupts.total]

/-- `ErrorPercentageAt(now)` as the exact value of the double the code computes -/
def errorPercentage (s f t : Int) : Rat :=
  let attempts := s + f + t
  if attempts = 0 then 0 else F64.div (F64.ofInt (f + t)) (F64.ofInt attempts)

end CM.Cons

namespace CM.Cons
/-- the collectors as the stat factory and the SLO factory create them -/
def All.new (n : Nat) (dur : Int) (pn : Nat) (pdur : Int) (psize : Nat) (maxHealthy : Int) : All :=
  { run := RunStats.new n dur pn pdur psize, fb := FbStats.new n dur, slo := { maxHealthy := maxHealthy } }

/-- feed a history of delivered callbacks -/
def All.feed (a : All) (emits : List Emit) : All := emits.foldl All.onEmit a

/-- the three fallback rolling sums at `now` (success, reject, failure) -/
def FbStats.sums (f : FbStats) (now : Int) : FbStats × List Int :=
  let (a, va) := f.successes.sumAt now
  let (b, vb) := f.rejects.sumAt now
  let (c, vc) := f.failures.sumAt now
  ({ successes := a, rejects := b, failures := c }, [va, vb, vc])

/-- the integer count fields of one hystrix event-stream record (metriceventstream.collectCommandMetrics) -/
structure StreamCounts where
  requestCount : Int
  errorCount : Int
  rollS : Int
  rollRej : Int
  rollF : Int
  rollSC : Int
  rollT : Int
  rollBad : Int          -- bad requests + interrupts (the dashboard has no interrupt field)
  cntS : Int
  cntRej : Int
  cntF : Int
  cntSC : Int
  cntT : Int
  cntBad : Int
  fbRollS : Int
  fbRollRej : Int
  fbRollF : Int
  fbCntS : Int
  fbCntRej : Int
  fbCntF : Int
  isOpen : Bool
  deriving Repr, DecidableEq

/-- `collectCommandMetrics` on the collectors `a` at clock reading `now`: every rolling sum is read at the same `now`
    (`LegitimateAttemptsAt` = successes + failures + timeouts, `ErrorsAt` = failures + timeouts) -/
def All.streamCounts (a : All) (now : Int) (isOpen : Bool) : StreamCounts :=
  let sums := (a.run.sums now).2
  let tot := a.run.totals
  let fsums := (a.fb.sums now).2
  let g (l : List Int) (i : Nat) : Int := l.getD i 0
  { requestCount := g sums 0 + g sums 2 + g sums 4 + g sums 6,
    errorCount := g sums 2 + g sums 4,
    rollS := g sums 0, rollRej := g sums 1, rollF := g sums 2, rollSC := g sums 3, rollT := g sums 4,
    rollBad := g sums 5 + g sums 6,
    cntS := g tot 0, cntRej := g tot 1, cntF := g tot 2, cntSC := g tot 3, cntT := g tot 4, cntBad := g tot 5 + g tot 6,
    fbRollS := g fsums 0, fbRollRej := g fsums 1, fbRollF := g fsums 2,
    fbCntS := a.fb.successes.total, fbCntRej := a.fb.rejects.total, fbCntF := a.fb.failures.total,
    isOpen := isOpen }
end CM.Cons

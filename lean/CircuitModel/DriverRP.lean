import CircuitModel.RollingPercentile
import CircuitModel.Spec.C15
namespace CM

def parseRPOp (line : String) : Option RPOp :=
  match line.splitOn " " with
  | ["add", dur, d] => do some (.add (← dur.toInt?) (← d.toInt?))
  | ["snap", d] => d.toInt?.map .snap
  | ["reset", d] => d.toInt?.map .reset
  | ["pub"] => some (.snap 0)      -- the published summary read at the wall clock = bucket 0 of a `wall=1` timeline; see `isPub`
  | _ => none

def RPOut.fmt : RPOut → String
  | .ok => "ok"
  | .ints l => fmtInts l

def suiteRP (kvs : List (String × String)) (lines0 : List (String × String)) : List String :=
  let lines := lines0.map (·.1)
  let n := kvNat kvs "n" 1
  let w := kvInt kvs "w" 1
  let size := kvNat kvs "size" 1
  match lines.mapM parseRPOp with
  | none => lines.map fun _ => "bad-op\tbad-op"
  | some ops =>
    let m := (RP.new n w size).run ops
    let s := SpecC15.run n w size ops
    -- `pub`: the harness itself compares the published labels with the direct ones; here only the window movement
    let isPub := lines.map fun l => l == "pub"
    ((m.zip s).zip isPub).map fun ((a, b), p) =>
      if p then "ok\tok" else a.fmt ++ "\t" ++ (if n = 0 ∨ w ≤ 0 then "-" else b.fmt)

def parseIntList (s : String) : Option (List Int) :=
  if s == "_" then some [] else (s.splitOn ",").mapM String.toInt?

def fmtOptInt : Option Int → String
  | some v => toString v
  | none => "unspec"

def verdictStr : Option String → String
  | none => "-"
  | some m => "!" ++ m

/-- suite `sd`: each op is an independent query on a sorted sample.
      pct <bits> <list>            -> Percentile
      pct2 <bits1> <bits2> <list>  -> two percentiles "a b"
      mean|min|max <list>
      var <list>                   -> "min=.. p25=a/b p50=a/b p90=a/b p99=a/b max=.. mean=.."  (a from Var(), b = Percentile(NN) called directly)
-/
def suiteSD (_kvs : List (String × String)) (lines : List (String × String)) : List String :=
  lines.map fun (line, real) =>
    match line.splitOn " " with
    | ["pct", bits, l] =>
      match bits.toNat?, parseIntList l with
      | some b, some s =>
        let p := F64.ofBits b
        let m := fmtOptInt (SD.percentile s p)
        let v := match real.toInt? with
          | some rv => SpecC15.pctVerdict s p rv
          | none => if real == "panic" then some "percentile panicked" else none
        m ++ "\t" ++ verdictStr v
      | _, _ => "bad-op\t-"
    | ["pct2", b1, b2, l] =>
      match b1.toNat?, b2.toNat?, parseIntList l with
      | some b1, some b2, some s =>
        let p := F64.ofBits b1; let q := F64.ofBits b2
        let m := fmtOptInt (SD.percentile s p) ++ " " ++ fmtOptInt (SD.percentile s q)
        let v := match real.splitOn " " with
          | [a, b] => match a.toInt?, b.toInt? with
            | some va, some vb =>
              (SpecC15.monoVerdict s p q va vb).orElse fun _ => (SpecC15.monoVerdict s q p vb va)
            | _, _ => none
          | _ => none
        m ++ "\t" ++ verdictStr v
      | _, _, _ => "bad-op\t-"
    | ["mean", l] =>
      match parseIntList l with
      | some s => toString (SD.mean s) ++ "\t" ++ verdictStr (match real.toInt? with | some rv => SpecC15.meanVerdict s rv | none => none)
      | none => "bad-op\t-"
    | ["min", l] => match parseIntList l with
      | some s => toString (SD.min s) ++ "\t" ++ toString (SD.min s)
      | none => "bad-op\t-"
    | ["max", l] => match parseIntList l with
      | some s => toString (SD.max s) ++ "\t" ++ toString (SD.max s)
      | none => "bad-op\t-"
    | ["var", l] =>
      match parseIntList l with
      | some s =>
        let ps := SD.varLabels.map fun (lab, p) =>
          let v := fmtOptInt (SD.percentile s (.fin p))
          s!"{lab}={v}/{v}"
        let m := s!"min={SD.min s} " ++ " ".intercalate ps ++ s!" max={SD.max s} mean={SD.mean s}"
        -- spec: every published pNN equals the directly computed Percentile(NN): in "pNN=a/b" a must equal b
        let bad := (real.splitOn " ").filter fun f =>
          match f.splitOn "=" with
          | [_, ab] => match ab.splitOn "/" with
            | [a, b] => a != b
            | _ => false
          | _ => false
        m ++ "\t" ++ (if bad.isEmpty then "-" else "!published label differs from Percentile(NN): " ++ " ".intercalate bad)
      | none => "bad-op\t-"
    | _ => "bad-op\t-"

end CM

/-
  GoCtorSlicePrims.lean — unit GoCtorSet: `Circuit.SetConfigNotThreadSafe` (circuit.go) translated ONCE MORE, this time over
  slices that have an identity: a slice is a header (backing array, length, capacity) and the backing arrays live in a
  heap.  `make([]T, 0, n)` allocates a new array; `append` writes IN PLACE into the backing array of its first argument when
  the capacity suffices (that is Go's rule — and the way a callee can scribble over its caller's slice) and allocates
  otherwise.  Unit GoSetCfg's model (`BuildW`, lists as values) is kept alongside as the abstraction: `w.run` is the contents
  of the `run` slice at the time it was stored.  What the tie adds to GoSetCfg's: the three collector lists of the circuit
  end up in three NEW arrays and no array that existed before the call is written — in particular none of the caller's
  (`config.Metrics.Run` etc.), whatever spare capacity they have.
  Hand-written, trusted; the body is regenerated (Generated/GoCtorSet/F_SetConfigNotThreadSafe.lean).  Core Lean only.
-/
import CircuitModel.GoSetCfgPrims
namespace CM.GoCtorSet
open CM CM.Go

abbrev Obj := GoSetCfg.Obj
/-- a cell `make` has allocated and nobody has written -/
def zeroObj : Obj := ⟨3, 0, false⟩

/-- a slice header -/
structure Sl where
  arr : Nat := 0
  len : Nat := 0
  cap : Nat := 0
  deriving Repr, DecidableEq

/-- a `circuit.Config` value: unit GoSetCfg's view of it (`b`; its three lists are the CONTENTS of the slices when the call
    starts, see `CfgS.Abs`) and the three slice headers the caller passed -/
structure CfgS where
  b : GoSetCfg.CfgB
  f_Metrics_Run : Sl
  f_Metrics_Fallback : Sl
  f_Metrics_Circuit : Sl
def CfgS.f_General_GoLostErrors (c : CfgS) : Nat := c.b.f_General_GoLostErrors
def CfgS.f_General_TimeKeeper_Now (c : CfgS) : Nat := c.b.f_General_TimeKeeper_Now

/-- the circuit (GoSetCfg's `BuildW` + the three slice headers) and the heap of backing arrays (`next` = first unused identity) -/
structure SW where
  w : GoSetCfg.BuildW := {}
  run : Sl := {}
  fb : Sl := {}
  circ : Sl := {}
  heap : Nat → List Obj := fun _ => []
  next : Nat := 0

/-- what a slice holds -/
def contents (heap : Nat → List Obj) (s : Sl) : List Obj := (heap s.arr).take s.len

abbrev SLM := M SW NoTok
def fn (body : SLM α) : SLM α := goFunc noTok body
def onW (f : GoSetCfg.BuildW → GoSetCfg.BuildW) : SLM Unit := upd fun s => { s with w := f s.w }

def recv_notThreadSafeConfigMu_Lock : SLM Unit := pure ()
def recv_notThreadSafeConfigMu_Unlock : SLM Unit := pure ()
def recv_notThreadSafeConfig_set (c : CfgS) : SLM Unit := onW fun w => { w with stored := c.b.tag, storedCfg := some c.b }
def recv_goroutineWrapper_lostErrors_set (h : Nat) : SLM Unit := onW fun w => { w with lostErrors := h }
def recv_timeNow_set (h : Nat) : SLM Unit := onW fun w => { w with timeNow := h }
def recv_OpenToClose : SLM Obj := rd (·.w.closer)
def recv_ClosedToOpen : SLM Obj := rd (·.w.opener)
def recv_OpenToClose_set (o : Obj) : SLM Unit := onW fun w => { w with closer := o }
def recv_ClosedToOpen_set (o : Obj) : SLM Unit := onW fun w => { w with opener := o }
def CfgS.m_General_OpenToClosedFactory (c : CfgS) : SLM Obj :=
  updRet fun s => ({ s with w := { s.w with made := s.w.made + 1 } }, ⟨0, s.w.made, c.b.closerConf⟩)
def CfgS.m_General_ClosedToOpenFactory (c : CfgS) : SLM Obj :=
  updRet fun s => ({ s with w := { s.w with made := s.w.made + 1 } }, ⟨1, s.w.made, c.b.openerConf⟩)

/-- a logic object as an interface value (its own type here so that the method names below are this unit's) -/
structure Cfgable where
  o : Obj
def as_Configurable (o : Obj) : SLM (Cfgable × Bool) := pure (⟨o⟩, o.conf)
def Cfgable.m_SetConfigNotThreadSafe (x : Cfgable) (c : CfgS) : SLM Unit := onW fun w => { w with told := w.told ++ [.notThreadSafe x.o c.b.tag] }
/-- `c.SetConfigThreadSafe(config)`: tied in unit GoSetCfg (`go_SetConfigThreadSafe_eq` = `BuildW.setLive`); no slice involved -/
def recv_SetConfigThreadSafe (c : CfgS) : SLM Unit := onW fun w => w.setLive c.b

/-! ### slices -/
def goLen (s : Sl) : Int := s.len
/-- the heap with array `n` replaced by `a` -/
def setArr (heap : Nat → List Obj) (n : Nat) (a : List Obj) : Nat → List Obj := fun i => if i = n then a else heap i
/-- `make([]T, 0, n)`: a NEW array of n unwritten cells -/
def goMakeSlice (n : Int) : SLM Sl :=
  updRet fun s => ({ s with heap := setArr s.heap s.next (List.replicate n.toNat zeroObj), next := s.next + 1 }, ⟨s.next, 0, n.toNat⟩)
/-- `append(x, els...)` on a heap: nothing to add ⇒ `x` itself; room in `x`'s backing array ⇒ the cells after `x`'s length are
    OVERWRITTEN there and the header grows; else a new array holding `x`'s contents and the new elements (Go may give it more
    capacity than needed; exactly enough here) -/
def appendCells (heap : Nat → List Obj) (next : Nat) (x : Sl) (els : List Obj) : (Nat → List Obj) × Nat × Sl :=
  if els.isEmpty then (heap, next, x)
  else if x.len + els.length ≤ x.cap then
    (setArr heap x.arr ((heap x.arr).take x.len ++ els ++ (heap x.arr).drop (x.len + els.length)), next, { x with len := x.len + els.length })
  else
    (setArr heap next (contents heap x ++ els), next + 1, ⟨next, x.len + els.length, x.len + els.length⟩)
def goAppend (x : Sl) (els : List Obj) : SLM Sl :=
  updRet fun s => ({ s with heap := (appendCells s.heap s.next x els).1, next := (appendCells s.heap s.next x els).2.1 }, (appendCells s.heap s.next x els).2.2)
/-- `append(x, y...)` -/
def goAppendSlice (x y : Sl) : SLM Sl := fun g => goAppend x (contents g.st.heap y) g

def recv_CmdMetricCollector : SLM Sl := rd (·.run)
def recv_CircuitMetricsCollector : SLM Sl := rd (·.circ)
/-- storing a slice in a collector field: the header, and (for the abstraction) what it holds right now -/
def recv_CmdMetricCollector_set (x : Sl) : SLM Unit := upd fun s => { s with run := x, w := { s.w with run := contents s.heap x } }
def recv_FallbackMetricCollector_set (x : Sl) : SLM Unit := upd fun s => { s with fb := x, w := { s.w with fb := contents s.heap x } }
def recv_CircuitMetricsCollector_set (x : Sl) : SLM Unit := upd fun s => { s with circ := x, w := { s.w with circ := contents s.heap x } }

/-! ### statement side -/
/-- a caller's slice at the start of the call: `l` is what it holds, and it lives in an array that exists (or is empty) -/
def SlAbs (s : SW) (x : Sl) (l : List Obj) : Prop := l = contents s.heap x ∧ l.length = x.len ∧ (x.len = 0 ∨ x.arr < s.next)
/-- the config's three lists, as unit GoSetCfg sees them, are what the caller's three slices hold -/
def CfgS.Abs (c : CfgS) (s : SW) : Prop :=
  SlAbs s c.f_Metrics_Run c.b.f_Metrics_Run ∧ SlAbs s c.f_Metrics_Fallback c.b.f_Metrics_Fallback ∧ SlAbs s c.f_Metrics_Circuit c.b.f_Metrics_Circuit

/-- `SetConfigNotThreadSafe(config)` at slice level: GoSetCfg's `rebuild` for everything but the lists' storage; the three lists
    in three NEW arrays (`next`, `next+1`, `next+2`; the fallback one keeps two unwritten cells), every other array as it was -/
def SW.rebuildS (s : SW) (c : CfgS) : SW :=
  let w' := s.w.rebuild c.b
  { w := w',
    run := ⟨s.next, c.f_Metrics_Run.len + 2, c.f_Metrics_Run.len + 2⟩,
    fb := ⟨s.next + 1, c.f_Metrics_Fallback.len, c.f_Metrics_Fallback.len + 2⟩,
    circ := ⟨s.next + 2, c.f_Metrics_Circuit.len + 2, c.f_Metrics_Circuit.len + 2⟩,
    heap := setArr (setArr (setArr s.heap s.next w'.run) (s.next + 1) (w'.fb ++ [zeroObj, zeroObj])) (s.next + 2) w'.circ,
    next := s.next + 3 }

end CM.GoCtorSet

/- DriverMerge.lean — suite `merge`: evaluates the REGENERATED merge program of a type on the harness's values -/
import CircuitModel.MergeLang
import CircuitModel.Basic
import Generated.MergeProgs
namespace CM
open Merge

def parseNatList (s : String) (sep : String) : List Nat :=
  if s.isEmpty then [] else (s.splitOn sep).filterMap String.toNat?

def parseMapVal (s : String) : List (Nat × Nat) :=
  let inner := ((s.drop 1).toString.dropEnd 1).toString
  if inner.isEmpty then [] else
  (inner.splitOn ",").filterMap fun kv => match kv.splitOn ":" with
    | [k, v] => do pure (← k.toNat?, ← v.toNat?)
    | _ => none

/-- build the value of a type from path=value pairs -/
def buildVal (types : List TypeDef) : Nat → List Field → String → List (String × String) → List (String × Val)
  | _, [], _, _ => []
  | fuel, f :: rest, pre, kvs =>
    let raw := (kvGet kvs (pre ++ f.name)).getD ""
    let v : Val := match f.kind with
      | .scalar => .scalar (raw.toNat?.getD 0)
      | .bool => .bool (raw == "1")
      | .list => .list (parseNatList (((raw.drop 1).toString.dropEnd 1).toString) ".")
      | .map => .map (parseMapVal raw)
      | .nested ty =>
        match fuel, typeOf types ty with
        | fuel' + 1, some td => .struct (buildVal types fuel' td.fields (pre ++ f.name ++ ".") kvs)
        | _, _ => .struct []
    (f.name, v) :: buildVal types fuel rest pre kvs

def insertKV (x : Nat × Nat) : List (Nat × Nat) → List (Nat × Nat)
  | [] => [x]
  | y :: ys => if x.1 ≤ y.1 then x :: y :: ys else y :: insertKV x ys
def sortKV : List (Nat × Nat) → List (Nat × Nat)
  | [] => []
  | x :: xs => insertKV x (sortKV xs)

partial def encodeVal (pre : String) : List (String × Val) → List String
  | [] => []
  | (n, v) :: rest =>
    (match v with
     | .scalar x => [pre ++ n ++ "=" ++ toString x]
     | .bool b => [pre ++ n ++ "=" ++ fmtBool b]
     | .list l => [pre ++ n ++ "=[" ++ ".".intercalate (l.map toString) ++ "]"]
     | .map m => [pre ++ n ++ "={" ++ ",".intercalate ((sortKV m).map fun (k, x) => s!"{k}:{x}") ++ "}"]
     | .struct fs => encodeVal (pre ++ n ++ ".") fs) ++ encodeVal pre rest

def suiteMerge (kvs : List (String × String)) (lines : List (String × String)) : List String :=
  let types := Generated.mergeTypes
  match typeOf types ((kvGet kvs "type").getD "") with
  | none => lines.map fun _ => "no-such-type\t-"
  | some td =>
    lines.map fun (line, _) =>
      let toKVs (s : String) := (s.splitOn ";").filterMap fun kv => match kv.splitOn "=" with | [k, v] => some (k, v) | _ => none
      if line.startsWith "b " then
        -- shared backing arrays: r1 after r1.Merge(o1); r1.Merge(o2) — whatever another receiver did with o1 meanwhile
        match ((line.drop 2).toString).splitOn " | " with
        | [r1, o1, o2, _, _] =>
          let v (sg : String) := buildVal types 8 td.fields "" (toKVs sg)
          let m := evalStmts types 8 td.fields td.prog (evalStmts types 8 td.fields td.prog (v r1) (v o1)) (v o2)
          let sp := specStruct types 8 td.fields (specStruct types 8 td.fields (v r1) (v o1)) (v o2)
          ";".intercalate (encodeVal "" m) ++ "\t" ++ ";".intercalate (encodeVal "" sp)
        | _ => "bad-op\t-"
      else
      if line.startsWith "a " then
        -- aliasing check: after recv.Merge(o1); recv.Merge(o2) the value o1 must read exactly as it was given
        match ((line.drop 2).toString).splitOn " | " with
        | [_, o1, _] =>
          let v := buildVal types 8 td.fields "" (toKVs o1)
          let e := ";".intercalate (encodeVal "" v)
          e ++ "\t" ++ e
        | _ => "bad-op\t-"
      else
      if line.startsWith "f " then
        -- factory layering: constructors c0 … c(k-1), the factory's own config, the library defaults; the LAST
        -- constructor has the highest precedence: fold Merge over [c(k-1), …, c0, base, defaults]
        let segs := ((line.drop 2).toString).splitOn " | "
        let vals := segs.map fun sg => buildVal types 8 td.fields "" (toKVs sg)
        let nC := vals.length - 2
        let order := (vals.take nC).reverse ++ vals.drop nC
        let empty := buildVal types 8 td.fields "" []
        let m := order.foldl (fun acc l => evalStmts types 8 td.fields td.prog acc l) empty
        let sp := order.foldl (fun acc l => specStruct types 8 td.fields acc l) empty
        ";".intercalate (encodeVal "" m) ++ "\t" ++ ";".intercalate (encodeVal "" sp)
      else
      match ((line.drop 2).toString).splitOn " | " with
      | [rs, os] =>
        let r := buildVal types 8 td.fields "" (toKVs rs)
        let o := buildVal types 8 td.fields "" (toKVs os)
        let m := evalStmts types 8 td.fields td.prog r o
        let sp := specStruct types 8 td.fields r o
        ";".intercalate (encodeVal "" m) ++ "\t" ++ ";".intercalate (encodeVal "" sp)
      | _ => "bad-op\t-"

end CM

/-
  GoHfacPrims.lean — what the names in the CONSTRUCTION-TIME glue of the built-in open/close logic MEAN
  (units GoHFac*, tools/extract/gotrans/units_hfac.go):

    Layers     closers/hystrix/config.go       Factory.createCloser / createOpener / Configure
    Closer     closers/hystrix/closer.go       CloserFactory (+ the closure it returns)
    Opener     closers/hystrix/opener.go       OpenerFactory (+ closure), Opener.SetConfigThreadSafe / SetConfigNotThreadSafe
    Now        closers/hystrix/opener.go       ConfigureOpener.now
    Consec     closers/simplelogic/closers.go  ConsecutiveErrOpenerFactory (+ closure)
    Never      closers.go                      neverOpensFactory / neverClosesFactory

  * A configuration is a record with the REAL fields; a func-typed field is the identity of the injected function
    (`none` = nil).  `x.Merge(y)` is NOT translated here (K3 / C19 tie it to the source): its meaning is the field-wise
    "fill the gaps" merge (`CCfg.merge` …).  The package defaults (`defaultConfigureCloser` …) are transcribed by hand.
  * A `func() T` handed out by a factory is a first-order value `Clo` (generated name + current values of its captured
    variables); applying it is the GENERATED `go_<maker>_apply`, which returns the result and the closure as the call
    leaves it (the closures write to their captured `config`).
  * Objects live in a store (`heap`): `&T{}` / `return &s` is `goNew` = one more cell, the pointer is its index.  So
    "every call yields a fresh object" is a statement about indices, false for a version that hands out one shared cell.
  * The opener's construction draws on an environment: the clocks (clock `c`'s answer at the k-th reading overall) with
    the number of readings so far, and the number of bucket slices allocated so far (`make`): "both counters at ONE
    reading of the configured clock, each its own counter" is then a statement about `reads` and slice identities.
  Hand-written, trusted; the bodies are regenerated (Generated/GoHFac*/F_*.lean).  Core Lean only.
-/
import CircuitModel.Logic
import CircuitModel.GoConsumerPrims
namespace CM.GoHFac
open CM CM.Go

/-! ### configurations (closers/hystrix/closer.go, opener.go; closers/simplelogic/closers.go) -/

/-- hystrix.ConfigureCloser -/
structure CCfg where
  f_AfterFunc : Option Nat := none           -- identity of the injected `time.AfterFunc` replacement; `none` = nil
  f_SleepWindow : Int := 0
  f_HalfOpenAttempts : Int := 0
  f_RequiredConcurrentSuccessful : Int := 0
  deriving Repr, DecidableEq

/-- hystrix.ConfigureOpener -/
structure OCfg where
  f_ErrorThresholdPercentage : Int := 0
  f_RequestVolumeThreshold : Int := 0
  f_Now : Option Nat := none                 -- identity of the injected clock; `none` = nil
  f_RollingDuration : Int := 0
  f_NumBuckets : Int := 0
  deriving Repr, DecidableEq

/-- simplelogic.ConfigConsecutiveErrOpener -/
structure KCfg where
  f_ErrorThreshold : Int := 0
  deriving Repr, DecidableEq

/-- a zero field takes the other side's value -/
def gapI (a b : Int) : Int := if a = 0 then b else a
/-- a nil func field takes the other side's value -/
def gapF (a b : Option Nat) : Option Nat := match a with | some x => some x | none => b

/-- `(*ConfigureCloser).Merge` -/
def CCfg.merge (c o : CCfg) : CCfg :=
  { f_AfterFunc := gapF c.f_AfterFunc o.f_AfterFunc, f_SleepWindow := gapI c.f_SleepWindow o.f_SleepWindow,
    f_HalfOpenAttempts := gapI c.f_HalfOpenAttempts o.f_HalfOpenAttempts,
    f_RequiredConcurrentSuccessful := gapI c.f_RequiredConcurrentSuccessful o.f_RequiredConcurrentSuccessful }
/-- `(*ConfigureOpener).Merge` -/
def OCfg.merge (c o : OCfg) : OCfg :=
  { f_ErrorThresholdPercentage := gapI c.f_ErrorThresholdPercentage o.f_ErrorThresholdPercentage,
    f_RequestVolumeThreshold := gapI c.f_RequestVolumeThreshold o.f_RequestVolumeThreshold,
    f_Now := gapF c.f_Now o.f_Now, f_RollingDuration := gapI c.f_RollingDuration o.f_RollingDuration,
    f_NumBuckets := gapI c.f_NumBuckets o.f_NumBuckets }
/-- `(*ConfigConsecutiveErrOpener).Merge` -/
def KCfg.merge (c o : KCfg) : KCfg := { f_ErrorThreshold := gapI c.f_ErrorThreshold o.f_ErrorThreshold }

/-- `x.Merge(y)` as a statement on a local `x` (translator option `mutating`): the new value of `x` -/
def CCfg.m_Merge (c o : CCfg) : M σ tok CCfg := pure (c.merge o)
def OCfg.m_Merge (c o : OCfg) : M σ tok OCfg := pure (c.merge o)
def KCfg.m_Merge (c o : KCfg) : M σ tok KCfg := pure (c.merge o)

/-- identity of `time.Now` among the clocks -/
def wallClock : Nat := 0
/-- `defaultConfigureCloser` (5 s, 1, 1, no timer hook) -/
def defaultCCfg : CCfg := { f_SleepWindow := 5000000000, f_HalfOpenAttempts := 1, f_RequiredConcurrentSuccessful := 1 }
/-- `defaultConfigureOpener` (20 requests, 50 %, time.Now, 10 buckets over 10 s) -/
def defaultOCfg : OCfg :=
  { f_RequestVolumeThreshold := 20, f_ErrorThresholdPercentage := 50, f_Now := some wallClock, f_NumBuckets := 10, f_RollingDuration := 10000000000 }
/-- `defaultConfigConsecutiveErrOpener` -/
def defaultKCfg : KCfg := { f_ErrorThreshold := 10 }

/-- a pointer into a unit's object store -/
structure Ref where
  idx : Nat
  deriving Repr, DecidableEq

/-! ### the precedence of layers, as a specification -/

/-- per-circuit constructor results `cs` (in the order they were appended) and the factory-wide value `fw`:
    the LAST constructor is merged first (so it wins), …, the first constructor, then the factory-wide value -/
def layer (merge : α → α → α) (zero : α) (cs : List α) (fw : α) : α :=
  merge (cs.foldr (fun c acc => merge acc c) zero) fw

/-- all entries present, or `none` -/
def allSome : List (Option α) → Option (List α)
  | [] => some []
  | none :: _ => none
  | some a :: l => (allSome l).map (a :: ·)

/-- the value a field ends up with: the first set (non-zero) one in precedence order, else zero -/
def pickI (l : List Int) : Int := (l.find? (· ≠ 0)).getD 0
def pickF (l : List (Option Nat)) : Option Nat := l.findSome? id

/-! ### hystrix.CloserFactory -/
namespace Closer

/-- a hystrix.Closer VALUE: gate + the two words (`HCloser`), the gate's timer hook, the stored config -/
structure CloserObj where
  c : HCloser := { required := 0 }
  afterFunc : Option Nat := none
  config : CCfg := {}
  deriving Repr, DecidableEq
/-- `Closer{}` -/
def lit_Closer : CloserObj := {}

/-- what `SetConfigNotThreadSafe(cfg)` (= `SetConfigThreadSafe`; tied in unit GoHCloserCfg: `W.configured`) leaves behind -/
def CloserObj.configured (s : CloserObj) (cfg : CCfg) : CloserObj :=
  { c := { s.c with tc := { s.c.tc with sleep := cfg.f_SleepWindow, allow := cfg.f_HalfOpenAttempts }, required := cfg.f_RequiredConcurrentSuccessful },
    afterFunc := cfg.f_AfterFunc, config := cfg }

structure Clo where
  name : String
  env : List CCfg
  deriving Repr, DecidableEq

structure CW where
  heap : List CloserObj := []
  deriving Repr, DecidableEq

abbrev CFM := M CW NoTok
def fn (body : CFM α) : CFM α := goFunc noTok body
def pkg_defaultConfigureCloser : CCfg := defaultCCfg
/-- `s.SetConfigNotThreadSafe(config)` on the local VALUE `s`: the new value of `s` -/
def CloserObj.m_SetConfigNotThreadSafe (s : CloserObj) (cfg : CCfg) : CFM CloserObj := pure (s.configured cfg)
/-- `&s`: one more cell -/
def goNew (v : CloserObj) : CFM Ref := fun g => (.ok ⟨g.st.heap.length⟩, { g with st := { g.st with heap := g.st.heap ++ [v] } })
/-- applying a func value that is not one of this package's closures -/
def cloStuck : CFM (Ref × Clo) := Go.nilCall

/-- statement side: the closure `CloserFactory(cfg)` returns, and the object each call of it builds -/
def cloOf (cfg : CCfg) : Clo := ⟨"CloserFactory_lit1", [cfg]⟩
def built (cfg : CCfg) : CloserObj := lit_Closer.configured (cfg.merge defaultCCfg)
end Closer

/-! ### hystrix.OpenerFactory, Opener.SetConfigThreadSafe / SetConfigNotThreadSafe -/
namespace Opener

/-- what construction draws on -/
structure Env where
  clock : Nat → Nat → Int     -- clock `c`, the k-th reading of any clock so far ↦ the time it shows
  reads : Nat := 0            -- readings so far
  slices : Nat := 0           -- bucket slices allocated so far

/-- one reading of clock `c` -/
def Env.read (e : Env) (c : Nat) : Int × Env := (e.clock c e.reads, { e with reads := e.reads + 1 })

/-- a faststats.RollingCounter VALUE as `NewRollingCounter` makes it: the model counter (times are offsets from
    `start` = rollingBucket.StartTime) and the identity of its bucket slice (`none` = the nil slice of `RollingCounter{}`) -/
structure Counter where
  rc : RC := RC.new 0 0
  start : Int := 0
  slice : Option Nat := none
  deriving Repr, DecidableEq

/-- a hystrix.Opener VALUE -/
structure OpenerObj where
  errors : Counter := {}
  attempts : Counter := {}
  pct : Int := 0
  vol : Int := 0
  config : OCfg := {}
  deriving Repr, DecidableEq
/-- `Opener{}` -/
def lit_Opener : OpenerObj := {}
/-- the part C02's model speaks about -/
def OpenerObj.model (s : OpenerObj) : HOpener := { errors := s.errors.rc, attempts := s.attempts.rc, pct := s.pct, vol := s.vol }

structure Clo where
  name : String
  env : List OCfg
  deriving Repr, DecidableEq

structure OW where
  recv : OpenerObj := {}          -- the receiver (unit GoHFacOpenerSet)
  env : Env
  heap : List OpenerObj := []     -- cells made by `&s` (unit GoHFacOpener)

abbrev OFM := M OW String
def fn (body : OFM α) : OFM α := goFunc (fun t => if t = "recv_mu_Unlock" then pure () else Go.nilCall) body
def deferPrim (c : String) : OFM Unit := Go.pushDefer c
def recv_mu_Lock : OFM Unit := pure ()
def onRecv (f : OpenerObj → OpenerObj) : OFM Unit := upd fun w => { w with recv := f w.recv }
def recv_config_set (c : OCfg) : OFM Unit := onRecv fun s => { s with config := c }
def recv_errorPercentage_Set (n : Int) : OFM Unit := onRecv fun s => { s with pct := n }
def recv_requestVolumeThreshold_Set (n : Int) : OFM Unit := onRecv fun s => { s with vol := n }
/-- `props.Now()`: calling the configured clock (nil: runtime panic) -/
def _root_.CM.GoHFac.OCfg.m_Now (p : OCfg) : OFM Int := fun g =>
  match p.f_Now with
  | none => (.nilCall, g)
  | some c => (.ok (g.st.env.read c).1, { g with st := { g.st with env := (g.st.env.read c).2 } })
def _root_.CM.GoHFac.OCfg.m_RollingDuration_Nanoseconds (p : OCfg) : OFM Int := pure p.f_RollingDuration
/-- `int64(n)` of an `int` (64-bit platforms) -/
def pkg_int64 (n : Int) : OFM Int := pure n
/-- `a / b` on int64: truncated; `none` = the integer-divide-by-zero panic, raised where the quotient is used next
    (`time_Duration`; nothing happens in between).  MinInt64 / -1 wraps in Go: not modelled, a negative bucket count
    panics in `make` before the width is looked at. -/
def goDiv (a b : Int) : Option Int := if b = 0 then none else some (tdiv a b)
def time_Duration (q : Option Int) : OFM Int := match q with | some d => pure d | none => Go.nilCall
/-- `faststats.NewRollingCounter(width, n, now)`: `make([]AtomicInt64, n)` panics for n < 0, otherwise a new slice;
    everything else zero -/
def faststats_NewRollingCounter (w n now : Int) : OFM Counter := fun g =>
  if n < 0 then (.nilCall, g)
  else (.ok { rc := RC.new n.toNat w, start := now, slice := some g.st.env.slices },
        { g with st := { g.st with env := { g.st.env with slices := g.st.env.slices + 1 } } })
def recv_errorsCount_set (c : Counter) : OFM Unit := onRecv fun s => { s with errors := c }
def recv_legitimateAttemptsCount_set (c : Counter) : OFM Unit := onRecv fun s => { s with attempts := c }

/-- statement side: `s.SetConfigNotThreadSafe(p)` in environment `e` — the outcome, the object and the environment left
    behind (a panic leaves the thresholds published and the counters as they were) -/
def OpenerObj.setNTS (s : OpenerObj) (p : OCfg) (e : Env) : Out Unit × OpenerObj × Env :=
  let s1 := { s with config := p, pct := p.f_ErrorThresholdPercentage, vol := p.f_RequestVolumeThreshold }
  match p.f_Now with
  | none => (.nilCall, s1, e)
  | some c =>
    let now := e.clock c e.reads
    let e1 := { e with reads := e.reads + 1 }
    if p.f_NumBuckets = 0 then (.nilCall, s1, e1)                                                  -- integer divide by zero
    else if p.f_NumBuckets < 0 then (.nilCall, s1, e1)                                             -- makeslice: len out of range
    else
      let rc := RC.new p.f_NumBuckets.toNat (tdiv p.f_RollingDuration p.f_NumBuckets)
      (.ok (), { s1 with errors := { rc := rc, start := now, slice := some e.slices },
                         attempts := { rc := rc, start := now, slice := some (e.slices + 1) } },
       { e1 with slices := e.slices + 2 })

/-- `s.SetConfigNotThreadSafe(config)` on the local VALUE `s` (unit GoHFacOpener): the new value of `s`.  That this is
    the translated method body run with `s` as the receiver is theorem `m_SetConfigNotThreadSafe_is_method`. -/
def OpenerObj.m_SetConfigNotThreadSafe (s : OpenerObj) (p : OCfg) : OFM OpenerObj := fun g =>
  match s.setNTS p g.st.env with
  | (.ok _, s', e') => (.ok s', { g with st := { g.st with env := e' } })
  | (.panic v, _, e') => (.panic v, { g with st := { g.st with env := e' } })
  | (.nilCall, _, e') => (.nilCall, { g with st := { g.st with env := e' } })
def pkg_defaultConfigureOpener : OCfg := defaultOCfg
def goNew (v : OpenerObj) : OFM Ref := fun g => (.ok ⟨g.st.heap.length⟩, { g with st := { g.st with heap := g.st.heap ++ [v] } })
def cloStuck : OFM (Ref × Clo) := Go.nilCall
def cloOf (cfg : OCfg) : Clo := ⟨"OpenerFactory_lit1", [cfg]⟩
end Opener

/-! ### (*ConfigureOpener).now -/
namespace Now
open Opener
structure NW where
  cfg : OCfg
  env : Env
abbrev NWM := M NW NoTok
def fn (body : NWM α) : NWM α := goFunc noTok body
/-- a clock as a func value -/
structure ClockFn where
  id : Nat
def readClock (c : Nat) : NWM Int := fun g => (.ok (g.st.env.read c).1, { g with st := { g.st with env := (g.st.env.read c).2 } })
def recv_Now : NWM (Option ClockFn) := rd fun w => w.cfg.f_Now.map ClockFn.mk
def time_Now : NWM Int := readClock wallClock
instance : Call0 NWM (Option ClockFn) Int where
  call f := match f with
    | some c => readClock c.id
    | none => Go.nilCall
end Now

/-! ### simplelogic.ConsecutiveErrOpenerFactory -/
namespace Consec
structure Clo where
  name : String
  env : List KCfg
  deriving Repr, DecidableEq
structure KW where
  heap : List ConsecOpener := []
  deriving Repr, DecidableEq
abbrev KFM := M KW NoTok
def fn (body : KFM α) : KFM α := goFunc noTok body
/-- `ConsecutiveErrOpener{}` -/
def lit_ConsecutiveErrOpener : ConsecOpener := { count := 0, threshold := 0 }
def pkg_defaultConfigConsecutiveErrOpener : KCfg := defaultKCfg
/-- `&ConsecutiveErrOpener{}`: one more cell -/
def goNew (v : ConsecOpener) : KFM Ref := fun g => (.ok ⟨g.st.heap.length⟩, { g with st := { g.st with heap := g.st.heap ++ [v] } })
/-- `ret.SetConfigThreadSafe(config)` through the POINTER `ret` (body tied in unit GoConsec: the threshold word is set) -/
def _root_.CM.GoHFac.Ref.m_SetConfigThreadSafe (r : Ref) (cfg : KCfg) : KFM Unit := fun g =>
  match g.st.heap[r.idx]? with
  | none => (.nilCall, g)
  | some o => (.ok (), { g with st := { g.st with heap := g.st.heap.set r.idx { o with threshold := cfg.f_ErrorThreshold } } })
def cloStuck : KFM (Ref × Clo) := Go.nilCall
def cloOf (cfg : KCfg) : Clo := ⟨"ConsecutiveErrOpenerFactory_lit1", [cfg]⟩
end Consec

/-! ### neverOpensFactory / neverClosesFactory -/
namespace Never
abbrev NFM := M Unit NoTok
def fn (body : NFM α) : NFM α := goFunc noTok body
abbrev OpenerV := OState
abbrev CloserV := CState
/-- `neverOpens{}` / `neverCloses{}`: the stateless default logic -/
def lit_neverOpens : OpenerV := .never
def lit_neverCloses : CloserV := .never
end Never

/-! ### hystrix.Factory: createCloser / createOpener / Configure -/
namespace Layers
abbrev CloserFn := Closer.Clo
abbrev OpenerFn := Opener.Clo

/-- the literal `circuit.Config{General: circuit.GeneralConfig{OpenToClosedFactory: …, ClosedToOpenFactory: …}}`: these two
    fields and nothing else (any other field in the literal has no counterpart here: the module stops compiling) -/
structure circuit_GeneralConfig where
  OpenToClosedFactory : CloserFn
  ClosedToOpenFactory : OpenerFn
  deriving Repr, DecidableEq
structure circuit_Config where
  General : circuit_GeneralConfig
  deriving Repr, DecidableEq

/-- the Factory: factory-wide values and the per-circuit constructors in the order they were appended
    (a constructor is a function of the circuit name; `none` = a nil entry) -/
structure FW where
  closerCfg : CCfg := {}
  openerCfg : OCfg := {}
  closerCtors : List (Option (String → CCfg)) := []
  openerCtors : List (Option (String → OCfg)) := []

abbrev LYM := M FW NoTok
def fn (body : LYM α) : LYM α := goFunc noTok body
def lit_ConfigureCloser : CCfg := {}
def lit_ConfigureOpener : OCfg := {}
def goLen (l : List α) : Int := l.length
/-- `for i := n - 1; i >= 0; i--` -/
def goCountdown (n : Int) : List Int := ((List.range n.toNat).map Int.ofNat).reverse
def recv_ConfigureCloser : LYM CCfg := rd (·.closerCfg)
def recv_ConfigureOpener : LYM OCfg := rd (·.openerCfg)
def recv_CreateConfigureCloser : LYM (List (Option (String → CCfg))) := rd (·.closerCtors)
def recv_CreateConfigureOpener : LYM (List (Option (String → OCfg))) := rd (·.openerCtors)
/-- `l[i](name)`: outside the slice or a nil entry is a runtime panic -/
def callAt (l : List (Option (String → α))) (i : Int) (name : String) : LYM α := fun g =>
  if i < 0 then (.nilCall, g) else
  match l[i.toNat]? with
  | some (some f) => (.ok (f name), g)
  | _ => (.nilCall, g)
def recv_CreateConfigureCloser_call (i : Int) (name : String) : LYM CCfg := fun g => callAt g.st.closerCtors i name g
def recv_CreateConfigureOpener_call (i : Int) (name : String) : LYM OCfg := fun g => callAt g.st.openerCtors i name g
/-- `CloserFactory(cfg)` / `OpenerFactory(cfg)` (units GoHFacCloser / GoHFacOpener: `go_CloserFactory cfg = pure (cloOf cfg)`) -/
def pkg_CloserFactory (cfg : CCfg) : LYM CloserFn := pure (Closer.cloOf cfg)
def pkg_OpenerFactory (cfg : OCfg) : LYM OpenerFn := pure (Opener.cloOf cfg)

/-- statement side -/
def layerC (cs : List CCfg) (fw : CCfg) : CCfg := layer CCfg.merge {} cs fw
def layerO (cs : List OCfg) (fw : OCfg) : OCfg := layer OCfg.merge {} cs fw
end Layers

end CM.GoHFac

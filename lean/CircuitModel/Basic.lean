/-
  Basic.lean — shared helpers for the executable models (core Lean only, no Mathlib).
  Times are `Int` nanoseconds relative to an origin chosen by the harness; Go's `time.Time`
  arithmetic is modelled without saturation (harness keeps |t| < 2^62 ns).
-/
namespace CM

/-- key=value fields of a `case` header line. -/
def parseKVs (toks : List String) : List (String × String) :=
  toks.filterMap fun t =>
    match t.splitOn "=" with
    | [k, v] => some (k, v)
    | _ => none

def kvGet (kvs : List (String × String)) (k : String) : Option String :=
  (kvs.find? (·.1 == k)).map (·.2)

def kvInt (kvs : List (String × String)) (k : String) (dflt : Int) : Int :=
  match kvGet kvs k with
  | some v => v.toInt?.getD dflt
  | none => dflt

def kvNat (kvs : List (String × String)) (k : String) (dflt : Nat) : Nat :=
  match kvGet kvs k with
  | some v => v.toNat?.getD dflt
  | none => dflt

def kvBool (kvs : List (String × String)) (k : String) (dflt : Bool) : Bool :=
  match kvGet kvs k with
  | some "1" => true
  | some "true" => true
  | some "0" => false
  | some "false" => false
  | _ => dflt

def fmtInts (l : List Int) : String :=
  "[" ++ ",".intercalate (l.map toString) ++ "]"

def fmtBool (b : Bool) : String := if b then "1" else "0"

/-- Go's `int64` truncated division (`/`), defined for `b ≠ 0`. -/
def tdiv (a b : Int) : Int := Int.tdiv a b

/-- wrap an integer to the int64 range (two's complement), as Go arithmetic does. -/
def wrap64 (x : Int) : Int :=
  let m : Int := 18446744073709551616
  let r := x % m
  if r ≥ 9223372036854775808 then r - m else r

end CM

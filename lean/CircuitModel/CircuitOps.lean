/-
  CircuitOps.lean — glue between the circuit model and the observation-level specification, generic in the
  open/close logic: the observable outcome of one Execute, and histories of operations.
-/
import CircuitModel.Circuit
import CircuitModel.Spec.Circuit
namespace CM
open SpecCircuit

/-- what a caller observes of one `execute` of the model -/
def mkObs {σo σc : Type} (c : Circ σo σc) (obs : Obs) (res : Res) (op : ExecOp) : ExecObs :=
  { res := res, runCalls := if obs.runSeen.isSome then 1 else 0, fbCalls := if obs.fbArg.isSome then 1 else 0,
    seen := obs.runSeen,
    seenErrAfter := (match op.run with | some sc => if obs.runSeen.isSome then ctxErrAfter op.ctx sc else none | none => none),
    fbArg := obs.fbArg, fbSame := obs.fbSameCtx, emits := obs.emits, readings := obs.readings, released := obs.released,
    openAfter := isOpenEff c, conc := c.conc, concFb := c.concFb, fanOk := true }

section
variable {σo σc : Type} (O : OpenerI σo) (C : CloserI σc)

/-- the admission decision the circuit will take for a call starting now -/
def actualAdmission (c : Circ σo σc) : Bool :=
  if !isOpenEff c then true else if c.cfg.forceOpen then false else (C.allow c.closer c.clock).2

/-- the opener's Prevent answer for a call starting now -/
def actualPrevent (c : Circ σo σc) : Bool := (O.prevent c.opener c.clock).2

/-- one operation of a history.  `env` stands for anything outside the circuit that touches the open/close logic
    (timer callbacks, live reconfiguration of the logic): arbitrary functions on its state. -/
inductive CircOp (σo σc : Type) where
  | exec (op : ExecOp)
  | openC
  | closeC
  | setcfg (cfg : LiveCfg)
  | tick (d : Int)
  | env (f : σo → σo) (g : σc → σc)

/-- apply one operation; returns the new state and the callbacks delivered during it -/
def stepOp (c : Circ σo σc) : CircOp σo σc → Circ σo σc × List Emit
  | .exec op => let (c', obs, _) := execute O C c op.ctx op.run op.fb; (c', obs.emits)
  | .openC => let (c', obs) := manualOpen O C c; (c', obs.emits)
  | .closeC => let (c', obs) := manualClose O C c; (c', obs.emits)
  | .setcfg cfg => (setConfig c cfg, [])
  | .tick d => ({ c with clock := c.clock + d }, [])
  | .env f g => ({ c with opener := f c.opener, closer := g c.closer }, [])

/-- run a history; returns the final state and every callback delivered, in order -/
def runOps (c : Circ σo σc) : List (CircOp σo σc) → Circ σo σc × List Emit
  | [] => (c, [])
  | op :: ops =>
    let (c', e) := stepOp O C c op
    let (c'', es) := runOps c' ops
    (c'', e ++ es)

end
end CM

/-
  Spec/C13.lean — the sliding-window counter *as the property states it*: a function of the history
  only.  No ring, no slots, no stored window position.
-/
import CircuitModel.RollingCounter
namespace CM.SpecC13

/-- the time an operation presents, if any -/
def opTime : RCOp → Option Int
  | .inc d | .sum d | .bk d | .reset d => some d
  | .total | .json => none

/-- newest bucket index ever presented by a time that is not before the start (0 if none) -/
def hi (w : Int) : List RCOp → Nat
  | [] => 0
  | op :: h =>
    match opTime op with
    | some d => if d < 0 then hi w h else max (absIdx w d) (hi w h)
    | none => hi w h

/-- `Inc` offsets since the last `Reset`, newest first; history lists are newest-first -/
def live : List RCOp → List Int
  | [] => []
  | .reset _ :: _ => []
  | .inc d :: h => d :: live h
  | _ :: h => live h

/-- bucket indices of the `Inc` calls since the last `Reset` that are stamped at or after the start -/
def counted (w : Int) (h : List RCOp) : List Nat :=
  ((live h).filter (fun d => decide (0 ≤ d))).map (absIdx w)

/-- number of Inc calls in the history -/
def incs : List RCOp → Int
  | [] => 0
  | .inc _ :: h => incs h + 1
  | _ :: h => incs h

/-- rolling sum: such events whose bucket lies among the newest `n` buckets ending at `hi` -/
def sum (n : Nat) (w : Int) (h : List RCOp) : Int :=
  ((counted w h).filter (fun e => e + n > hi w h)).length

/-- per-bucket counts newest first -/
def bucketsAt (n : Nat) (w : Int) (h : List RCOp) : List Int :=
  (List.range n).map fun i =>
    if i ≤ hi w h then (((counted w h).filter (fun e => e = hi w h - i)).length : Int) else 0

/-- the answer the property dictates for the newest operation `op` given everything before it (`h`, newest first) -/
def out (n : Nat) (w : Int) (h : List RCOp) (op : RCOp) : RCOut :=
  match op with
  | .inc _ => .ok
  | .reset _ => .ok
  | .json => .ok
  | .total => .int (incs h)
  | .sum _ => .int (sum n w (op :: h))
  | .bk _ => .ints (bucketsAt n w (op :: h))

/-- run the spec over a chronological op list; `h` is the reversed prefix already seen -/
def runFrom (n : Nat) (w : Int) (h : List RCOp) : List RCOp → List RCOut
  | [] => []
  | op :: ops => out n w h op :: runFrom n w (op :: h) ops

def run (n : Nat) (w : Int) (ops : List RCOp) : List RCOut := runFrom n w [] ops

end CM.SpecC13

/-
  Spec/C20.lean — what the metric consumers must report, computed naively from WHAT HAPPENED: the list of run and
  fallback events (kind, time, duration) delivered so far.  No counters, no rings.
-/
import CircuitModel.Consumers
namespace CM.SpecC20

structure Hist where
  run : List (Kind × Int × Int) := []      -- oldest first
  fb : List (FbKind × Int) := []
  deriving Repr

def Hist.add (h : Hist) : Emit → Hist
  | .run k t d => { h with run := h.run ++ [(k, t, d)] }
  | .fb k t _ => { h with fb := h.fb ++ [(k, t)] }
  | _ => h

def kinds : List Kind := [.success, .reject, .failure, .shortCircuit, .timeout, .badRequest, .interrupt]
def fbKinds : List FbKind := [.success, .reject, .failure]

def total (h : Hist) (k : Kind) : Int := (h.run.filter (·.1 == k)).length
/-- events of kind k inside the window of n buckets of width w ending at the bucket of `now` (times are non-negative
    and non-decreasing in the harness, so the window's newest bucket is now's) -/
def rolling (n : Nat) (w : Int) (h : Hist) (k : Kind) (now : Int) : Int :=
  (h.run.filter fun (k', t, _) => k' == k && decide (0 ≤ t) && decide (absIdx w t + n > absIdx w now)).length
def fbTotal (h : Hist) (k : FbKind) : Int := (h.fb.filter (·.1 == k)).length
def fbRolling (n : Nat) (w : Int) (h : Hist) (k : FbKind) (now : Int) : Int :=
  (h.fb.filter fun (k', t) => k' == k && decide (0 ≤ t) && decide (absIdx w t + n > absIdx w now)).length

/-- the event-stream record as the property states it, from the history alone -/
def streamSpec (n : Nat) (w : Int) (h : Hist) (now : Int) (isOpen : Bool) : Cons.StreamCounts :=
  let r := fun k => rolling n w h k now
  let fr := fun k => fbRolling n w h k now
  { requestCount := r .success + r .failure + r .timeout + r .interrupt,
    errorCount := r .failure + r .timeout,
    rollS := r .success, rollRej := r .reject, rollF := r .failure, rollSC := r .shortCircuit, rollT := r .timeout,
    rollBad := r .badRequest + r .interrupt,
    cntS := total h .success, cntRej := total h .reject, cntF := total h .failure, cntSC := total h .shortCircuit,
    cntT := total h .timeout, cntBad := total h .badRequest + total h .interrupt,
    fbRollS := fr .success, fbRollRej := fr .reject, fbRollF := fr .failure,
    fbCntS := fbTotal h .success, fbCntRej := fbTotal h .reject, fbCntF := fbTotal h .failure,
    isOpen := isOpen }

/-- (failures+timeouts)/(successes+failures+timeouts) over the window, as the correctly rounded double; 0 when empty -/
def errorPercentage (n : Nat) (w : Int) (h : Hist) (now : Int) : Rat :=
  let s := rolling n w h .success now
  let f := rolling n w h .failure now
  let t := rolling n w h .timeout now
  if s + f + t = 0 then 0 else F64.rne (((f + t : Int) : Rat) / ((s + f + t : Int) : Rat))

def sloPass (maxHealthy : Int) (h : Hist) : Int :=
  (h.run.filter fun (k, _, d) => k == .success && decide (d ≤ maxHealthy)).length
def sloFail (maxHealthy : Int) (h : Hist) : Int :=
  (h.run.filter fun (k, _, d) =>
    (k == .success && decide (d > maxHealthy)) || k == .failure || k == .timeout || k == .reject || k == .shortCircuit ||
    (k == .interrupt && decide (d > maxHealthy))).length

end CM.SpecC20

namespace CM.SpecC20
/-- rolling sum for ANY timestamp order (the substitute clock may be set back): a counter's window ends at the newest
    bucket ever presented to it — by its own events, by earlier reads (every stats / stream read presents its time to
    every counter) or by this read -/
def newestBucket (w : Int) (times : List Int) : Nat :=
  ((times.filter (fun t => decide (0 ≤ t))).map (absIdx w)).foldl max 0

def rollingAny (n : Nat) (w : Int) (h : Hist) (reads : List Int) (k : Kind) (now : Int) : Int :=
  let own := (h.run.filter (·.1 == k)).map (·.2.1)
  let hiK := newestBucket w (own ++ reads ++ [now])
  (own.filter fun t => decide (0 ≤ t) && decide (absIdx w t + n > hiK)).length

def fbRollingAny (n : Nat) (w : Int) (h : Hist) (reads : List Int) (k : FbKind) (now : Int) : Int :=
  let own := (h.fb.filter (·.1 == k)).map (·.2)
  let hiK := newestBucket w (own ++ reads ++ [now])
  (own.filter fun t => decide (0 ≤ t) && decide (absIdx w t + n > hiK)).length
end CM.SpecC20

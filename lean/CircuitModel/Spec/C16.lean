/-
  Spec/C16.lean — the TimedCheck property as a predicate over an observed trace (ops with their answers).
  It knows nothing about fast-fail flags, versions or event counters: only about *armings*
  (SleepStart, or the successful check that uses up the budget), the sleep duration in force at the arming,
  and whether the callback created by the current arming has fired.
-/
import CircuitModel.TimedCheck
namespace CM.SpecC16

structure Epoch where
  sleep : Int := 0
  allow : Int := 0
  arm : Option Int := none     -- time until which checks must fail: arming time + sleep in force at the arming
  armings : Nat := 0           -- number of armings so far (the k-th arming creates callback k-1)
  fired : Bool := false        -- has the callback of the current arming fired?
  succ : Int := 0              -- successful checks since the last arming
  deriving Repr, DecidableEq

def Epoch.rearm (e : Epoch) (t : Int) : Epoch :=
  { e with arm := some (t + e.sleep), armings := e.armings + 1, fired := false, succ := 0 }

/-- what the property dictates for `Check now`: `some false` inside the sleep period, `some true` for an eligible
    check once the current callback has fired (or nothing was ever armed), no opinion otherwise -/
def Epoch.expect (e : Epoch) (now : Int) : Option Bool :=
  match e.arm with
  | none => some true
  | some t => if now < t then some false else if e.fired then some true else none

/-- advance the bookkeeping by one observed step -/
def Epoch.next (e : Epoch) : TCOp → TCOut → Epoch
  | .start t, _ => e.rearm t
  | .check t, .bool true =>
    let e := { e with succ := e.succ + 1 }
    if e.succ ≥ e.allow then e.rearm t else e    -- the budget-exhausting success re-arms
  | .setSleep d, _ => { e with sleep := d }
  | .setAllow k, _ => { e with allow := k }
  | .fire k, _ => if k + 1 = e.armings then { e with fired := true } else e
  | _, _ => e

/-- verdict for one step: `none` = fine, `some msg` = the property is violated here -/
def Epoch.verdict (e : Epoch) : TCOp → TCOut → Option String
  | .check now, .bool b =>
    match e.expect now with
    | some true => if b then none else some "eligible check refused although the current callback has fired"
    | some false => if b then some "check succeeded inside the sleep period" else none
    | none => none
  | _, _ => none

/-- run the monitor over a trace; one verdict per step -/
def monitor (e : Epoch) : List (TCOp × TCOut) → List (Option String)
  | [] => []
  | (op, o) :: tr => e.verdict op o :: monitor (e.next op o) tr

def holds (tr : List (TCOp × TCOut)) : Bool := (monitor {} tr).all Option.isNone

end CM.SpecC16

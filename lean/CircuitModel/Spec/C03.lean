/-
  Spec/C03.lean — recovery with the hystrix closer, as the property states it.
  (a) closer level: ops on a hystrix.Closer; admission is judged by the C16 monitor (sleep respected, exactness) and
      by the literal span bound; ShouldClose = successes since the last transition/failure/timeout ≥ required.
  (b) circuit level: a book kept from OBSERVED outcomes only (notifications, run events, admissions, start readings).
-/
import CircuitModel.Spec.C16
import CircuitModel.Spec.Circuit
namespace CM.SpecC03

/-! ### (a) closer level -/
inductive ClOp where
  | ev (k : Kind) (t : Int)
  | opened (t : Int)
  | closed (t : Int)
  | allow (t : Int)
  | shouldClose (t : Int)
  | fire (k : Nat)
  | cfg (sleep half req : Int)
  deriving Repr, DecidableEq

/-- successes since the last of {Opened, Closed, failure, timeout}; history newest-first -/
def succSince : List ClOp → Int
  | [] => 0
  | .opened _ :: _ => 0
  | .closed _ :: _ => 0
  | .ev k _ :: h => if k == .failure || k == .timeout then 0 else if k == .success then succSince h + 1 else succSince h
  | _ :: h => succSince h

def required (req0 : Int) : List ClOp → Int
  | [] => req0
  | .cfg _ _ r :: _ => r
  | _ :: h => required req0 h

def shouldCloseSpec (req0 : Int) (h : List ClOp) : Bool := decide (succSince h ≥ required req0 h)

/-- the admission gate seen as a TimedCheck: which C16 op an op of the closer amounts to -/
def toTC : ClOp → List TCOp
  | .opened t => [.start t]
  | .closed t => [.start t]
  | .allow t => [.check t]
  | .fire k => [.fire k]
  | .cfg s h _ => [.setSleep s, .setAllow h]
  | _ => []

/-- literal span bound: among admission timestamps `ts`, some k+1 lie in a span shorter than `sleep` -/
def insertAsc (x : Int) : List Int → List Int
  | [] => [x]
  | y :: ys => if x ≤ y then x :: y :: ys else y :: insertAsc x ys
def sortAsc : List Int → List Int
  | [] => []
  | x :: xs => insertAsc x (sortAsc xs)
def spanViolated (sleep : Int) (k : Nat) (ts : List Int) : Bool :=
  let s := sortAsc ts
  (List.range s.length).any fun i =>
    match s[i]?, s[i + k]? with
    | some a, some b => decide (b - a < sleep)
    | _, _ => false
def nonDecreasing : List Int → Bool      -- arrival order, oldest first
  | a :: b :: r => decide (a ≤ b) && nonDecreasing (b :: r)
  | _ => true

/-! ### (b) circuit level -/
structure Book where
  sleep : Int
  half : Int
  req : Int
  openedAt : Option Int := none     -- time of the Opened notification of the current open period
  sleepAtOpen : Int := 0
  halfAtOpen : Int := 0
  cfgChanged : Bool := false        -- closer settings changed during the current open period
  admissions : List Int := []       -- start readings of the calls admitted during the current open period, oldest first
  succ : Int := 0                   -- successes since the last of {opening, failure, timeout}
  deriving Repr

def Book.onEmit (b : Book) : Emit → Book
  | .opened t => { b with openedAt := some t, sleepAtOpen := b.sleep, halfAtOpen := b.half, cfgChanged := false, admissions := [], succ := 0 }
  | .closed _ => { b with openedAt := none, admissions := [], succ := 0 }
  | .run k _ _ => if k == .failure || k == .timeout then { b with succ := 0 } else if k == .success then { b with succ := b.succ + 1 } else b
  | _ => b

def maxOne (x : Int) : Nat := if x ≤ 1 then 1 else x.toNat

open SpecCircuit in
/-- verdict for one Execute on a circuit with the hystrix closer; `openBefore` = IsOpen() before the call -/
def verdictExec (b : Book) (cfg : LiveCfg) (openBefore : Bool) (o : ExecObs) : Option String :=
  -- "it closes, unless forced open, …": no Closed notification may come out of a call while ForceOpen is in force
  -- (`cfg` = the settings in force when the call completed), whatever the state was before
  if cfg.forceOpen ∧ !cfg.disabled ∧ (notifs o.emits).contains false then some "closed although forced open" else
  match b.openedAt, o.readings.head? with
  | some T, some start =>
    if !openBefore ∨ cfg.disabled then none else
    -- 1. nothing runs within SleepWindow of the opening
    if T ≤ start ∧ start < T + b.sleepAtOpen ∧ o.runCalls ≠ 0 then some "a call started within SleepWindow of the opening ran the protected function"
    -- 2. admissions in any span shorter than SleepWindow number at most max(1, HalfOpenAttempts)
    else if o.runCalls ≠ 0 ∧ !b.cfgChanged ∧ spanViolated b.sleepAtOpen (maxOne b.halfAtOpen) (b.admissions ++ [start]) then
      some "more than max(1,HalfOpenAttempts) calls admitted within a span shorter than SleepWindow"
    else
      -- 3. closing
      let ks := (runEvents o.emits).map (·.1)
      let closedNow := (notifs o.emits).contains false
      if cfg.forceOpen then (if closedNow then some "closed although forced open" else none)
      -- ForcedClosed in force at completion (switched on under the call): IsOpen() reads false, the success path does
      -- not even ask the closer — no opinion about closing
      else if cfg.forcedClosed then none
      else if ks == [.success] then
        (if closedNow == decide (b.succ + 1 ≥ (maxOne b.req : Int)) then none
         else some "did not close exactly when max(1,RequiredConcurrentSuccessful) successes completed since the opening with no failure/timeout in between")
      else if closedNow then some "closed on a call that was not a success"
      else none
  | _, _ => none

def Book.afterExec (b : Book) (openBefore : Bool) (o : SpecCircuit.ExecObs) : Book :=
  let b := if openBefore ∧ b.openedAt.isSome ∧ o.runCalls ≠ 0 then
      (match o.readings.head? with | some s => { b with admissions := b.admissions ++ [s] } | none => b) else b
  o.emits.foldl Book.onEmit b

end CM.SpecC03

/-
  Spec/C15.lean — what the property says about RollingPercentile / SortedDurations, with no ring and no slots.
-/
import CircuitModel.RollingPercentile
namespace CM.SpecC15

def opTime : RPOp → Int
  | .add _ d | .snap d | .reset d => d

/-- newest bucket index ever presented by a non-negative time; histories are newest-first -/
def hi (w : Int) : List RPOp → Nat
  | [] => 0
  | op :: h => if opTime op < 0 then hi w h else max (absIdx w (opTime op)) (hi w h)

/-- (bucket index, duration) of the samples added since the last Reset at or after the start, oldest first -/
def live (w : Int) : List RPOp → List (Nat × Int)
  | [] => []
  | .reset _ :: _ => []
  | .add dur d :: h => if d < 0 then live w h else live w h ++ [(absIdx w d, dur)]
  | _ :: h => live w h

def takeLast (k : Nat) (l : List α) : List α := l.drop (l.length - k)

/-- samples of one bucket that survive: the most recent `size` of those added to it -/
def bucketSample (w : Int) (size : Nat) (h : List RPOp) (e : Nat) : List Int :=
  takeLast size (((live w h).filter (fun x => x.1 = e)).map (·.2))

/-- the snapshot the property dictates: buckets hi, hi-1, …, hi-n+1 (those that exist), merged and sorted -/
def snapshot (n : Nat) (w : Int) (size : Nat) (h : List RPOp) : List Int :=
  isort ((((List.range n).filter (fun i => i ≤ hi w h)).map (fun i => bucketSample w size h (hi w h - i))).flatten)

def out (n : Nat) (w : Int) (size : Nat) (h : List RPOp) (op : RPOp) : RPOut :=
  match op with
  | .snap _ => .ints (snapshot n w size (op :: h))
  | _ => .ok

def runFrom (n : Nat) (w : Int) (size : Nat) (h : List RPOp) : List RPOp → List RPOut
  | [] => []
  | op :: ops => out n w size h op :: runFrom n w size (op :: h) ops

def run (n : Nat) (w : Int) (size : Nat) (ops : List RPOp) : List RPOut := runFrom n w size [] ops

/-! ### summaries: verdicts over observed answers -/

/-- exact (unbounded) arithmetic stays inside int64 for this sample: the guard outside which the Go code overflows -/
def inInt64 (x : Int) : Bool := decide (-9223372036854775808 ≤ x ∧ x ≤ 9223372036854775807)
def noOverflow (s : List Int) : Bool :=
  inInt64 s.sum && inInt64 ((s.filter (· > 0)).sum) && inInt64 ((s.filter (· < 0)).sum) && inInt64 (SD.max s - SD.min s)

/-- verdict for an observed percentile answer `v` of a non-empty ascending sample `s` at finite p -/
def pctVerdict (s : List Int) (p : F64.Val) (v : Int) : Option String :=
  if s.length = 0 then (if v = -1 then none else some "empty sample must answer -1") else
  let lo := SD.min s; let hiV := SD.max s
  let pre := if noOverflow s then "" else "overflow:"
  match p with
  | .nan => none
  | .ninf => if v = lo then none else some "P(-inf) ≠ Min"
  | .pinf => if v = hiV then none else some "P(+inf) ≠ Max"
  | .fin pv =>
    if pv ≤ 0 then (if v = lo then none else some "P(p≤0) ≠ Min")
    else if pv ≥ 100 then (if v = hiV then none else some "P(p≥100) ≠ Max")
    else if lo ≤ v ∧ v ≤ hiV then none else some (pre ++ "percentile outside [Min,Max]")

def meanVerdict (s : List Int) (v : Int) : Option String :=
  if s.length = 0 then (if v = -1 then none else some "empty sample must answer -1")
  else if SD.min s ≤ v ∧ v ≤ SD.max s then none
  else some ((if noOverflow s then "" else "overflow:") ++ "mean outside [Min,Max]")

def pLe : F64.Val → F64.Val → Bool
  | .fin a, .fin b => decide (a ≤ b)
  | .ninf, .nan => false
  | .ninf, _ => true
  | .fin _, .pinf => true
  | .pinf, .pinf => true
  | _, _ => false

/-- monotonicity verdict for two observed answers at p ≤ q -/
def monoVerdict (s : List Int) (p q : F64.Val) (vp vq : Int) : Option String :=
  if pLe p q && decide (vp > vq) then some ((if noOverflow s then "" else "overflow:") ++ "percentile decreases in p") else none

end CM.SpecC15

/-
  Spec/C18Prog.lean — the program the small-step model Conc/GoWrap.lean was written for: gowrapper.go as ChanLang
  terms, written by hand, every statement linked to the actor / step / state field of the model that stands for it.
  Props/C18Prog.lean proves that today's gowrapper.go (Generated/ChanFacts.lean, regenerated on every run) IS this
  program, and the structural facts the model relies on.  Below the program: those facts as functions over ChanLang.
-/
import CircuitModel.ChanLang
namespace CM.SpecC18Prog
open CM.ChanLang

/-- `goroutineWrapper.run` -/
def run : Func := { name := "run", recv := "g", params := ["runFunc"], body := .of [
  .guardReturn "runFunc == nil" "nil",                  -- no function, no wrapper: outside the model (nothing is started)
  .retFunc ["ctx"] (.of [                               -- one call of the wrapper = one `State`; all channels are made per call
    .declChan "panicResult",
    .makeChan "panicResult" 1 (some "!g.skipCatchPanics.Get()"),   -- `panCh : Option Nat`: capacity 1 = an Option buffer
                                                        --   (skipCatchPanics is never set: the model has the channel always)
    .makeChan "runFuncErr" 1 none,                      -- `resCh : Option (Option Nat)`: capacity 1
    .goFunc (.of [                                      -- the worker goroutine: `.envFn` (the function ends) then `.worker`
      .deferRecoverSend "panicResult" (some "panicResult != nil"), -- `.worker`, outcome `.panic v`: panCh := some v
      .send "runFuncErr" "runFunc(ctx)"                 -- `.worker`, outcome `.ret e`:   resCh := some e; its LAST statement
    ]),
    .select (.of [                                      -- the caller; enabled only while `caller = none`
      .ctxDone "ctx" (.of [                             -- `.callerCtx` (needs `ctxDone`)
        .goCall "g.waitForErrors" ["runFuncErr", "panicResult"] (some "g.lostErrors != nil"),
                                                        --   waiterSpawned := sc.lostErrors
        .ret "ctx.Err()"                                --   caller := some .ctxErr
      ]),
      .recv "runFuncErr" (some "err") (.of [            -- `.callerRes` (needs resCh = some e; empties it)
        .ret "err"                                      --   caller := some (.fn (.ret e))
      ]),
      .recv "panicResult" (some "panicVal") (.of [      -- `.callerPan` (needs panCh = some v; empties it)
        .panic "panicVal"                               --   caller := some (.fn (.panic v)): re-panicked on the caller's goroutine
      ])
    ])
  ])
] }

/-- `goroutineWrapper.fallback`: the same wrapper around a closure that passes the error on — nothing of its own -/
def fallback : Func := { name := "fallback", recv := "g", params := ["runFunc"], body := .of [
  .guardReturn "runFunc == nil" "nil",
  .retFunc ["ctx", "err"] (.of [
    .retWrapped "g.run" ["funcCtx"] (.of [.ret "runFunc(funcCtx, err)"]) ["ctx"]
  ])
] }

/-- `goroutineWrapper.waitForErrors`: the waiter goroutine -/
def waitForErrors : Func := { name := "waitForErrors", recv := "g", params := ["runFuncErr", "panicResults"], body := .of [
  .select (.of [                                        -- enabled only while `waiterSpawned ∧ ¬waiterDone`
    .recv "runFuncErr" (some "err") (.of [              -- `.waiterRes` (needs resCh = some e; empties it)
      .call "g.lostErrors" ["err", "nil"]               --   lost := lost ++ [.ret e]
    ]),
    .recv "panicResults" (some "panicResult") (.of [    -- `.waiterPan` (needs panCh = some v; empties it)
      .call "g.lostErrors" ["nil", "panicResult"]       --   lost := lost ++ [.panic v]
    ])
  ]),
  .close "runFuncErr",                                  -- waiterDone := true: after its one receive the waiter only closes
  .close "panicResults"                                 --   (the worker has made its one send: nobody sends on a closed channel)
] }

/-- gowrapper.go, in source order -/
def expected : List Func := [run, fallback, waitForErrors]

/-! the structural facts the model relies on, as checks over ANY ChanLang program -/

/-- a worker: a deferred recover-send into `pan` (guarded by nothing but `pan != nil`), then ONE plain send, into a
    different channel, as its last statement — whichever way the function ends, exactly one send, then the goroutine ends -/
def isWorker (b : Block) : Bool :=
  match b.toList with
  | [.deferRecoverSend pan (some g), .send res _] => pan != res && g == pan ++ " != nil"
  | _ => false

/-- a waiter over its two parameters: a select with exactly the two receives, each reporting what it received to the
    same callback (value in its own position, nil in the other), then the two closes -/
def isWaiter (f : Func) : Bool :=
  match f.params, f.body.toList with
  | [res, pan], [.select cs, .close c1, .close c2] =>
    c1 == res && c2 == pan && res != pan &&
    match cs.toList with
    | [.recv r1 (some x) b1, .recv r2 (some y) b2] =>
      r1 == res && r2 == pan &&
      (match b1.toList, b2.toList with
       | [.call cb1 [a1, n1]], [.call cb2 [n2, a2]] => cb1 == cb2 && a1 == x && a2 == y && n1 == "nil" && n2 == "nil"
       | _, _ => false)
    | _ => false
  | _, _ => false

/-- the caller's select: exactly ctx.Done() / result / panic.  Context first ends the call with the context's error,
    after handing both channels to `waiter` under `guard`; a result is returned as it is; a panic value is re-panicked -/
def isCallerSelect (waiter guard : String) (cs : List Case) : Bool :=
  match cs with
  | [.ctxDone ctx b0, .recv res (some e) b1, .recv pan (some v) b2] =>
    res != pan &&
    (match b0.toList, b1.toList, b2.toList with
     | [.goCall w [a1, a2] (some g), .ret r0], [.ret r1], [.panic r2] =>
       w == waiter && g == guard && a1 == res && a2 == pan && r0 == ctx ++ ".Err()" && r1 == e && r2 == v
     | _, _, _ => false)
  | _ => false

def plainSendsOf (p : Block) : List String := (flat p).filterMap fun | .send ch _ => some ch | _ => none
def recoverSendsOf (p : Block) : List String := (flat p).filterMap fun | .deferRecoverSend ch _ => some ch | _ => none
/-- the channels whose received value is re-panicked -/
def panicChannels (p : Block) : List String :=
  (selectsOf p).flatMap fun cs => cs.filterMap fun
    | .recv ch _ b => if b.toList.any (fun | .panic _ => true | _ => false) then some ch else none
    | _ => none

/-- what is re-panicked came out of a `recover()`: a channel a panic value is taken from is never sent into plainly -/
def panicOnlyFromRecover (p : Block) : Bool :=
  (panicChannels p).all fun ch => (recoverSendsOf p).contains ch && !(plainSendsOf p).contains ch

def funcNamed (prog : List Func) (callee : String) : Option Func :=
  prog.find? fun f => callee == f.recv ++ "." ++ f.name

/-- every goroutine of the program is a worker or a waiter; nothing is opaque -/
def goroutinesOk (prog : List Func) : Bool :=
  prog.all fun f => noOpaque f.body && (goBodies f.body).all isWorker &&
    (goCalls f.body).all fun (callee, _, _) => match funcNamed prog callee with | some w => isWaiter w | none => false

end CM.SpecC18Prog

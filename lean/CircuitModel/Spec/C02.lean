/-
  Spec/C02.lean — the built-in openers' thresholds as the property states them, from the history of completed calls.
  No rolling counters, no rings: events, a window measured back from the query time, integer arithmetic.
-/
import CircuitModel.Logic
namespace CM.SpecC02

/-- what an opener is told / asked -/
inductive OOp where
  | ev (k : Kind) (t : Int)
  | opened (t : Int)
  | closed (t : Int)
  | should (t : Int)
  | cfgH (pct vol : Int)
  | cfgC (thr : Int)
  | view (t : Int)          -- the JSON / expvar view is read while the injected clock shows t
  deriving Repr, DecidableEq

def OOp.time : OOp → Option Int
  | .ev _ t | .opened t | .closed t | .should t | .view t => some t
  | _ => none

/-- outcomes that count: successes, failures, timeouts -/
def counts (k : Kind) : Bool := k == .success || k == .failure || k == .timeout
def isErr (k : Kind) : Bool := k == .failure || k == .timeout

/-- events since the last transition (history newest-first) -/
def sinceTransition : List OOp → List (Kind × Int)
  | [] => []
  | .opened _ :: _ => []
  | .closed _ :: _ => []
  | .ev k t :: h => (k, t) :: sinceTransition h
  | _ :: h => sinceTransition h

/-- number of events of the selected kinds completed inside the rolling window of `n` buckets of width `w` ending
    at the bucket of `t` -/
def windowCount (n : Nat) (w : Int) (h : List OOp) (t : Int) (sel : Kind → Bool) : Int :=
  ((sinceTransition h).filter fun (k, d) => sel k && decide (0 ≤ d) && decide (absIdx w d + n > absIdx w t)).length

/-- current thresholds: the last live reconfiguration, else the initial ones -/
def thresholds (pct0 vol0 : Int) : List OOp → Int × Int
  | [] => (pct0, vol0)
  | .cfgH p v :: _ => (p, v)
  | _ :: h => thresholds pct0 vol0 h

/-- hystrix: open iff attempts ≥ volume (and there is at least one) and 100·errors ≥ pct·attempts -/
def hystrixShould (n : Nat) (w : Int) (pct0 vol0 : Int) (h : List OOp) (t : Int) : Bool :=
  let a := windowCount n w h t counts
  let e := windowCount n w h t isErr
  let (pct, vol) := thresholds pct0 vol0 h
  decide (a ≠ 0 ∧ a ≥ vol ∧ 100 * e ≥ pct * a)

/-- the guard under which the window is unambiguous: timestamps non-negative and non-decreasing (history newest-first) -/
def monotone : List OOp → Bool
  | [] => true
  | op :: h =>
    match op.time with
    | none => monotone h
    | some t => decide (0 ≤ t) && (h.all fun o => match o.time with | some t' => decide (t' ≤ t) | none => true) && monotone h

/-- the weaker guard that suffices: the query is asked at a time not before anything the history presented (the
    history itself may be in ANY timestamp order: late-stamped completions, earlier queries ...) -/
def latest (h : List OOp) (t : Int) : Bool :=
  decide (0 ≤ t) && h.all fun o => match o.time with | some t' => decide (t' ≤ t) | none => true

/-- consecutive-errors opener: trailing failures/timeouts since the last success or transition -/
def trailingErrors : List (Kind × Int) → Int
  | [] => 0
  | (k, _) :: r => if isErr k then trailingErrors r + 1 else if k == .success then 0 else trailingErrors r

def consecThreshold (thr0 : Int) : List OOp → Int
  | [] => thr0
  | .cfgC t :: _ => t
  | _ :: h => consecThreshold thr0 h

def consecShould (thr0 : Int) (h : List OOp) : Bool :=
  decide (trailingErrors (sinceTransition h) ≥ consecThreshold thr0 h)

end CM.SpecC02

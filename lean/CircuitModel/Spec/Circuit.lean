/-
  Spec/Circuit.lean — the circuit-level properties (C01 C05 C06 C07 C08 C09 C10 C12) as verdict functions over what a
  caller can OBSERVE of one operation: the operation itself, the configuration in force, whether IsOpen() was true
  before it, and the observed outcome (return value, invocations, what the functions saw, the callbacks delivered,
  the clock readings taken).  No gauges, no classification chain, no oracle state: each verdict restates the
  property text.  The same functions judge the model (theorems in CircuitProofs/Props) and, on every run, the real
  implementation's observed outcomes (driver, spec column).
-/
import CircuitModel.Circuit
namespace CM.SpecCircuit

/-- answers a scripted (custom) open/close logic gives during one operation -/
structure Ans where
  shouldOpen : Bool := false
  prevent : Bool := false
  allow : Bool := false
  shouldClose : Bool := false
  deriving Repr, DecidableEq

/-- what the spec knows about the closer's admission answer -/
inductive CloserKind where
  | never | hystrix | scripted
  deriving Repr, DecidableEq

structure ExecOp where
  ctx : CallerCtx := {}
  run : Option Script := none
  fb : Option Script := none
  deriving Repr, DecidableEq

/-- observed outcome of one Execute -/
structure ExecObs where
  res : Res
  runCalls : Nat
  fbCalls : Nat
  seen : Option Seen
  seenErrAfter : Option CtxErr      -- Err() of the context the run function holds, read after any cancellation
  fbArg : Option ErrV
  fbSame : Bool
  emits : List Emit
  readings : List Int
  released : Option Bool
  openAfter : Bool
  conc : Int
  concFb : Int
  fanOk : Bool                      -- every sink (closer, opener, each collector) received the same callbacks
  deriving Repr, DecidableEq

def runEvents (l : List Emit) : List (Kind × Int × Int) :=
  l.filterMap fun | .run k t d => some (k, t, d) | _ => none
def fbEvents (l : List Emit) : List (FbKind × Int × Int) :=
  l.filterMap fun | .fb k t d => some (k, t, d) | _ => none
def notifs (l : List Emit) : List Bool :=          -- true = Opened, false = Closed
  l.filterMap fun | .opened _ => some true | .closed _ => some false | _ => none

def isPanic : Res → Bool | .panic _ => true | .nilFunc => true | _ => false

/-- value the run function returns when invoked (none = nil) -/
def runValue (op : ExecOp) : Option ErrV :=
  match op.run with
  | none => none
  | some sc => actValue sc (ctxErrAfter op.ctx sc)

def fbValue (op : ExecOp) (runCalls : Nat := 1) : Option ErrV :=
  match op.fb with
  | none => none
  | some sc =>
    let ce := match op.run with | some r => if runCalls = 0 then op.ctx.err else ctxErrAfter op.ctx r | none => op.ctx.err
    let ce := match ce with | some e => some e | none => if sc.cancelCaller then some .canceled else none
    actValue sc ce

def runPanics (op : ExecOp) : Option Nat := match op.run with | some { act := .panic v, .. } => some v | _ => none
def fbPanics (op : ExecOp) : Option Nat := match op.fb with | some { act := .panic v, .. } => some v | _ => none

/-- the closer's admission answer as far as the spec can know it -/
def admission (cfg : LiveCfg) (ck : CloserKind) (openBefore : Bool) (ans : Ans) : Option Bool :=
  if !openBefore then some true
  else if cfg.forceOpen then some false
  else match ck with
    | .never => some false
    | .scripted => some ans.allow
    | .hystrix => none

/-- sequential use: a limit is exhausted by a single call exactly when it is 0 -/
def throttled (limit : Int) : Bool := limit == 0

def isRejection : Option ErrV → Bool
  | some .circuitOpen => true
  | some .concLimit => true
  | _ => false

/-! #### C06 — return-value contract -/
def verdictC06 (cfg : LiveCfg) (op : ExecOp) (o : ExecObs) : Option String :=
  if o.runCalls > 1 then some "run function invoked more than once"
  else if o.fbCalls > 1 then some "fallback invoked more than once"
  else if isPanic o.res then none                       -- panics are C10's business
  else
    let ret := match o.res with | .ret e => e | _ => none
    if cfg.disabled then none                           -- pass-through is C08's business
    else
      -- the run step's own result: what the function returned, nil for a nil function, or a library rejection
      let runErrKnown : Option (Option ErrV) :=
        if op.run.isNone then some none
        else if o.runCalls = 1 then some (runValue op) else none
      let stepOk : Option ErrV → Bool := fun e => match runErrKnown with
        | some v => e == v
        | none => isRejection e                         -- not invoked: some rejection error
      match runErrKnown with
      | some none =>
        if ret.isSome then some "run step returned nil but Execute did not"
        else if o.fbCalls ≠ 0 then some "fallback invoked although the run step succeeded" else none
      | _ =>
        let bad := match runErrKnown with | some (some e) => e.isBad | _ => false
        if bad then
          if o.fbCalls ≠ 0 then some "bad request reached the fallback"
          else if stepOk ret then none else some "bad request error not returned unchanged"
        else if op.fb.isSome && !cfg.fbDisabled then
          if throttled cfg.fbMaxConc then
            if o.fbCalls ≠ 0 then some "fallback invoked although its limit is exhausted"
            else if ret == some .concLimit then none else some "throttled fallback must return a ConcurrencyLimitReached error"
          else if o.fbCalls ≠ 1 then some "enabled fallback not invoked for a failed run step"
          else if !(match o.fbArg with | some a => stepOk (some a) | none => false) then some "fallback did not receive the run step's error"
          else if ret == fbValue op o.runCalls then none else some "Execute did not return the fallback's result"
        else
          if o.fbCalls ≠ 0 then some "absent/disabled fallback invoked"
          else if stepOk ret ∧ ret.isSome then none else some "run step's error not returned unchanged"

/-! #### C05 — one event, right kind, all collectors -/
/-- clock model of the harness: each reading advances 1 ns, so `done − start = adv + 2` -/
def timedOut (cfg : LiveCfg) (sc : Script) : Bool := decide (cfg.timeout > 0 ∧ cfg.timeout < sc.adv + 2)

def expectedExecutedKind (cfg : LiveCfg) (op : ExecOp) (sc : Script) : Kind :=
  let ret := runValue op
  if (match ret with | some e => e.isBad | none => false) then .badRequest
  else if timedOut cfg sc then .timeout
  else if ret.isSome && (ctxErrAfter op.ctx sc).isSome && !cfg.ignoreInterrupts &&
      (match ctxErrAfter op.ctx sc with | some e => cfg.iei.verdict e | none => false) then .interrupt
  else if ret.isSome then .failure
  else .success

/-- `adm`: what is known of the admission decision (none = unknown to the spec); `pv`: the opener's Prevent answer -/
def verdictC05 (cfg : LiveCfg) (adm : Option Bool) (pv : Bool) (op : ExecOp) (o : ExecObs) : Option String :=
  if cfg.disabled then none else
  match op.run with
  | none => none
  | some sc =>
    let evs := runEvents o.emits
    if (runPanics op).isSome ∧ o.runCalls = 1 then none else
    if !o.fanOk then some "sinks did not all receive the same callbacks" else
    -- vetoed by the custom opener: got past the open state, Prevent said yes
    let vetoed := adm != some false && pv && o.runCalls = 0 && evs.isEmpty
    if vetoed then none else
    match evs with
    | [(k, _, _)] =>
      -- fallback attempts: exactly one of success / failure / rejection each
      let stepErr : Option ErrV := if o.runCalls = 1 then runValue op else some .circuitOpen
      let fbAttempted := (match stepErr with | some e => !e.isBad | none => false) && op.fb.isSome && !cfg.fbDisabled
      let wantFb : List FbKind :=
        if !fbAttempted then []
        else if throttled cfg.fbMaxConc then [.reject]
        else if (fbPanics op).isSome then []
        else [if (fbValue op o.runCalls).isSome then .failure else .success]
      let fbPart := if (fbEvents o.emits).map (·.1) == wantFb then none else some "fallback attempt not reported as exactly one fallback event of the right kind"
      if o.runCalls = 0 then
        match adm with
        | some false => if k == .shortCircuit then fbPart else some "open-state rejection not reported as short-circuit"
        | some true => if k == .reject then fbPart else some "concurrency rejection not reported as rejection"
        | none => if k == .shortCircuit ∨ k == .reject then fbPart else some "rejected call reported as executed"
      else if k == expectedExecutedKind cfg op sc then fbPart
      else some "executed call reported as the wrong kind"
    | [] => some "no run event for an attempted call"
    | _ => some "more than one run event for one call"

/-! #### C01 — an open circuit sheds load -/
def verdictC01 (cfg : LiveCfg) (adm : Option Bool) (pv : Bool) (op : ExecOp) (o : ExecObs) : Option String :=
  if cfg.disabled ∨ op.run.isNone then none else
  let shed := adm == some false
  let veto := adm == some true && pv
  if !(shed || veto) then none
  else if o.runCalls ≠ 0 then some "run function invoked although the call is not admitted"
  else
    let retOk := match o.res with
      | .ret (some .circuitOpen) => o.fbCalls = 0 ∨ (o.fbCalls = 1 ∧ o.fbArg == some .circuitOpen ∧ some .circuitOpen == fbValue op o.runCalls)
      | .ret r => o.fbCalls = 1 ∧ o.fbArg == some .circuitOpen ∧ r == fbValue op o.runCalls
               ∨ (o.fbCalls = 0 ∧ r == some .concLimit ∧ op.fb.isSome ∧ throttled cfg.fbMaxConc)
      | .panic _ => o.fbCalls = 1 ∧ o.fbArg == some .circuitOpen
      | .nilFunc => false
    if !retOk then some "caller got neither the open error nor the fallback's result for it"
    else if shed then
      (if (runEvents o.emits).map (·.1) == [.shortCircuit] then none else some "open-state rejection must record exactly one short-circuit event")
    else (if (runEvents o.emits).isEmpty then none else some "vetoed call recorded a run event")

/-! #### C08 — overrides and pass-through -/
def verdictC08 (cfg : LiveCfg) (openBefore : Bool) (pv : Bool) (op : ExecOp) (o : ExecObs) : Option String :=
  if cfg.disabled then
    match op.run with
    | none => none
    | some _ =>
      if o.runCalls ≠ 1 then some "disabled circuit must run the function"
      else if (match o.seen with | some s => !s.sameAsCaller | none => true) then some "disabled circuit must pass the caller's context"
      else if o.fbCalls ≠ 0 then some "disabled circuit used the fallback"
      else if !o.emits.isEmpty then some "disabled circuit recorded events"
      else if (match runPanics op with | some v => o.res != .panic v | none => o.res != .ret (runValue op) : Bool) then some "disabled circuit changed the result"
      else none
  else if cfg.forceOpen then
    if !openBefore ∨ !o.openAfter then some "ForceOpen: IsOpen must be true"
    else if op.run.isSome ∧ o.runCalls ≠ 0 then some "ForceOpen admitted a call"
    else none
  else if cfg.forcedClosed then
    if openBefore ∨ o.openAfter then some "ForcedClosed: IsOpen must be false"
    else if (notifs o.emits).contains true then some "ForcedClosed circuit was opened"
    else if op.run.isSome ∧ o.runCalls = 0 ∧ !throttled cfg.maxConc ∧ !pv then some "ForcedClosed refused a call"
    else none
  else none

/-! #### C12 — one clock -/
def isDiffOf (rs : List Int) (d : Int) : Bool := rs.any fun a => rs.any fun b => b - a == d
def verdictC12 (emits : List Emit) (readings : List Int) : Option String :=
  let bad := emits.any fun
    | .run k t d => !(readings.contains t) || ((k != .reject && k != .shortCircuit) && !isDiffOf readings d)
    | .fb k t d => !(readings.contains t) || (k != .reject && !isDiffOf readings d)
    | .opened t => !(readings.contains t)
    | .closed t => !(readings.contains t)
  if bad then some "a timestamp or duration is not derived from TimeKeeper readings taken during the call" else none

/-- the stricter reading of "difference of two such readings": a LATER reading minus an EARLIER one (positions in the
    order the readings were taken) — a clamped or otherwise adjusted duration is not one -/
def isLaterMinusEarlier : List Int → Int → Bool
  | [], _ => false
  | a :: rest, d => rest.any (fun b => b - a == d) || isLaterMinusEarlier rest d
def verdictC12o (emits : List Emit) (readings : List Int) : Option String :=
  let bad := emits.any fun
    | .run k _ d => (k != .reject && k != .shortCircuit) && !isLaterMinusEarlier readings d
    | .fb k _ d => k != .reject && !isLaterMinusEarlier readings d
    | _ => false
  if bad then some "a reported duration is not a later TimeKeeper reading minus an earlier one of the same call" else none

/-! #### C07 — deadline and context propagation -/
def verdictC07 (cfg : LiveCfg) (op : ExecOp) (o : ExecObs) : Option String :=
  if cfg.disabled then none else
  match op.run, o.seen with
  | some sc, some s =>
    if o.runCalls = 0 then none
    else if cfg.timeout > 0 then
      match o.readings.head? with
      | none => some "no start reading"
      | some start =>
        let d := start + cfg.timeout
        let want := match op.ctx.deadline with | some cd => if cd < d then cd else d | none => d
        if s.sameAsCaller then some "Timeout > 0 but the run function got the caller's context itself"
        else if s.deadline != some want then some "derived deadline is not min(caller deadline, start + Timeout)"
        else if s.hasVal != op.ctx.hasVal then some "derived context lost the caller's values"
        else if s.err != op.ctx.err then some "derived context does not reflect the caller's state"
        else if o.seenErrAfter != ctxErrAfter op.ctx sc then some "derived context not cancelled with the caller's"
        else if o.released != some true then some "derived context not released when the call returned"
        else if o.fbCalls = 1 ∧ !o.fbSame then some "fallback did not get the caller's original context" else none
    else
      if !s.sameAsCaller then some "Timeout <= 0 but the run function got a different context"
      else if o.fbCalls = 1 ∧ !o.fbSame then some "fallback did not get the caller's original context" else none
  | _, _ => if o.fbCalls = 1 ∧ !o.fbSame then some "fallback did not get the caller's original context" else none

/-! #### C10 — panics (sequential part) -/
def verdictC10 (cfg : LiveCfg) (openBefore : Bool) (concBefore concFbBefore : Int) (op : ExecOp) (o : ExecObs) : Option String :=
  let rp := if o.runCalls = 1 then runPanics op else none
  let fp := if o.fbCalls = 1 then fbPanics op else none
  match rp, fp with
  | none, none => none
  | some v, _ =>
    if o.res != .panic v then some "run panic did not reach the caller with its value"
    else if o.conc != concBefore ∨ o.concFb != concFbBefore then some "gauges not restored after a panic"
    else if !cfg.disabled ∧ o.openAfter != openBefore then some "panic changed the open/closed state"
    else if !(runEvents o.emits).isEmpty then some "run event recorded for a panicking run function"
    else none
  | none, some v =>
    if o.res != .panic v then some "fallback panic did not reach the caller with its value"
    else if o.conc != concBefore ∨ o.concFb != concFbBefore then some "gauges not restored after a panic"
    else if !(fbEvents o.emits).isEmpty then some "fallback event recorded for a panicking fallback"
    else none

/-! #### C02 (circuit level) — only a failed or timed-out call can open the circuit; bad requests, interrupts,
     short-circuits and rejections never do -/
def verdictC02 (cfg : LiveCfg) (op : ExecOp) (o : ExecObs) : Option String :=
  if cfg.disabled then none else
  if !(notifs o.emits).contains true then none else
  match op.run with
  | none => some "a call without a run function opened the circuit"
  | some sc =>
    if o.runCalls = 0 then some "a call that did not run opened the circuit"
    else
      let k := expectedExecutedKind cfg op sc
      if k == .failure || k == .timeout then none
      else some "the circuit opened on a call that is neither a failure nor a timeout"

/-! #### C09 — notifications mirror transitions (history-level bookkeeping: last notification so far) -/
/-- `last` = the last notification before this operation (none: never notified; true: Opened) -/
def verdictC09 (cfg : LiveCfg) (last : Option Bool) (emits : List Emit) (openAfter : Bool) (fanOk : Bool) : Option String :=
  let ns := notifs emits
  let rec alt (prev : Bool) : List Bool → Bool      -- strictly alternating continuation
    | [] => true
    | b :: r => b != prev && alt b r
  let prev := last.getD false
  if !alt prev ns then some "Opened/Closed notifications do not alternate (starting with Opened)"
  else if !fanOk then some "notification not delivered identically to closer, opener and collectors"
  else
    let lastNow := (ns.getLast?).getD prev
    if !cfg.forceOpen ∧ !cfg.forcedClosed ∧ !cfg.disabled ∧ openAfter != lastNow then some "IsOpen disagrees with the last notification"
    else none

end CM.SpecCircuit

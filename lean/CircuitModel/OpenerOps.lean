/- OpenerOps.lean — running an opener model (an `OState`) over the op language of Spec/C02 -/
import CircuitModel.Spec.C02
namespace CM
open SpecC02

/-- one step; `some b` is the answer of ShouldOpen -/
def ostep (s : OState) : OOp → OState × Option Bool
  | .ev k t => (openerI.onRun s k t 0, none)
  | .opened t => (openerI.onOpened s t, none)
  | .closed t => (openerI.onClosed s t, none)
  | .should t => let (s, b) := openerI.shouldOpen s t; (s, some b)
  | .cfgH p v => ((match s with | .hystrix o => .hystrix { o with pct := p, vol := v } | s => s), none)
  | .cfgC t => ((match s with | .consec o => .consec { o with threshold := t } | s => s), none)
  | .view t => ((match s with | .hystrix o => .hystrix (o.view t) | s => s), none)

def orun (s : OState) : List OOp → List (Option Bool)
  | [] => []
  | op :: ops => let (s', o) := ostep s op; o :: orun s' ops

/-- what the view shows after `view t` took effect: rolling errors, rolling attempts, the two ring positions -/
def oviewOut : OState → String
  | .hystrix o => s!"e={o.errors.rolling} a={o.attempts.rolling} last={o.errors.last},{o.attempts.last}"
  | _ => "ok"

def oexec (s : OState) (ops : List OOp) : OState := ops.foldl (fun s op => (ostep s op).1) s

end CM

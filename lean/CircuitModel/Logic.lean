/-
  Logic.lean — models of the built-in open/close logic as instances of `OpenerI` / `CloserI`:
    closers.go            neverOpens / neverCloses
    closers/hystrix       Opener (two RollingCounters + thresholds), Closer (TimedCheck + success counter)
    closers/simplelogic   ConsecutiveErrOpener
  plus a *scripted* logic whose answers are supplied by the test case (stands for arbitrary custom logic).
  Times handed to the hystrix opener's counters are offsets from its construction time, which the harness pins
  to the clock origin (offset 0).
-/
import CircuitModel.Circuit
import CircuitModel.RollingCounter
import CircuitModel.TimedCheck
namespace CM

/-! ### hystrix.Opener -/
structure HOpener where
  errors : RC
  attempts : RC
  pct : Int        -- errorPercentage (ErrorThresholdPercentage)
  vol : Int        -- requestVolumeThreshold
  deriving Repr, DecidableEq

def HOpener.new (n : Nat) (rollingDur : Int) (pct vol : Int) : HOpener :=
  let w := tdiv rollingDur n
  { errors := RC.new n w, attempts := RC.new n w, pct := pct, vol := vol }

def HOpener.onRun (o : HOpener) (k : Kind) (t _dur : Int) : HOpener :=
  match k with
  | .success => { o with attempts := o.attempts.inc t }
  | .failure | .timeout => { o with attempts := o.attempts.inc t, errors := o.errors.inc t }
  | _ => o

def HOpener.resetBoth (o : HOpener) (t : Int) : HOpener :=
  { o with errors := o.errors.reset t, attempts := o.attempts.reset t }

/-- `ShouldOpen`: attempts ≥ volume (and non-zero) and 100·errors ≥ pct·attempts, in integers -/
def HOpener.shouldOpen (o : HOpener) (t : Int) : HOpener × Bool :=
  let (a, attemptCount) := o.attempts.sumAt t
  let o := { o with attempts := a }
  if attemptCount = 0 ∨ attemptCount < o.vol then (o, false)
  else
    let (e, errCount) := o.errors.sumAt t
    ({ o with errors := e }, decide (errCount * 100 ≥ o.pct * attemptCount))

/-- `MarshalJSON` → `errPercentage(cfg.now())`: rolls the attempts window to the injected clock's reading and, when
    there are attempts, the errors window too; nothing else changes -/
def HOpener.view (o : HOpener) (t : Int) : HOpener :=
  let (a, attemptCount) := o.attempts.sumAt t
  let o := { o with attempts := a }
  if attemptCount = 0 then o else { o with errors := (o.errors.sumAt t).1 }

/-! ### hystrix.Closer -/
structure HCloser where
  tc : TC := {}
  succ : Int := 0        -- concurrentSuccessfulAttempts
  required : Int := 1    -- closeOnCurrentCount
  deriving Repr, DecidableEq

def HCloser.onRun (c : HCloser) (k : Kind) (_t _dur : Int) : HCloser :=
  match k with
  | .success => { c with succ := c.succ + 1 }
  | .failure | .timeout => { c with succ := 0 }
  | _ => c

def HCloser.transition (c : HCloser) (t : Int) : HCloser :=
  { c with succ := 0, tc := c.tc.resetOpen t }

/-! ### simplelogic.ConsecutiveErrOpener -/
structure ConsecOpener where
  count : Int := 0
  threshold : Int := 10
  deriving Repr, DecidableEq

def ConsecOpener.onRun (o : ConsecOpener) (k : Kind) (_t _dur : Int) : ConsecOpener :=
  match k with
  | .success => { o with count := 0 }
  | .failure | .timeout => { o with count := o.count + 1 }
  | _ => o

/-! ### scripted logic: answers come from the test case -/
structure ScriptedO where
  shouldOpen : Bool := false
  prevent : Bool := false
  log : List Emit := []
  deriving Repr, DecidableEq

structure ScriptedC where
  allow : Bool := false
  shouldClose : Bool := false
  log : List Emit := []
  deriving Repr, DecidableEq

/-! ### sums, so that one driver can run every pairing -/
inductive OState where
  | never
  | hystrix (o : HOpener)
  | consec (o : ConsecOpener)
  | scripted (o : ScriptedO)
  deriving Repr, DecidableEq

inductive CState where
  | never
  | hystrix (c : HCloser)
  | scripted (c : ScriptedC)
  deriving Repr, DecidableEq

def openerI : OpenerI OState where
  onRun s k t d := match s with
    | .never => .never
    | .hystrix o => .hystrix (o.onRun k t d)
    | .consec o => .consec (o.onRun k t d)
    | .scripted o => .scripted { o with log := o.log ++ [.run k t d] }
  onOpened s t := match s with
    | .never => .never
    | .hystrix o => .hystrix (o.resetBoth t)
    | .consec o => .consec { o with count := 0 }
    | .scripted o => .scripted { o with log := o.log ++ [.opened t] }
  onClosed s t := match s with
    | .never => .never
    | .hystrix o => .hystrix (o.resetBoth t)
    | .consec o => .consec { o with count := 0 }
    | .scripted o => .scripted { o with log := o.log ++ [.closed t] }
  shouldOpen s t := match s with
    | .never => (.never, false)
    | .hystrix o => let (o, b) := o.shouldOpen t; (.hystrix o, b)
    | .consec o => (.consec o, decide (o.count ≥ o.threshold))
    | .scripted o => (.scripted o, o.shouldOpen)
  prevent s _ := match s with
    | .scripted o => (.scripted o, o.prevent)
    | s => (s, false)

def closerI : CloserI CState where
  onRun s k t d := match s with
    | .never => .never
    | .hystrix c => .hystrix (c.onRun k t d)
    | .scripted c => .scripted { c with log := c.log ++ [.run k t d] }
  onOpened s t := match s with
    | .never => .never
    | .hystrix c => .hystrix (c.transition t)
    | .scripted c => .scripted { c with log := c.log ++ [.opened t] }
  onClosed s t := match s with
    | .never => .never
    | .hystrix c => .hystrix (c.transition t)
    | .scripted c => .scripted { c with log := c.log ++ [.closed t] }
  shouldClose s _ := match s with
    | .never => (.never, false)
    | .hystrix c => (.hystrix c, decide (c.succ ≥ c.required))
    | .scripted c => (.scripted c, c.shouldClose)
  allow s t := match s with
    | .never => (.never, false)
    | .hystrix c => let (tc, b) := c.tc.check t; (.hystrix { c with tc := tc }, b)
    | .scripted c => (.scripted c, c.allow)

end CM

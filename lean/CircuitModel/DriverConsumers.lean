import CircuitModel.DriverCircuit
import CircuitModel.Spec.C20
namespace CM
open SpecCircuit Cons

def fmtRat (r : Rat) : String := if r.den = 1 then toString r.num else s!"{r.num}/{r.den}"

structure ConsState where
  c : Circ OState CState
  all : All
  partialCfg : Bool := false     -- the stored config has no TimeKeeper (diagnostics then use the wall clock)
  noFb : Bool := false           -- the circuit carries no rolling.FallbackStats: fallback events reach no rolling collector
  mono : Bool := true            -- the substitute clock has never been set back
  reads : List Int := []         -- times at which the counters were read so far (a read presents its time to every counter)

def msTrunc (x : Int) : Int := tdiv x 1000000

/-- the stream record's fields we compare, from counters read at `now` -/
def streamFields (name : String) (isOpen : Bool) (sums totals fbSums fbTotals : List Int) (snap : List Int) (conc : Int) : String :=
  let g (l : List Int) (i : Nat) : Int := l.getD i 0
  let s := g sums 0; let rj := g sums 1; let f := g sums 2; let sc := g sums 3; let t := g sums 4; let b := g sums 5; let i := g sums 6
  let errPct := F64.toInt (F64.mul 100 (Cons.errorPercentage s f t))
  let pct (p : Rat) : Int := msTrunc ((SD.percentile snap (.fin p)).getD (-1))
  s!"name={name} open={fmtBool isOpen} requestCount={s + f + t + i} errorCount={f + t} errorPercentage={errPct} " ++
  s!"rollS={s} rollRej={rj} rollF={f} rollSC={sc} rollT={t} rollBad={b + i} " ++
  s!"cntS={g totals 0} cntRej={g totals 1} cntF={g totals 2} cntSC={g totals 3} cntT={g totals 4} cntBad={g totals 5 + g totals 6} " ++
  s!"fbRollS={g fbSums 0} fbRollRej={g fbSums 1} fbRollF={g fbSums 2} fbCntS={g fbTotals 0} fbCntRej={g fbTotals 1} fbCntF={g fbTotals 2} " ++
  s!"lat0={pct 0} lat25={pct 25} lat50={pct 50} lat75={pct 75} lat90={pct 90} lat95={pct 95} lat99={pct 99} lat995={pct (199/2)} lat100={pct 100} latMean={msTrunc (SD.mean snap)} conc={conc}"

/-- the same text from the record the model computes (`All.streamCounts`, the function the C20 theorems speak about) -/
def streamFieldsOf (name : String) (sc : Cons.StreamCounts) (sums : List Int) (snap : List Int) (conc : Int) : String :=
  let g (l : List Int) (i : Nat) : Int := l.getD i 0
  let errPct := F64.toInt (F64.mul 100 (Cons.errorPercentage (g sums 0) (g sums 2) (g sums 4)))
  let pct (p : Rat) : Int := msTrunc ((SD.percentile snap (.fin p)).getD (-1))
  s!"name={name} open={fmtBool sc.isOpen} requestCount={sc.requestCount} errorCount={sc.errorCount} errorPercentage={errPct} " ++
  s!"rollS={sc.rollS} rollRej={sc.rollRej} rollF={sc.rollF} rollSC={sc.rollSC} rollT={sc.rollT} rollBad={sc.rollBad} " ++
  s!"cntS={sc.cntS} cntRej={sc.cntRej} cntF={sc.cntF} cntSC={sc.cntSC} cntT={sc.cntT} cntBad={sc.cntBad} " ++
  s!"fbRollS={sc.fbRollS} fbRollRej={sc.fbRollRej} fbRollF={sc.fbRollF} fbCntS={sc.fbCntS} fbCntRej={sc.fbCntRej} fbCntF={sc.fbCntF} " ++
  s!"lat0={pct 0} lat25={pct 25} lat50={pct 50} lat75={pct 75} lat90={pct 90} lat95={pct 95} lat99={pct 99} lat995={pct (199/2)} lat100={pct 100} latMean={msTrunc (SD.mean snap)} conc={conc}"

partial def runConsOps (n : Nat) (w : Int) (maxHealthy : Int) (st : ConsState) (hist : SpecC20.Hist) (realOpen : Bool)
    (lines : List (String × String)) (acc : Array String) : Array String :=
  match lines with
  | [] => acc
  | (line, real) :: rest =>
    let toks := line.splitOn " "
    let kvs := parseKVs toks.tail
    let realKvs := parseKVs (real.splitOn " ")
    let realEv := (parseEmits ((kvGet realKvs "ev").getD "-")).getD []
    let keep (e : Emit) : Bool := !(st.noFb && (match e with | .fb _ _ _ => true | _ => false))
    let hist' := (realEv.filter keep).foldl SpecC20.Hist.add hist
    let realOpen' := kvBool realKvs "open" realOpen
    let fmtEv (l : List Emit) := s!"ev={fmtList (l.map Emit.fmt) ";"}"
    match toks.head? with
    | some "exec" =>
      match parseExec kvs with
      | none => runConsOps n w maxHealthy st hist realOpen rest (acc.push "bad-op\t-")
      | some op =>
        let (c', obs, res) := execute openerI closerI st.c op.ctx op.run op.fb
        let all' := (obs.emits.filter keep).foldl All.onEmit st.all
        runConsOps n w maxHealthy { st with c := c', all := all' } hist' realOpen' rest
          (acc.push (s!"res={res.fmt} {fmtEv obs.emits} open={fmtBool (isOpenEff c')}" ++ "\t-"))
    | some "open" | some "close" =>
      let (c', obs) := if toks.head? == some "open" then manualOpen openerI closerI st.c else manualClose openerI closerI st.c
      runConsOps n w maxHealthy { st with c := c' } hist' realOpen' rest (acc.push (s!"{fmtEv obs.emits} open={fmtBool (isOpenEff c')}" ++ "\t-"))
    | some "setcfg" =>
      let c' := setConfig st.c (parseCfg kvs st.c.cfg)
      runConsOps n w maxHealthy { st with c := c', partialCfg := kvBool kvs "partial" false } hist realOpen' rest (acc.push (s!"open={fmtBool (isOpenEff c')}" ++ "\t-"))
    | some "var" =>
      -- the circuit's expvar view: state, name and the per-kind totals of the attached RunStats
      let o := fmtBool (isOpenEff st.c)
      let m := s!"open={o} vopen={o} vname=c vtot={fmtInts st.all.run.totals}"
      let ro := fmtBool realOpen'
      let sp := s!"open={ro} vopen={ro} vname=c vtot={fmtInts (SpecC20.kinds.map (SpecC20.total hist))}"
      runConsOps n w maxHealthy st hist realOpen' rest (acc.push (m ++ "\t" ++ sp))
    | some "tick" =>
      let d := (toks.getD 1 "0").toInt?.getD 0
      let c' := { st.c with clock := st.c.clock + d }
      runConsOps n w maxHealthy { st with c := c', mono := st.mono && decide (0 ≤ d) } hist realOpen' rest (acc.push (s!"open={fmtBool (isOpenEff c')}" ++ "\t-"))
    | some "stats" =>
      let now := st.c.clock
      let (r', sums) := st.all.run.sums now
      let (fa, fva) := st.all.fb.successes.sumAt now
      let (fb', fvb) := st.all.fb.rejects.sumAt now
      let (fc, fvc) := st.all.fb.failures.sumAt now
      let fbs : FbStats := { successes := fa, rejects := fb', failures := fc }
      let ep := Cons.errorPercentage (sums.getD 0 0) (sums.getD 2 0) (sums.getD 4 0)
      let m := s!"tot={fmtInts r'.totals} roll={fmtInts sums} fbtot={fmtInts [fbs.successes.total, fbs.rejects.total, fbs.failures.total]} fbroll={fmtInts [fva, fvb, fvc]} errpct={fmtRat ep} cons=1"
      let rs := SpecC20.kinds.map fun k => SpecC20.rollingAny n w hist st.reads k now
      let (ss, sf, stt) := (rs.getD 0 0, rs.getD 2 0, rs.getD 4 0)
      let spEp : Rat := if ss + sf + stt = 0 then 0 else F64.rne (((sf + stt : Int) : Rat) / ((ss + sf + stt : Int) : Rat))
      let sp := s!"tot={fmtInts (SpecC20.kinds.map (SpecC20.total hist))} roll={fmtInts rs} " ++
        s!"fbtot={fmtInts (SpecC20.fbKinds.map (SpecC20.fbTotal hist))} fbroll={fmtInts (SpecC20.fbKinds.map fun k => SpecC20.fbRollingAny n w hist st.reads k now)} errpct={fmtRat spEp} cons=1"
      runConsOps n w maxHealthy { st with all := { st.all with run := r', fb := fbs }, reads := st.reads ++ [now] } hist realOpen rest (acc.push (m ++ "\t" ++ sp))
    | some "slo" =>
      let m := s!"pass={st.all.slo.pass} fail={st.all.slo.fail} cbpass={st.all.slo.pass} cbfail={st.all.slo.fail}"
      let p := SpecC20.sloPass maxHealthy hist; let f := SpecC20.sloFail maxHealthy hist
      runConsOps n w maxHealthy st hist realOpen rest (acc.push (m ++ "\t" ++ s!"pass={p} fail={f} cbpass={p} cbfail={f}"))
    | some "stream" =>
      if st.partialCfg then runConsOps n w maxHealthy st hist realOpen rest (acc.push "stream-ok\t-") else
      -- the record reads the (frozen) clock once and every counter at that time
      let now := st.c.clock
      let (r', sums) := st.all.run.sums now
      let (fa, fva) := st.all.fb.successes.sumAt now
      let (fb', fvb) := st.all.fb.rejects.sumAt now
      let (fc, fvc) := st.all.fb.failures.sumAt now
      let fbs : FbStats := { successes := fa, rejects := fb', failures := fc }
      let (lat', snap) := r'.latencies.snapshot now
      let _ := (fva, fvb, fvc)
      let m := streamFieldsOf "c" (st.all.streamCounts now (isOpenEff st.c)) sums snap st.c.conc
      -- spec: the same record computed from the history-derived numbers (latencies: no opinion, they are C15's)
      let hs := SpecC20.kinds.map fun k => SpecC20.rollingAny n w hist st.reads k now
      let ht := SpecC20.kinds.map (SpecC20.total hist)
      let hfs := SpecC20.fbKinds.map fun k => SpecC20.fbRollingAny n w hist st.reads k now
      let hft := SpecC20.fbKinds.map (SpecC20.fbTotal hist)
      let sp := streamFields "c" realOpen hs ht hfs hft snap st.c.conc
      runConsOps n w maxHealthy { st with all := { st.all with run := { r' with latencies := lat' }, fb := fbs }, reads := st.reads ++ [now] } hist realOpen rest (acc.push (m ++ "\t" ++ sp))
    | _ => runConsOps n w maxHealthy st hist realOpen rest (acc.push "bad-op\t-")

/-- suite `consumers`: header n= dur= pn= pdur= psize= slo= + circuit settings -/
def suiteConsumers (kvs : List (String × String)) (lines : List (String × String)) : List String :=
  -- a window left unset (0) is the documented default: 10 buckets over 10 s; 6 buckets of 100 samples over 60 s
  let n := if kvNat kvs "n" 10 == 0 then 10 else kvNat kvs "n" 10
  let dur := if kvInt kvs "dur" 10000000000 == 0 then 10000000000 else kvInt kvs "dur" 10000000000
  let pn := if kvNat kvs "pn" 6 == 0 then 6 else kvNat kvs "pn" 6
  let pdur := if kvInt kvs "pdur" 60000000000 == 0 then 60000000000 else kvInt kvs "pdur" 60000000000
  let psize := if kvNat kvs "psize" 100 == 0 then 100 else kvNat kvs "psize" 100
  let sloV := if kvInt kvs "slo" 250000000 == 0 then 250000000 else kvInt kvs "slo" 250000000   -- unset on every layer: 250 ms
  let all : All := { run := RunStats.new n dur pn pdur psize,
                     fb := FbStats.new n dur, slo := { maxHealthy := sloV } }
  let c : Circ OState CState := { cfg := parseCfg kvs {}, opener := .never, closer := .never }
  (runConsOps n (tdiv dur n) sloV { c := c, all := all, noFb := kvGet kvs "coll" == some "run" } {} false lines #[]).toList

end CM

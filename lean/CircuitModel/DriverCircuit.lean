/-
  DriverCircuit.lean — suite `circuit`: parses ops, runs the model (Circuit.lean + Logic.lean), prints the model's
  observable outcome, parses the REAL outcome line and prints the per-property verdicts of Spec/Circuit.lean on it.
-/
import CircuitModel.Logic
import CircuitModel.Spec.Circuit
import CircuitModel.CircuitOps
import CircuitModel.Spec.C03
import CircuitModel.CircuitMid
namespace CM
open SpecCircuit

/-! ### formatting -/
def CtxErr.fmt : CtxErr → String | .canceled => "canceled" | .deadline => "deadline"
def fmtOptCtxErr : Option CtxErr → String | none => "nil" | some e => e.fmt
def ErrV.fmt : ErrV → String
  | .plain id _ => s!"e{id}"
  | .ctx e => "ctx:" ++ e.fmt
  | .circuitOpen => "open"
  | .concLimit => "conc"
def fmtOptErr : Option ErrV → String | none => "nil" | some e => e.fmt
def Res.fmt : Res → String
  | .ret e => fmtOptErr e
  | .panic v => s!"panic:{v}"
  | .nilFunc => "panic:nilfunc"
def Kind.fmt : Kind → String
  | .success => "success" | .failure => "failure" | .timeout => "timeout" | .badRequest => "badrequest"
  | .interrupt => "interrupt" | .reject => "reject" | .shortCircuit => "shortcircuit"
def FbKind.fmt : FbKind → String | .success => "success" | .failure => "failure" | .reject => "reject"
def Emit.fmt : Emit → String
  | .run k t d => s!"run:{k.fmt}@{t}+{d}"
  | .fb k t d => s!"fb:{k.fmt}@{t}+{d}"
  | .opened t => s!"opened@{t}"
  | .closed t => s!"closed@{t}"
def fmtList (l : List String) (sep : String) : String := if l.isEmpty then "-" else sep.intercalate l
def Seen.fmt (s : Seen) : String :=
  s!"{match s.deadline with | none => "none" | some d => toString d},{fmtBool s.hasVal},{fmtOptCtxErr s.err},{fmtBool s.sameAsCaller}"

def fmtExecObs (o : ExecObs) : String :=
  s!"res={o.res.fmt} run={o.runCalls} fb={o.fbCalls} seen={match o.seen with | none => "-" | some s => s.fmt} " ++
  s!"after={if o.seen.isSome then fmtOptCtxErr o.seenErrAfter else "-"} fbarg={match o.fbArg with | none => "-" | some e => e.fmt} fbsame={fmtBool o.fbSame} " ++
  s!"ev={fmtList (o.emits.map Emit.fmt) ";"} rd={fmtList (o.readings.map toString) ","} " ++
  s!"rel={match o.released with | none => "-" | some b => fmtBool b} open={fmtBool o.openAfter} conc={o.conc},{o.concFb} fan={fmtBool o.fanOk}"

/-! ### parsing -/
def parseCtxErr : String → Option (Option CtxErr)
  | "nil" => some none | "canceled" => some (some .canceled) | "deadline" => some (some .deadline) | _ => none

def stripPrefix? (s p : String) : Option String := if s.startsWith p then some (s.drop p.length).toString else none

/-- error shapes made by the harness; the Bool is the verdict `IsBadRequest` gives (errors.As: first implementor in
    the chain answers) -/
def parseErrShape (s : String) : Option ErrV :=
  let shapes : List (String × Bool) :=
    [("nwbad", false), ("wbad", true), ("nbad", false), ("jbad", true), ("bad", true), ("e", false)]
  shapes.findSome? fun (p, b) => (stripPrefix? s p).bind fun r => r.toNat?.map fun id => ErrV.plain id b

def parseAction (s : String) : Option (Option Action) :=   -- outer none: parse error; inner none: no function
  if s == "none" then some none
  else if s == "nil" then some (some (.ret none))
  else if s == "ctxerr" then some (some .retCtxErr)
  else match stripPrefix? s "panic" with
    | some r => r.toNat?.map fun v => some (.panic v)
    | none => (parseErrShape s).map fun e => some (.ret (some e))

def parseCallerCtx (s : String) : Option CallerCtx :=
  if s == "bg" then some {}
  else if s == "cancelled" then some { err := some .canceled }
  else if s == "val" then some { hasVal := true }
  else match stripPrefix? s "expired" with
    | some r => r.toInt?.map fun d => { deadline := some d, err := some .deadline }
    | none => match stripPrefix? s "valdl" with
      | some r => r.toInt?.map fun d => { deadline := some d, hasVal := true }
      | none => (stripPrefix? s "dl").bind fun r => r.toInt?.map fun d => { deadline := some d }

def parseIEI : String → IEI
  | "always" => .always | "never" => .never | "canceled" => .onlyCanceled | _ => .unset

def parseCfg (kvs : List (String × String)) (base : LiveCfg) : LiveCfg :=
  { forceOpen := kvBool kvs "fo" base.forceOpen, forcedClosed := kvBool kvs "fc" base.forcedClosed,
    disabled := kvBool kvs "dis" base.disabled, timeout := kvInt kvs "to" base.timeout, maxConc := kvInt kvs "mc" base.maxConc,
    ignoreInterrupts := kvBool kvs "ii" base.ignoreInterrupts, fbDisabled := kvBool kvs "fbd" base.fbDisabled,
    fbMaxConc := kvInt kvs "fbmc" base.fbMaxConc,
    iei := match kvGet kvs "iei" with | some v => parseIEI v | none => base.iei }

def parseAns (s : String) : Ans :=
  let b (i : Nat) : Bool := (s.toList.getD i '0') == '1'
  { shouldOpen := b 0, prevent := b 1, allow := b 2, shouldClose := b 3 }

def parseExec (kvs : List (String × String)) : Option ExecOp := do
  let ctx ← parseCallerCtx ((kvGet kvs "ctx").getD "bg")
  let ra ← parseAction ((kvGet kvs "run").getD "none")
  let fa ← parseAction ((kvGet kvs "fb").getD "none")
  let run := ra.map fun a => ({ adv := kvInt kvs "radv" 0, cancelCaller := kvBool kvs "rcancel" false, act := a } : Script)
  let fb := fa.map fun a => ({ adv := kvInt kvs "fadv" 0, cancelCaller := kvBool kvs "fcancel" false, act := a } : Script)
  pure { ctx := ctx, run := run, fb := fb }

def parseEmit (s : String) : Option Emit :=
  let timeDur (r : String) : Option (Int × Int) :=
    match r.splitOn "+" with
    | [t, d] => do pure (← t.toInt?, ← d.toInt?)
    | [t] => do pure (← t.toInt?, 0)
    | _ => none
  match s.splitOn "@" with
  | ["opened", t] => t.toInt?.map .opened
  | ["closed", t] => t.toInt?.map .closed
  | [k, r] =>
    let kinds : List (String × Kind) := [("run:success", .success), ("run:failure", .failure), ("run:timeout", .timeout),
      ("run:badrequest", .badRequest), ("run:interrupt", .interrupt), ("run:reject", .reject), ("run:shortcircuit", .shortCircuit)]
    let fkinds : List (String × FbKind) := [("fb:success", .success), ("fb:failure", .failure), ("fb:reject", .reject)]
    match kinds.find? (·.1 == k), fkinds.find? (·.1 == k) with
    | some (_, kk), _ => (timeDur r).map fun (t, d) => .run kk t d
    | _, some (_, fk) => (timeDur r).map fun (t, d) => .fb fk t d
    | _, _ => none
  | _ => none

def parseEmits (s : String) : Option (List Emit) := if s == "-" then some [] else (s.splitOn ";").mapM parseEmit
def parseInts (s : String) : Option (List Int) := if s == "-" then some [] else (s.splitOn ",").mapM String.toInt?

/-- identify an observed error with the objects the op created -/
def resolveErr (op : ExecOp) (s : String) : Option ErrV :=
  match s with
  | "open" => some .circuitOpen
  | "conc" => some .concLimit
  | "ctx:canceled" => some (.ctx .canceled)
  | "ctx:deadline" => some (.ctx .deadline)
  | _ =>
    (stripPrefix? s "e").bind fun r => r.toNat?.map fun id =>
      let fromAct : Option Script → Option ErrV := fun
        | some { act := .ret (some (.plain i b)), .. } => if i = id then some (.plain i b) else none
        | _ => none
      ((fromAct op.run).orElse fun _ => fromAct op.fb).getD (.plain id false)

def parseRes (op : ExecOp) (s : String) : Option Res :=
  if s == "nil" then some (.ret none)
  else if s == "panic:nilfunc" then some .nilFunc
  else match stripPrefix? s "panic:" with
    | some r => r.toNat?.map .panic
    | none => (resolveErr op s).map fun e => .ret (some e)

def parseSeen (s : String) : Option (Option Seen) :=
  if s == "-" then some none else
  match s.splitOn "," with
  | [d, v, e, sm] => do
    let dl ← if d == "none" then some none else d.toInt?.map some
    let err ← parseCtxErr e
    pure (some { deadline := dl, hasVal := v == "1", err := err, sameAsCaller := sm == "1" })
  | _ => none

def parseObs (op : ExecOp) (line : String) : Option ExecObs := do
  let kvs := parseKVs (line.splitOn " ")
  let res ← parseRes op (← kvGet kvs "res")
  let seen ← parseSeen (← kvGet kvs "seen")
  let after ← (match kvGet kvs "after" with | some "-" => some none | some v => parseCtxErr v | none => none)
  let fbArg ← (match kvGet kvs "fbarg" with | some "-" => some none | some v => (resolveErr op v).map some | none => none)
  let emits ← parseEmits (← kvGet kvs "ev")
  let rd ← parseInts (← kvGet kvs "rd")
  let conc ← (match ((kvGet kvs "conc").getD "").splitOn "," with | [a, b] => do pure (← a.toInt?, ← b.toInt?) | _ => none)
  pure { res := res, runCalls := kvNat kvs "run" 0, fbCalls := kvNat kvs "fb" 0, seen := seen, seenErrAfter := after,
         fbArg := fbArg, fbSame := kvBool kvs "fbsame" true, emits := emits, readings := rd,
         released := (match kvGet kvs "rel" with | some "1" => some true | some "0" => some false | _ => none),
         openAfter := kvBool kvs "open" false, conc := conc.1, concFb := conc.2, fanOk := kvBool kvs "fan" true }

/-! ### running the model -/
instance : Inhabited (Circ OState CState) := ⟨{ opener := .never, closer := .never }⟩

def setAns (c : Circ OState CState) (a : Ans) : Circ OState CState :=
  { c with
    opener := (match c.opener with | .scripted o => .scripted { o with shouldOpen := a.shouldOpen, prevent := a.prevent } | o => o),
    closer := (match c.closer with | .scripted k => .scripted { k with allow := a.allow, shouldClose := a.shouldClose } | k => k) }

def initCirc (kvs : List (String × String)) : Circ OState CState :=
  let opener : OState := match kvGet kvs "opener" with
    | some "hystrix" => .hystrix (HOpener.new (kvNat kvs "o_n" 10) (kvInt kvs "o_dur" 10000000000) (kvInt kvs "o_pct" 50) (kvInt kvs "o_vol" 20))
    | some "consec" => .consec { threshold := kvInt kvs "thr" 10 }
    | some "scripted" => .scripted {}
    | _ => .never
  let closer : CState := match kvGet kvs "closer" with
    | some "hystrix" => .hystrix { tc := { sleep := kvInt kvs "c_sleep" 5000000000, allow := kvInt kvs "c_half" 1 }, required := kvInt kvs "c_req" 1 }
    | some "scripted" => .scripted {}
    | _ => .never
  -- a nil circuit and a zero-value circuit take the same pass-through branch of Execute as a Disabled one
  -- dflt=1: timeout and both limits were left unset at construction: the documented defaults (1 s, 10, 10) run
  let cfg := parseCfg kvs (if kvBool kvs "dflt" false then { timeout := 1000000000 } else {})
  { cfg := if (kvGet kvs "pt").isSome then { cfg with disabled := true } else cfg, opener := opener, closer := closer }

def closerKind (kvs : List (String × String)) : CloserKind :=
  match kvGet kvs "closer" with | some "hystrix" => .hystrix | some "scripted" => .scripted | _ => .never

/-- bookkeeping the verdicts need about the REAL run so far -/
structure RealBook where
  c03 : SpecC03.Book := { sleep := 0, half := 0, req := 0 }
  cc : Int := 0                     -- consecutive-errors opener: failures / timeouts since the last success, transition or rebuild (from REAL events)
  thr : Int := 0                    -- its ErrorThreshold in force
  ep : SpecC16.Epoch := {}          -- the C16 monitor on the hystrix closer's gate, fed from what the REAL circuit did
  openBefore : Bool := false
  lastNotif : Option Bool := none
  conc : Int := 0
  concFb : Int := 0

def joinVerdicts (l : List (String × Option String)) : String :=
  let bad := l.filterMap fun (p, v) => v.map fun m => p ++ ":" ++ m
  if bad.isEmpty then "-" else "!" ++ "|".intercalate bad

/-- the gate bookkeeping after the notifications of one operation: Opened and Closed both restart the sleep -/
def epAfterEmits (e : SpecC16.Epoch) (emits : List Emit) : SpecC16.Epoch :=
  emits.foldl (fun e em => match em with | .opened t => e.next (.start t) .ok | .closed t => e.next (.start t) .ok | _ => e) e

/-- was the hystrix closer's gate consulted by this call, and what did it answer?  It is consulted by a call with a
    run function on a circuit that reads open, not forced open, not disabled; it refused iff the call was short-circuited -/
def gateObservation (ck : CloserKind) (cfg : LiveCfg) (openBefore : Bool) (op : ExecOp) (ro : ExecObs) : Option (Int × Bool) :=
  if ck == CloserKind.hystrix && openBefore && !cfg.forceOpen && !cfg.disabled && op.run.isSome then
    ro.readings.head?.map fun start => (start, !((runEvents ro.emits).any fun e => e.1 == Kind.shortCircuit))
  else none

/-- the callbacks of one executed call with the run event's KIND replaced by what the property says it must be (computed
    from what the function really returned, how long it ran and the caller's context — `expectedExecutedKind`): the
    books that count successes / failures in a row (C03's closing condition, C02's consecutive-errors verdict) must not
    take the library's own classification on trust -/
def truthEmits (cfg : LiveCfg) (op : ExecOp) (o : ExecObs) : List Emit :=
  match op.run with
  | some sc =>
    if o.runCalls = 1 ∧ (runPanics op).isNone ∧ (runEvents o.emits).length = 1 then
      o.emits.map fun e => match e with
        | .run _ t d => .run (expectedExecutedKind cfg op sc) t d
        | e => e
    else o.emits
  | none => o.emits

/-- the consecutive-errors opener at circuit level, judged on what the REAL circuit reported: after this call's run
    event the streak is `cc'`; a closed, not-overridden circuit must have opened iff the event was a failure / timeout
    and the streak reached the threshold -/
def consecAfter (cc : Int) (emits : List Emit) : Int :=
  let cc1 := (runEvents emits).foldl (fun c e => if e.1 == Kind.failure || e.1 == Kind.timeout then c + 1 else if e.1 == Kind.success then 0 else c) cc
  if (notifs emits).isEmpty then cc1 else 0
def consecVerdict (isConsec : Bool) (cfg : LiveCfg) (openBefore : Bool) (cc thr : Int) (ro : ExecObs) : Option String :=
  if !isConsec || openBefore || cfg.forceOpen || cfg.forcedClosed || cfg.disabled then none else
  match runEvents ro.emits with
  | [e] =>
    if e.1 == Kind.failure || e.1 == Kind.timeout then
      let want := decide (cc + 1 ≥ thr)
      if (notifs ro.emits).contains true != want then
        some s!"consecutive-errors opener: {cc + 1} failures in a row since the last success / transition / rebuild, threshold {thr}: the circuit {if want then "must open" else "must stay closed"}"
      else none
    else if (notifs ro.emits).contains true then some "consecutive-errors opener: opened on a call that is neither a failure nor a timeout" else none
  | _ => none

/-- C04 for a single caller: a limit of 0 refuses, the function refused is not invoked, the gauges read zero once the
    call has returned.  `cfgRun` = settings in force when the run step was admitted, `cfgFb` = when the fallback was -/
def verdictC04 (cfgRun cfgFb : LiveCfg) (ro : ExecObs) : Option String :=
  if cfgRun.disabled then none
  else if ro.conc != 0 ∨ ro.concFb != 0 then some "a gauge does not read zero after the call returned"
  else if cfgRun.maxConc == 0 ∧ ro.runCalls ≠ 0 then some "run function invoked although Execution.MaxConcurrentRequests = 0"
  else if cfgFb.fbMaxConc == 0 ∧ ro.fbCalls ≠ 0 then some "fallback invoked although Fallback.MaxConcurrentRequests = 0 was in force"
  -- "records exactly one rejection event": a refusal is never reported twice (every sink's log equals the first one's — fanOk)
  else if ((runEvents ro.emits).filter fun e => e.1 == Kind.reject).length > 1 then some "more than one run rejection event for one call"
  else if ((fbEvents ro.emits).filter fun e => e.1 == FbKind.reject).length > 1 then some "more than one fallback rejection event for one call"
  -- a caller answered ConcurrencyLimitReached whose function was not invoked: exactly one rejection event of that side
  else if ro.res == Res.ret (some ErrV.concLimit) ∧ ro.runCalls = 0 ∧ ro.fbCalls = 0 ∧ ro.fanOk ∧
      ((runEvents ro.emits).filter fun e => e.1 == Kind.reject).length + ((fbEvents ro.emits).filter fun e => e.1 == FbKind.reject).length = 0 then
    some "a call refused for the concurrency limit recorded no rejection event"
  -- … and on EVERY configured collector: the recorders' logs differ on a call that recorded a rejection
  else if !ro.fanOk ∧ ((runEvents ro.emits).filter fun e => e.1 == Kind.reject).length + ((fbEvents ro.emits).filter fun e => e.1 == FbKind.reject).length > 0 then
    some "a rejection was not recorded exactly once on every configured collector"
  else none

def gateVerdict (e : SpecC16.Epoch) (g : Option (Int × Bool)) : Option String :=
  g.bind fun (t, b) => (e.verdict (.check t) (.bool b)).map fun m => "half-open gate: " ++ m

def epAfterExec (e : SpecC16.Epoch) (g : Option (Int × Bool)) (emits : List Emit) : SpecC16.Epoch :=
  epAfterEmits (match g with | some (t, b) => e.next (.check t) (.bool b) | none => e) emits

partial def runCircuitOps (fresh : OState × CState × SpecC03.Book) (ck : CloserKind) (c : Circ OState CState) (cfgSpec : LiveCfg) (rb : RealBook)
    (lines : List (String × String)) (acc : Array String) : Array String :=
  match lines with
  | [] => acc
  | (line, real) :: rest =>
    let toks := line.splitOn " "
    let kvs := parseKVs toks.tail
    let realKvs := parseKVs (real.splitOn " ")
    let realOpen := kvBool realKvs "open" rb.openBefore
    match toks.head? with
    | some "exec" =>
      match parseExec kvs with
      | none => runCircuitOps fresh ck c cfgSpec rb rest (acc.push "bad-op\t-")
      | some op =>
        -- scripted answers exist only where the logic is scripted
        let oScr := match c.opener with | .scripted _ => true | _ => false
        let isConsec := match c.opener with | .consec _ => true | _ => false
        let cScr := match c.closer with | .scripted _ => true | _ => false
        let a0 := parseAns ((kvGet kvs "ans").getD "0000")
        let ans : Ans := { shouldOpen := a0.shouldOpen && oScr, prevent := a0.prevent && oScr,
                           allow := a0.allow && cScr, shouldClose := a0.shouldClose && cScr }
        let c := setAns c ans
        let adm := admission cfgSpec ck rb.openBefore ans
        let pv := ans.prevent
        -- `mid=<key>:<value>`: the run function itself reconfigures the circuit while it runs (CircuitMid.lean)
        let midKVs : List (String × String) := match kvGet kvs "mid" with
          | some v => (v.splitOn ",").filterMap fun kv => match kv.splitOn ":" with | [k, x] => some (k, x) | _ => none
          | none => []
        let midKV : Option (String × String) := midKVs.head?
        let mid : Option LiveCfg := if midKVs.isEmpty then none else some (parseCfg midKVs c.cfg)
        let (c', obs, res) := executeMid openerI closerI c op.ctx op.run op.fb mid
        let mo := mkObs c' obs res op
        let midOnlyTimeout := midKVs.all fun kv => kv.1 == "to"
        let _ := midKV
        let (spec, rb') := match parseObs op real with
          | none =>
            -- C11: "without ... panic": a panic that is not the one the scripted run function / fallback raised
            -- comes from the library itself
            ((if (real.splitOn " ").contains "res=panic:other" then "!C11:the library itself panicked during a call (neither the run function nor the fallback raised it)" else "-"), rb)
          | some ro =>
            -- a setting other than the timeout changed under the call: only the verdicts that are about what is
            -- read AFTER the function returned are evaluated, under the new settings
            if !midOnlyTimeout then
              let cfgNew := if ro.runCalls != 0 then (mid.getD cfgSpec) else cfgSpec
              -- C06 with a reconfiguration landing inside the run function: the kill switch was read when Execute started, the
              -- fallback's settings are the ones in force when the run step has returned
              (joinVerdicts [("C04", verdictC04 cfgSpec cfgNew ro), ("C06", verdictC06 { cfgNew with disabled := cfgSpec.disabled } op ro), ("C09", verdictC09 cfgNew rb.lastNotif ro.emits ro.openAfter ro.fanOk),
                ("C12", (verdictC12 ro.emits ro.readings).orElse fun _ => verdictC12o ro.emits ro.readings),
                ("C03", (gateVerdict rb.ep (gateObservation ck cfgSpec rb.openBefore op ro)).orElse fun _ => if ck == CloserKind.hystrix then SpecC03.verdictExec rb.c03 cfgNew rb.openBefore ro else none)],
               { c03 := rb.c03.afterExec rb.openBefore ro, cc := consecAfter rb.cc ro.emits, thr := rb.thr, ep := epAfterExec rb.ep (gateObservation ck cfgSpec rb.openBefore op ro) ro.emits, openBefore := ro.openAfter, lastNotif := ((notifs ro.emits).getLast?).orElse fun _ => rb.lastNotif, conc := ro.conc, concFb := ro.concFb })
            else
            (joinVerdicts [("C04", verdictC04 cfgSpec cfgSpec ro), ("C01", verdictC01 cfgSpec adm pv op ro), ("C05", verdictC05 cfgSpec adm pv op ro),
              ("C06", verdictC06 cfgSpec op ro), ("C02", (verdictC02 cfgSpec op ro).orElse fun _ => consecVerdict isConsec cfgSpec rb.openBefore rb.cc rb.thr ro), ("C07", verdictC07 cfgSpec op ro), ("C08", verdictC08 cfgSpec rb.openBefore pv op ro),
              ("C09", verdictC09 cfgSpec rb.lastNotif ro.emits ro.openAfter ro.fanOk),
              ("C10", verdictC10 cfgSpec rb.openBefore rb.conc rb.concFb op ro), ("C12", (verdictC12 ro.emits ro.readings).orElse fun _ => verdictC12o ro.emits ro.readings),
              ("C03", (gateVerdict rb.ep (gateObservation ck cfgSpec rb.openBefore op ro)).orElse fun _ => if ck == CloserKind.hystrix then SpecC03.verdictExec rb.c03 cfgSpec rb.openBefore { ro with emits := truthEmits cfgSpec op ro } else none)],
             { c03 := rb.c03.afterExec rb.openBefore { ro with emits := truthEmits cfgSpec op ro }, cc := consecAfter rb.cc (truthEmits cfgSpec op ro), thr := rb.thr, ep := epAfterExec rb.ep (gateObservation ck cfgSpec rb.openBefore op ro) ro.emits, openBefore := ro.openAfter, lastNotif := ((notifs ro.emits).getLast?).orElse fun _ => rb.lastNotif, conc := ro.conc, concFb := ro.concFb })
        -- the settings the specification tracks follow the REAL call: they change iff its run function was invoked
        let realRan : Bool := match parseObs op real with | some ro => ro.runCalls != 0 | none => mo.runCalls != 0
        let cfgSpec' := match mid with | some m => if realRan then { m with iei := cfgSpec.iei } else cfgSpec | none => cfgSpec
        runCircuitOps fresh ck c' cfgSpec' rb' rest (acc.push (fmtExecObs mo ++ "\t" ++ spec))
    | some "open" | some "close" =>
      let isOpenOp := toks.head? == some "open"
      let (c', obs) := if isOpenOp then manualOpen openerI closerI c else manualClose openerI closerI c
      let m := s!"ev={fmtList (obs.emits.map Emit.fmt) ";"} rd={fmtList (obs.readings.map toString) ","} open={fmtBool (isOpenEff c')} fan=1"
      let (spec, rb') := match parseEmits ((kvGet realKvs "ev").getD "?"), parseInts ((kvGet realKvs "rd").getD "?") with
        | some ev, some rd =>
          let fan := kvBool realKvs "fan" true
          -- a call that changes nothing notifies nobody
          let noop : Option String :=
            if isOpenOp then (if (rb.openBefore ∨ cfgSpec.forcedClosed) ∧ !(notifs ev).isEmpty then some "OpenCircuit on an open / forced-closed circuit notified" else none)
            else (if (!rb.openBefore ∨ cfgSpec.forceOpen) ∧ !(notifs ev).isEmpty then some "CloseCircuit on a closed / forced-open circuit notified" else none)
          let effect : Option String :=
            if cfgSpec.forceOpen ∨ cfgSpec.forcedClosed ∨ cfgSpec.disabled then none
            else if isOpenOp ∧ !realOpen then some "OpenCircuit did not open the circuit"
            else if !isOpenOp ∧ realOpen then some "CloseCircuit did not close the circuit" else none
          let c08 : Option String := if cfgSpec.forcedClosed ∧ (notifs ev).contains true then some "ForcedClosed circuit was opened by OpenCircuit" else none
          (joinVerdicts [("C09", (verdictC09 cfgSpec rb.lastNotif ev realOpen fan).orElse fun _ => noop.orElse fun _ => effect),
                         ("C03", if !isOpenOp then effect else none), ("C08", c08), ("C12", verdictC12 ev rd)],
           { rb with c03 := ev.foldl SpecC03.Book.onEmit rb.c03, cc := (if (notifs ev).isEmpty then rb.cc else 0), ep := epAfterEmits rb.ep ev, openBefore := realOpen, lastNotif := ((notifs ev).getLast?).orElse fun _ => rb.lastNotif })
        | _, _ => ("-", { rb with openBefore := realOpen })
      runCircuitOps fresh ck c' cfgSpec rb' rest (acc.push (m ++ "\t" ++ spec))
    | some "setcfg" =>
      let cfg := parseCfg kvs c.cfg
      let c' := setConfig c cfg
      -- C08/C09: with no override in force IsOpen is the underlying state = last notification
      let spec :=
        let under := rb.lastNotif.getD false
        let want := if cfg.forceOpen then true else if cfg.forcedClosed then false else under
        if (kvGet (parseKVs (real.splitOn " ")) "told") == some "0" then
          "!C08:logic that implements circuit.Configurable was not told the new configuration|C01:custom open/close logic that decides on the configuration was not told it|C11:a live reconfiguration did not reach Configurable logic" else
        if cfg.disabled then "-" else
        if realOpen != want then "!C08:IsOpen after an override change is not ForceOpen / ForcedClosed / the underlying state|C09:IsOpen disagrees with the last notification" else "-"
      runCircuitOps fresh ck c' cfg { rb with openBefore := realOpen } rest (acc.push (s!"open={fmtBool (isOpenEff c')} told=1" ++ "\t" ++ spec))
    | some "rebuild" =>
      -- SetConfigNotThreadSafe with ANOTHER TimeKeeper (clock B = clock A + 1000 s): the factories are asked again, so
      -- the opener and the closer start afresh; the open/closed flag and the gauges stay
      let c' := { c with clock := c.clock + 1000000000000, opener := fresh.1, closer := fresh.2.1 }
      runCircuitOps fresh ck c' cfgSpec { rb with c03 := fresh.2.2, cc := 0, thr := (match fresh.1 with | .consec o => o.threshold | _ => 0), ep := { sleep := fresh.2.2.sleep, allow := fresh.2.2.half }, openBefore := realOpen } rest (acc.push (s!"open={fmtBool (isOpenEff c')}" ++ "\t-"))
    | some "view" =>
      -- the expvar / JSON view of the circuit, its opener and its closer: reads.  The hystrix opener's view computes its
      -- error percentage at its own clock's reading (here: what the circuit's clock shows), and a READ of a rolling
      -- counter rolls its window forward to the instant presented (C13) — later events stamped before that window are
      -- dropped, exactly as after a `ShouldOpen` at that instant
      let c' := { c with opener := match c.opener with | .hystrix o => .hystrix (o.view c.clock) | o => o }
      runCircuitOps fresh ck c' cfgSpec { rb with openBefore := realOpen } rest (acc.push (s!"open={fmtBool (isOpenEff c')}" ++ "\t-"))
    | some "sib" =>
      -- traffic on a sibling circuit built from the same config value: nothing changes here
      runCircuitOps fresh ck c cfgSpec { rb with openBefore := realOpen } rest (acc.push (s!"open={fmtBool (isOpenEff c)}" ++ "\t-"))
    | some "tick" =>
      let c' := { c with clock := c.clock + (toks.getD 1 "0").toInt?.getD 0 }
      runCircuitOps fresh ck c' cfgSpec { rb with openBefore := realOpen } rest (acc.push (s!"open={fmtBool (isOpenEff c')}" ++ "\t-"))
    | some "fire" =>
      let k := (toks.getD 1 "0").toNat?.getD 0
      let c' := { c with closer := match c.closer with | .hystrix h => .hystrix { h with tc := h.tc.fire k } | o => o }
      runCircuitOps fresh ck c' cfgSpec { rb with ep := rb.ep.next (.fire k) .ok, openBefore := realOpen } rest (acc.push (s!"open={fmtBool (isOpenEff c')}" ++ "\t-"))
    | some "closercfg" =>
      let c' := { c with closer := match c.closer with
        | .hystrix h => .hystrix { h with tc := { h.tc with sleep := kvInt kvs "sleep" h.tc.sleep, allow := kvInt kvs "half" h.tc.allow }, required := kvInt kvs "req" h.required }
        | o => o }
      let b3 := rb.c03
      let b3 := { b3 with sleep := kvInt kvs "sleep" b3.sleep, half := kvInt kvs "half" b3.half, req := kvInt kvs "req" b3.req, cfgChanged := true }
      let ep' := (rb.ep.next (.setSleep b3.sleep) .ok).next (.setAllow b3.half) .ok
      runCircuitOps fresh ck c' cfgSpec { rb with c03 := b3, ep := ep', openBefore := realOpen } rest (acc.push (s!"open={fmtBool (isOpenEff c')}" ++ "\t-"))
    | some "openercfg" =>
      let c' := { c with opener := match c.opener with
        | .hystrix h => .hystrix { h with pct := kvInt kvs "pct" h.pct, vol := kvInt kvs "vol" h.vol }
        | .consec o => .consec { o with threshold := kvInt kvs "thr" o.threshold }
        | o => o }
      runCircuitOps fresh ck c' cfgSpec { rb with thr := (match c'.opener with | .consec o => o.threshold | _ => rb.thr), openBefore := realOpen } rest (acc.push (s!"open={fmtBool (isOpenEff c')}" ++ "\t-"))
    | _ => runCircuitOps fresh ck c cfgSpec rb rest (acc.push "bad-op\t-")

def suiteCircuit (kvs : List (String × String)) (lines : List (String × String)) : List String :=
  let c := initCirc kvs
  let b3 : SpecC03.Book := { sleep := kvInt kvs "c_sleep" 5000000000, half := kvInt kvs "c_half" 1, req := kvInt kvs "c_req" 1 }
  let outs := (runCircuitOps (c.opener, c.closer, b3) (closerKind kvs) c c.cfg { openBefore := isOpenEff c, c03 := b3, thr := (match c.opener with | .consec o => o.threshold | _ => 0), ep := { sleep := b3.sleep, allow := b3.half } } lines #[]).toList
  -- dflt=1: the harness reports (field `dflt` of the first real line) what a circuit built from an EMPTY configuration
  -- enforces when that is not the documented default of 10 concurrent runs / 10 concurrent fallbacks
  match lines.head?, outs with
  | some (_, real), o :: rest =>
    (match kvGet (parseKVs (real.splitOn " ")) "dflt" with
     | some note =>
       let msg := "C04:a circuit built from an empty configuration enforces " ++ note
       (match o.splitOn "\t" with
        | [m, sp] => (m ++ "\t" ++ (if sp == "-" then "!" ++ msg else sp ++ "|" ++ msg)) :: rest
        | _ => outs)
     | none => outs)
  | _, _ => outs

end CM

/-
  GoCircuitSpec.lean — what each TRANSLATED function of circuit.go (Generated/GoCircuit.lean) has to compute, said
  with the model's own functions (Circuit.lean): the statements of the tie proved in CircuitProofs/GoTie/*.
  A `spec_f` is a computation in the same monad as the generated `go_f`; the leaf / transition / check functions are
  tied by plain equality `go_f = spec_f`, the three big ones (`run`, `fallback`, `Execute`) by pre/post statements
  against `runStep`, `fallbackStep`, `execute` (`RunSpec`, `FallbackSpec`, `ExecSpec`).
-/
import CircuitModel.GoCircuitPrims
namespace CM.GoCircuit
open CM CM.Go

section
variable {σo σc : Type} [L : Logic σo σc]

abbrev G (σo σc : Type) := GS (World σo σc) Tok

/-- apply a model step to the circuit part of the state -/
def onS (g : G σo σc) (f : St σo σc → St σo σc) : G σo σc := { g with st := { g.st with s := f g.st.s } }

def resOf : Out Err → Res
  | .ok e => .ret e
  | .panic v => .panic v
  | .nilCall => .nilFunc

/-! ### leaves -/
def spec_now : GM σo σc GoTime := fun g => (.ok (.at g.st.s.1.clock), onS g fun s => (CM.now s).2)
def spec_IsOpen : GM σo σc Bool := fun g => (.ok (isOpenEff g.st.s.1), g)
def spec_isEmptyOrNil : GM σo σc Bool := fun g => (.ok false, g)
def spec_ConcurrentCommands : GM σo σc Int := fun g => (.ok g.st.s.1.conc, g)
def spec_ConcurrentFallbacks : GM σo σc Int := fun g => (.ok g.st.s.1.concFb, g)
def spec_throttleConcurrentCommands (n : Int) : GM σo σc Err := fun g =>
  (.ok (if g.st.s.1.cfg.maxConc ≥ 0 ∧ n > g.st.s.1.cfg.maxConc then some .concLimit else none), g)

/-! ### transitions -/
def spec_openCircuit (_ctx : GoCtx) (t : GoTime) : GM σo σc Unit := fun g => (.ok (), onS g fun s => openCircuit L.O L.C s t.val)
def spec_close (_ctx : GoCtx) (t : GoTime) (force : Bool) : GM σo σc Unit := fun g => (.ok (), onS g fun s => closeCircuit L.O L.C s t.val force)
def spec_attemptToOpen (_ctx : GoCtx) (t : GoTime) : GM σo σc Unit := fun g => (.ok (), onS g fun s => attemptToOpen L.O L.C s t.val)
def spec_allowNewRun (_ctx : GoCtx) (t : GoTime) : GM σo σc Bool := fun g =>
  let r := allowNewRun L.C g.st.s t.val
  (.ok r.2, onS g fun _ => r.1)
def spec_OpenCircuit (_ctx : GoCtx) : GM σo σc Unit := fun g =>
  let r := CM.now g.st.s
  (.ok (), onS g fun _ => openCircuit L.O L.C r.2 r.1)
def spec_CloseCircuit (_ctx : GoCtx) : GM σo σc Unit := fun g =>
  let r := CM.now g.st.s
  (.ok (), onS g fun _ => closeCircuit L.O L.C r.2 r.1 true)

/-! ### the five checks of the classification chain (in the order `run` asks them) -/
def spec_checkErrBadRequest (_ctx : GoCtx) (ret : Err) (t : GoTime) (d : Dur) : GM σo σc Bool := fun g =>
  if (match ret with | some e => e.isBad | none => false) then (.ok true, onS g fun s => emitRun L.O L.C s .badRequest t.val d)
  else (.ok false, g)
def spec_checkErrTimeout (_ctx : GoCtx) (expectedDoneBy t : GoTime) (d : Dur) : GM σo σc Bool := fun g =>
  if expectedDoneBy ≠ .zero ∧ expectedDoneBy.val < t.val then
    (.ok true, onS g fun s =>
      let s := emitRun L.O L.C s .timeout t.val d
      if !isOpenEff s.1 then attemptToOpen L.O L.C s t.val else s)
  else (.ok false, g)
def spec_checkErrInterrupt (_ctx _orig : GoCtx) (ret : Err) (t : GoTime) (d : Dur) : GM σo σc Bool := fun g =>
  if ret.isSome && g.st.callerErr.isSome && !g.st.s.1.cfg.ignoreInterrupts &&
      (match g.st.callerErr with | some e => g.st.s.1.cfg.iei.verdict e | none => false) then
    (.ok true, onS g fun s => emitRun L.O L.C s .interrupt t.val d)
  else (.ok false, g)
def spec_checkErrFailure (_ctx : GoCtx) (ret : Err) (t : GoTime) (d : Dur) : GM σo σc Bool := fun g =>
  if ret.isSome then
    (.ok true, onS g fun s =>
      let s := emitRun L.O L.C s .failure t.val d
      if !isOpenEff s.1 then attemptToOpen L.O L.C s t.val else s)
  else (.ok false, g)
def spec_checkSuccess (_ctx : GoCtx) (t : GoTime) (d : Dur) : GM σo σc Unit := fun g =>
  (.ok (), onS g fun s =>
    let s := emitRun L.O L.C s .success t.val d
    if isOpenEff s.1 then closeCircuit L.O L.C s t.val false else s)

/-! ### run / fallback / Execute against the model's `runStep` / `fallbackStep` / `execute` -/

/-- what the caller's `Err()` reads after `run` returned, in the model's terms -/
def callerErrAfterRun (caller : CallerCtx) (run : Option Script) (obs : Obs) : Option CtxErr :=
  match run with
  | some r => if obs.runSeen.isSome then ctxErrAfter caller r else caller.err
  | none => caller.err

/-- `run(ctx, runFunc)` called with the caller's own context on a fresh call state computes `runStep` -/
def RunSpec (σo σc : Type) [L : Logic σo σc] (go_run : GoCtx → RunFn → GM σo σc Err) : Prop :=
  ∀ (g : G σo σc) (run : RunFn),
    g.st.callerErr = g.st.caller.err → g.st.s.2.released = none → g.st.s.2.runSeen = none →
    let r := go_run .caller run g
    let m := runStep L.O L.C g.st.s g.st.caller run
    r.2.st.s = m.1 ∧ resOf r.1 = m.2 ∧ r.2.defers = g.defers ∧ r.2.st.stuck = g.st.stuck ∧ r.2.st.caller = g.st.caller ∧
    r.2.st.callerErr = callerErrAfterRun g.st.caller run m.1.2

/-- `fallback(ctx, err, fallbackFunc)` with a non-nil error, in a state where the caller's `Err()` is what the run
    function left, computes `fallbackStep` -/
def FallbackSpec (σo σc : Type) [L : Logic σo σc] (go_fallback : GoCtx → Err → FbFn → GM σo σc Err) : Prop :=
  ∀ (g : G σo σc) (e : ErrV) (fb : FbFn) (runSc : Option Script),
    g.st.callerErr = callerErrAfterRun g.st.caller runSc g.st.s.2 →
    let r := go_fallback .caller (some e) fb g
    let m := fallbackStep g.st.s g.st.caller runSc e fb
    r.2.st.s = m.1 ∧ resOf r.1 = m.2 ∧ r.2.defers = g.defers ∧ r.2.st.stuck = g.st.stuck

/-- the call state `Execute` starts from: the circuit as it is, nothing observed yet -/
def callState (c : Circ σo σc) (ctx : CallerCtx) : World σo σc := { s := (c, {}), caller := ctx, callerErr := ctx.err }

/-- `Execute(ctx, runFunc, fallbackFunc)` computes the model's `execute`: same circuit afterwards, same
    observations (events with their timestamps and durations, clock readings, what the functions saw), same
    result, nothing left deferred, nothing without meaning executed -/
def ExecSpec (σo σc : Type) [L : Logic σo σc] (go_Execute : GoCtx → RunFn → FbFn → GM σo σc Err) : Prop :=
  ∀ (c : Circ σo σc) (ctx : CallerCtx) (run fb : Option Script),
    let r := go_Execute .caller run fb { st := callState c ctx, defers := [] }
    (r.2.st.s.1, r.2.st.s.2, resOf r.1) = execute L.O L.C c ctx run fb ∧ r.2.defers = [] ∧ r.2.st.stuck = false

/-- `OpenCircuit` / `CloseCircuit` / `IsOpen` against `manualOpen` / `manualClose` / `isOpenEff` -/
def ManualSpec (σo σc : Type) [L : Logic σo σc] (go_OpenCircuit go_CloseCircuit : GoCtx → GM σo σc Unit) (go_IsOpen : GM σo σc Bool) : Prop :=
  ∀ (c : Circ σo σc) (ctx : CallerCtx),
    let g : G σo σc := { st := callState c ctx, defers := [] }
    ((go_OpenCircuit .caller g).2.st.s = manualOpen L.O L.C c ∧ (go_OpenCircuit .caller g).1 = .ok ()) ∧
    ((go_CloseCircuit .caller g).2.st.s = manualClose L.O L.C c ∧ (go_CloseCircuit .caller g).1 = .ok ()) ∧
    (go_IsOpen g = (.ok (isOpenEff c), g))

end
end CM.GoCircuit

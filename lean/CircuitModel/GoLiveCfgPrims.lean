/-
  GoLiveCfgPrims.lean — `atomicCircuitConfig.reset` (config.go): which field of a `Config` is published into which
  atomic word of the live mirror (`LiveCfg` of Circuit.lean).  `GoConfig` holds the leaf fields of `circuit.Config` that
  the mirror knows; the interrupt classifier is not mirrored (it stays in the stored config).
  Hand-written, trusted; the BODY of `reset` is regenerated (Generated/GoLiveCfg/F_reset.lean).
-/
import CircuitModel.Circuit
import CircuitModel.GoSem
namespace CM.GoLiveCfg
open CM CM.Go

structure GoConfig where
  f_General_ForceOpen : Bool
  f_General_ForcedClosed : Bool
  f_General_Disabled : Bool
  f_Execution_Timeout : Int
  f_Execution_MaxConcurrentRequests : Int
  f_Execution_IgnoreInterrupts : Bool
  f_Fallback_Disabled : Bool
  f_Fallback_MaxConcurrentRequests : Int

def GoConfig.m_Execution_Timeout_Nanoseconds (c : GoConfig) : M σ tok Int := pure c.f_Execution_Timeout

inductive NoTok where
def noTok : NoTok → M σ NoTok Unit := fun t => nomatch t

abbrev LM := M LiveCfg NoTok
def fn (body : LM α) : LM α := goFunc noTok body
def w (f : LiveCfg → LiveCfg) : LM Unit := fun g => (.ok (), { g with st := f g.st })

def recv_CircuitBreaker_ForcedClosed_Set (b : Bool) : LM Unit := w fun l => { l with forcedClosed := b }
def recv_CircuitBreaker_ForceOpen_Set (b : Bool) : LM Unit := w fun l => { l with forceOpen := b }
def recv_CircuitBreaker_Disabled_Set (b : Bool) : LM Unit := w fun l => { l with disabled := b }
def recv_Execution_ExecutionTimeout_Set (n : Int) : LM Unit := w fun l => { l with timeout := n }
def recv_Execution_MaxConcurrentRequests_Set (n : Int) : LM Unit := w fun l => { l with maxConc := n }
def recv_GoSpecific_IgnoreInterrupts_Set (b : Bool) : LM Unit := w fun l => { l with ignoreInterrupts := b }
def recv_Fallback_Disabled_Set (b : Bool) : LM Unit := w fun l => { l with fbDisabled := b }
def recv_Fallback_MaxConcurrentRequests_Set (n : Int) : LM Unit := w fun l => { l with fbMaxConc := n }

/-- statement side: the mirror after `reset(config)` -/
def liveOf (c : GoConfig) (iei : IEI) : LiveCfg :=
  { forceOpen := c.f_General_ForceOpen, forcedClosed := c.f_General_ForcedClosed, disabled := c.f_General_Disabled,
    timeout := c.f_Execution_Timeout, maxConc := c.f_Execution_MaxConcurrentRequests, ignoreInterrupts := c.f_Execution_IgnoreInterrupts,
    fbDisabled := c.f_Fallback_Disabled, fbMaxConc := c.f_Fallback_MaxConcurrentRequests, iei := iei }

end CM.GoLiveCfg

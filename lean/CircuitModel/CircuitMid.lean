/-
  CircuitMid.lean — a reconfiguration that lands WHILE a call is in flight, sequentially: the run function itself
  calls SetConfigThreadSafe(mid) before it returns (this is how a single-threaded history exhibits "the operator
  changed a setting between the call's start and its completion").  `executeMid … none` is `execute` (proved in
  CircuitProofs); with `some cfg` the live settings are replaced at the moment the function runs.  The code reads the
  execution timeout ONCE, before invoking the function (`expectedDoneBy`), so the classification of this call uses the
  timeout in force at its start; everything read after the function returned (IsOpen / ForceOpen / ForcedClosed for the
  transitions, IgnoreInterrupts, the fallback's switch and limit) sees the new settings.
-/
import CircuitModel.Circuit
namespace CM
section
variable {σo σc : Type} (O : OpenerI σo) (C : CloserI σc)

/-- `classify` with the timeout captured at the start of the call -/
def classifyAt (s : St σo σc) (ctx : CallerCtx) (sc : Script) (ret : Option ErrV) (start : Int) (toAtStart : Int) : St σo σc :=
  let (endT, s) := now s
  let total := endT - start
  let (doneT, s) := now s
  if (match ret with | some e => e.isBad | none => false) then emitRun O C s .badRequest doneT total
  else if toAtStart > 0 ∧ start + toAtStart < doneT then
    let s := emitRun O C s .timeout doneT total
    if !isOpenEff s.1 then attemptToOpen O C s doneT else s
  else
    let callerErr := ctxErrAfter ctx sc
    if ret.isSome && callerErr.isSome && !s.1.cfg.ignoreInterrupts &&
        (match callerErr with | some e => s.1.cfg.iei.verdict e | none => false) then
      emitRun O C s .interrupt doneT total
    else if ret.isSome then
      let s := emitRun O C s .failure doneT total
      if !isOpenEff s.1 then attemptToOpen O C s doneT else s
    else
      let s := emitRun O C s .success doneT total
      if isOpenEff s.1 then closeCircuit O C s doneT false else s

/-- `run(ctx, runFunc)` where the function reconfigures the circuit to `mid` while it runs -/
def runStepMid (s : St σo σc) (ctx : CallerCtx) (run : Option Script) (mid : Option LiveCfg) : St σo σc × Res :=
  match run with
  | none => (s, .ret none)
  | some sc =>
    let (start, s) := now s
    let (s, allowed) := allowNewRun C s start
    if !allowed then (emitRun O C s .shortCircuit start 0, .ret (some .circuitOpen))
    else
      let (o, pv) := O.prevent s.1.opener start
      let s : St σo σc := ({ s.1 with opener := o }, s.2)
      if pv then (s, .ret (some .circuitOpen))
      else
        let s : St σo σc := ({ s.1 with conc := s.1.conc + 1 }, s.2)
        if s.1.cfg.maxConc ≥ 0 ∧ s.1.conc > s.1.cfg.maxConc then
          let s := emitRun O C s .reject start 0
          (({ s.1 with conc := s.1.conc - 1 }, s.2), .ret (some .concLimit))
        else
          let seen := derivedSeen s.1.cfg ctx start
          let derived := !seen.sameAsCaller
          let toAtStart := s.1.cfg.timeout
          -- invoke runFunc: the clock moves, the settings are replaced
          let s : St σo σc := ({ s.1 with clock := s.1.clock + sc.adv, cfg := mid.getD s.1.cfg }, { s.2 with runSeen := some seen })
          let after := ctxErrAfter ctx sc
          match sc.act with
          | .panic v =>
            (({ s.1 with conc := s.1.conc - 1 }, { s.2 with released := if derived then some true else none }), .panic v)
          | _ =>
            let ret := actValue sc after
            let s := classifyAt O C s ctx sc ret start toAtStart
            (({ s.1 with conc := s.1.conc - 1 }, { s.2 with released := if derived then some true else none }), .ret ret)

/-- `Execute(ctx, runFunc, fallbackFunc)` where runFunc reconfigures the circuit to `mid` while it runs -/
def executeMid (c : Circ σo σc) (ctx : CallerCtx) (run fb : Option Script) (mid : Option LiveCfg) : Circ σo σc × Obs × Res :=
  let s : St σo σc := (c, {})
  if c.cfg.disabled then
    match run with
    | none => (c, {}, .nilFunc)
    | some sc =>
      let seen : Seen := { deadline := ctx.deadline, hasVal := ctx.hasVal, err := ctx.err, sameAsCaller := true }
      let c := { c with clock := c.clock + sc.adv, cfg := mid.getD c.cfg }
      let obs : Obs := { runSeen := some seen }
      match sc.act with
      | .panic v => (c, obs, .panic v)
      | _ => (c, obs, .ret (actValue sc (ctxErrAfter ctx sc)))
  else
    let (s, r) := runStepMid O C s ctx run mid
    match r with
    | .ret none => (s.1, s.2, .ret none)
    | .ret (some e) =>
      if e.isBad then (s.1, s.2, .ret (some e))
      else
        let (s, r) := fallbackStep s ctx run e fb
        (s.1, s.2, r)
    | other => (s.1, s.2, other)

end
end CM

/-
  ChanLang.lean — a tiny object language for the CONCURRENCY STRUCTURE of a Go function: which channels it makes
  (and with what capacity), which goroutines it starts, who sends / receives / closes what, and under which guard.
  The terms it is applied to are REGENERATED from gowrapper.go on every run (tools/extract/chanfacts →
  Generated/ChanFacts.lean); the expected terms and their link to the small-step model Conc/GoWrap.lean are in
  Spec/C18Prog.lean, the obligations in CircuitProofs/Props/C18Prog.lean.
  Expressions are kept as (whitespace-normalised) source text; the extractor refuses — `.opaque` — any expression
  that hides a closure, a receive, or a call of make / close / recover / panic.  `guard` = the condition of the
  enclosing one-statement `if` (none = unconditional).
-/
namespace CM.ChanLang

mutual
inductive Stmt where
  | declChan (name : String)                                      -- var name chan T            (a nil channel)
  | makeChan (name : String) (cap : Nat) (guard : Option String)  -- name := make(chan T, cap)  (`=` when guarded)
  | goFunc (body : Block)                                         -- go func() { body }()
  | goCall (callee : String) (args : List String) (guard : Option String)      -- go callee(args)
  | deferRecoverSend (ch : String) (guard : Option String)        -- defer func() { if r := recover(); r != nil { ch <- r } }()
  | deferFunc (body : Block)                                      -- defer func() { body }()    (any other deferred closure)
  | send (ch : String) (payload : String)                         -- ch <- payload
  | select (cases : Cases)
  | close (ch : String)
  | ret (what : String)                                           -- return what                ("" = bare return)
  | retFunc (params : List String) (body : Block)                 -- return func(params) … { body }
  | retWrapped (wrapper : String) (params : List String) (body : Block) (args : List String)
                                                                  -- return wrapper(func(params) … { body })(args)
  | panic (what : String)
  | call (callee : String) (args : List String)                   -- callee(args) as a statement
  | guardReturn (cond : String) (what : String)                   -- if cond { return what }
  | opaque (src : String)                                         -- not understood: every checker must reject it
  deriving Repr, DecidableEq
/-- a statement list (its own type, not `List Stmt`: a nested inductive cannot derive `DecidableEq`); write `.of [s₁, …]` -/
inductive Block where
  | nil | cons (s : Stmt) (rest : Block)
  deriving Repr, DecidableEq
/-- a `case` of a select -/
inductive Case where
  | ctxDone (ctx : String) (body : Block)                         -- case <-ctx.Done():
  | recv (ch : String) (bind : Option String) (body : Block)      -- case bind := <-ch:
  | other (src : String) (body : Block)                           -- default / send case / anything else
  deriving Repr, DecidableEq
/-- the cases of a select, in source order; write `.of [c₁, …]` -/
inductive Cases where
  | nil | cons (c : Case) (rest : Cases)
  deriving Repr, DecidableEq
end

def Block.of : List Stmt → Block | [] => .nil | s :: r => .cons s (Block.of r)
def Cases.of : List Case → Cases | [] => .nil | c :: r => .cons c (Cases.of r)
def Block.toList : Block → List Stmt | .nil => [] | .cons s r => s :: r.toList
def Cases.toList : Cases → List Case | .nil => [] | .cons c r => c :: r.toList

/-- a top-level function or method -/
structure Func where
  name : String
  recv : String               -- receiver name ("" for a plain function)
  params : List String
  body : Block
  deriving Repr, DecidableEq

mutual
/-- every statement, at any depth (closures, goroutine bodies, select cases), in source order -/
def flat : Block → List Stmt
  | .nil => []
  | .cons s r => s :: (sub s ++ flat r)
def sub : Stmt → List Stmt
  | .goFunc b | .deferFunc b | .retFunc _ b | .retWrapped _ _ b _ => flat b
  | .select cs => flatC cs
  | _ => []
def flatC : Cases → List Stmt
  | .nil => []
  | .cons (.ctxDone _ b) r | .cons (.recv _ _ b) r | .cons (.other _ b) r => flat b ++ flatC r
end

def isOpaque : Stmt → Bool | .opaque _ => true | _ => false
def noOpaque (p : Block) : Bool := (flat p).all (!isOpaque ·)

/-- capacity of channel `ch`: `make` calls naming it (all of them — a channel made twice must agree) -/
def capsOf (p : Block) (ch : String) : List Nat :=
  (flat p).filterMap fun | .makeChan n c _ => if n == ch then some c else none | _ => none
def capacityOf (p : Block) (ch : String) : Option Nat :=
  match capsOf p ch with | c :: r => if r.all (· == c) then some c else none | [] => none

/-- channels a statement list sends into, plain or from a deferred recover, at any depth -/
def sendsOf (p : Block) : List String :=
  (flat p).filterMap fun | .send ch _ => some ch | .deferRecoverSend ch _ => some ch | _ => none
/-- the bodies of the `go func() { … }()` statements, at any depth -/
def goBodies (p : Block) : List Block := (flat p).filterMap fun | .goFunc b => some b | _ => none
/-- the `go callee(args)` statements, at any depth -/
def goCalls (p : Block) : List (String × List String × Option String) :=
  (flat p).filterMap fun | .goCall f a g => some (f, a, g) | _ => none
def selectsOf (p : Block) : List (List Case) := (flat p).filterMap fun | .select cs => some cs.toList | _ => none

/-- a goroutine that nobody is guaranteed to wait for must never block on a send: every channel a `go func` body
    sends into is made in `p` with capacity ≥ 1 -/
def goSendsBuffered (p : Block) : Bool :=
  (goBodies p).all fun b => (sendsOf b).all fun ch => match capacityOf p ch with | some c => decide (1 ≤ c) | none => false

end CM.ChanLang

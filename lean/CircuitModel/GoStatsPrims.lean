/-
  GoStatsPrims.lean — what the names MEAN in the translated bodies of metrics/rolling/rolling.go that are not event
  callbacks (those are unit GoRunStats / GoFbStats over `Cons.RunStats`, GoConsumerPrims.lean):

    GoStatsRun      *RunStats        ErrorsAt, LegitimateAttemptsAt, ErrorPercentageAt, ErrorPercentage, Config,
                                     SetConfigNotThreadSafe                                   (namespace CM.GoStats.R)
    GoStatsFb       *FallbackStats   SetConfigNotThreadSafe                                   (namespace CM.GoStats.F)
    GoStatsFactory  *StatFactory     CreateConfig, RunStats, FallbackStats                    (namespace CM.GoStats.SF)
    GoStatsFind     (functions)      FindCommandMetrics, FindFallbackMetrics                  (namespace CM.GoStats.Find)

  OBJECT IDENTITY.  A `faststats.RollingCounter` is a struct VALUE that holds a slice (a reference to its bucket array):
  two fields given the same value would share their buckets.  So every constructor call is recorded in the allocation
  log `World.allocs` (what was asked for: width, bucket count, start time) and the value it returns carries the position
  of its allocation in that log (`Ctr.id`).  "Each field got its OWN fresh counter" is then a statement about ids, and a
  body that hands one counter to two fields gives two equal ids.  The counter itself is the model `RC`
  (RollingCounter.lean), whose times are offsets from the counter's `StartTime` (`Ctr.start`).

  CLOCKS.  `config.Now` is nil, `time.Now` or an injected function; each CALL is one reading: the n-th reading of a clock
  is `wallAt n` / `injAt n`, and the number of readings made so far is part of the state.

  POINTERS.  `&rs` of a local struct is modelled as the struct's value at that moment (`some rs`): two pointers are the
  same when they are pointers to the same configured object (a configured object holds allocation ids no other has).

  MUTEXES are hold counts (sequential meaning: `Lock` +1, `Unlock` −1; whether every exit — panics included — gives the
  lock back is part of what the ties say).  Interleavings are C17's / C14's scenarios, not this file's.

  PANICS.  Calling a nil `Now` is `Out.nilCall`; Go's other runtime panics that these bodies can reach are
  `Out.panic panicDivZero` (integer division by zero) and `Out.panic panicMakeSlice` (`make` with a negative length).

  Hand-written and trusted; the BODIES are regenerated (Generated/GoStats*/F_*.lean) and proved equal to the functions of
  the last section (CircuitProofs/GoTie/T_GoStats*.lean).
-/
import CircuitModel.Consumers
import CircuitModel.GoConsumerPrims
namespace CM.GoStats
open CM CM.Go

/-! ### the world outside the receiver: allocations and clocks -/

inductive Clk where
  | wall      -- time.Now
  | inj       -- a function supplied by the user
  deriving Repr, DecidableEq

/-- one call of a faststats constructor, with the arguments it was given -/
inductive Alloc where
  | counter (width numBuckets now : Int)
  | percentile (width numBuckets bucketSize now : Int)
  deriving Repr, DecidableEq

structure World where
  allocs : List Alloc := []       -- every constructor call so far, oldest first; an object's id is its position
  wallAt : Nat → Int              -- the n-th reading of time.Now
  wallReads : Nat := 0
  injAt : Nat → Int               -- the n-th reading of the injected clock
  injReads : Nat := 0

/-- one reading of a clock -/
def World.read (w : World) : Clk → Int × World
  | .wall => (w.wallAt w.wallReads, { w with wallReads := w.wallReads + 1 })
  | .inj => (w.injAt w.injReads, { w with injReads := w.injReads + 1 })

/-- a `faststats.RollingCounter` value -/
structure Ctr where
  id : Option Nat := none         -- which allocation its bucket array is (none: the zero value's nil slice)
  start : Int := 0                -- rollingBucket.StartTime
  rc : RC := RC.new 0 0           -- the counter, in offsets from `start`
  deriving Repr, DecidableEq

/-- a `faststats.RollingPercentile` value -/
structure Pct where
  id : Option Nat := none
  start : Int := 0
  rp : RP := RP.new 0 0 0
  deriving Repr, DecidableEq

/-- `RollingSumAt(t)` of a counter value (reading rolls its window) -/
def Ctr.sumAt (c : Ctr) (t : Int) : Ctr × Int :=
  ({ c with rc := (c.rc.sumAt (t - c.start)).1 }, (c.rc.sumAt (t - c.start)).2)

def panicDivZero : Nat := 1
def panicMakeSlice : Nat := 2
def panicNilMap : Nat := 3

/-- `RunStatsConfig` (the zero value is the default of every field) -/
structure RSCfg where
  f_Now : Option Clk := none
  f_RollingStatsDuration : Int := 0
  f_RollingStatsNumBuckets : Int := 0
  f_RollingPercentileDuration : Int := 0
  f_RollingPercentileNumBuckets : Int := 0
  f_RollingPercentileBucketSize : Int := 0
  deriving Repr, DecidableEq

/-- `FallbackStatsConfig` -/
structure FSCfg where
  f_RollingStatsDuration : Int := 0
  f_Now : Option Clk := none
  f_RollingStatsNumBuckets : Int := 0
  deriving Repr, DecidableEq

/-- `rolling.RunStats` (a struct value: seven counters, the latency sample, the mutex' hold count, the stored config) -/
structure RSV where
  successes : Ctr := {}
  rejects : Ctr := {}
  failures : Ctr := {}
  shortCircuits : Ctr := {}
  timeouts : Ctr := {}
  badRequests : Ctr := {}
  interrupts : Ctr := {}
  latencies : Pct := {}
  mu : Nat := 0
  config : RSCfg := {}
  deriving Repr, DecidableEq

/-- `rolling.FallbackStats` -/
structure FSV where
  successes : Ctr := {}
  rejects : Ctr := {}
  failures : Ctr := {}
  deriving Repr, DecidableEq

/-- the state a translated method runs in: its receiver, the world, "a deferred call this file does not know ran" -/
structure St (ρ : Type) where
  recv : ρ
  world : World
  stuck : Bool := false

/-! ### primitives shared by the units (generic in the receiver) -/

def deferPrim (call : String) : M σ String Unit := Go.pushDefer call

/-- `float64` (exact rationals on the binary64 grid, F64.lean) -/
structure GoF64 where
  r : Rat
  deriving DecidableEq
instance : OfNat GoF64 n := ⟨⟨F64.ofInt n⟩⟩
instance : Repr GoF64 := ⟨fun x _ => repr x.r⟩

/-- `/`: on float64 the correctly rounded quotient; on integers Go's truncating quotient (int64 wrap-around), `none` for
    the runtime panic of a zero divisor — raised by the action that consumes the quotient (in these bodies always the
    `time.Duration(…)` conversion the division is written inside of; no effect lies between the two) -/
class GoDivC (α : Type) (β : outParam Type) where
  div : α → α → β
instance : GoDivC GoF64 GoF64 := ⟨fun a b => ⟨F64.div a.r b.r⟩⟩
instance : GoDivC Int (Option Int) := ⟨fun a b => if b = 0 then none else some (wrap64 (tdiv a b))⟩
def goDiv [GoDivC α β] (a b : α) : β := GoDivC.div a b

def pkg_float64 (x : Int) : M σ tok GoF64 := pure ⟨F64.ofInt x⟩
def pkg_int64 (x : Int) : M σ tok Int := pure x          -- int → int64: the same 64 bits
def time_Duration (q : Option Int) : M σ tok Int :=
  match q with
  | some v => pure v
  | none => Go.raise panicDivZero

/-- `time.Now()`: one reading of the wall clock -/
def time_Now : M (St ρ) tok Int := fun g =>
  (.ok (g.st.world.read .wall).1, { g with st := { g.st with world := (g.st.world.read .wall).2 } })

/-- calling a config's `Now` -/
def callNow (f : Option Clk) : M (St ρ) tok Int := fun g =>
  match f with
  | none => (.nilCall, g)
  | some k => (.ok (g.st.world.read k).1, { g with st := { g.st with world := (g.st.world.read k).2 } })

def RSCfg.m_Now (c : RSCfg) : M (St ρ) tok Int := callNow c.f_Now
def RSCfg.m_RollingStatsDuration_Nanoseconds (c : RSCfg) : M σ tok Int := pure c.f_RollingStatsDuration
def RSCfg.m_RollingPercentileDuration_Nanoseconds (c : RSCfg) : M σ tok Int := pure c.f_RollingPercentileDuration
def FSCfg.m_Now (c : FSCfg) : M (St ρ) tok Int := callNow c.f_Now
def FSCfg.m_RollingStatsDuration_Nanoseconds (c : FSCfg) : M σ tok Int := pure c.f_RollingStatsDuration

/-- `faststats.NewRollingCounter(width, numBuckets, now)`: `make([]AtomicInt64, numBuckets)` panics for a negative
    length; otherwise ONE new allocation is logged and the value naming it is returned -/
def faststats_NewRollingCounter (width numBuckets now : Int) : M (St ρ) tok Ctr := fun g =>
  if numBuckets < 0 then (.panic panicMakeSlice, g)
  else (.ok { id := some g.st.world.allocs.length, start := now, rc := RC.new numBuckets.toNat width },
        { g with st := { g.st with world := { g.st.world with allocs := g.st.world.allocs ++ [.counter width numBuckets now] } } })

/-- `faststats.NewRollingPercentile(width, numBuckets, bucketSize, now)`: `makeBuckets` makes the ring (`make`, negative
    length panics) and then one `make([]AtomicInt64, bucketSize)` per slot (so a negative size panics when there is a slot) -/
def faststats_NewRollingPercentile (width numBuckets bucketSize now : Int) : M (St ρ) tok Pct := fun g =>
  if numBuckets < 0 ∨ (0 < numBuckets ∧ bucketSize < 0) then (.panic panicMakeSlice, g)
  else (.ok { id := some g.st.world.allocs.length, start := now, rp := RP.new numBuckets.toNat width bucketSize.toNat },
        { g with st := { g.st with world := { g.st.world with allocs := g.st.world.allocs ++ [.percentile width numBuckets bucketSize now] } } })

/-- read / change the receiver -/
def rdR (f : ρ → α) : M (St ρ) tok α := fun g => (.ok (f g.st.recv), g)
def updR (f : ρ → ρ) : M (St ρ) tok Unit := fun g => (.ok (), { g with st := { g.st with recv := f g.st.recv } })
def updRetR (f : ρ → ρ × α) : M (St ρ) tok α := fun g =>
  (.ok (f g.st.recv).2, { g with st := { g.st with recv := (f g.st.recv).1 } })

/-- the statement side: a function of receiver and world, as an action -/
def act (f : ρ → World → Out α × ρ × World) : M (St ρ) tok α := fun g =>
  ((f g.st.recv g.st.world).1, { g with st := { g.st with recv := (f g.st.recv g.st.world).2.1, world := (f g.st.recv g.st.world).2.2 } })

/-! ### *RunStats -/
namespace R
abbrev SM := M (St RSV) String
def runTok : String → SM Unit
  | "recv_mu_Unlock" => updR fun r => { r with mu := r.mu - 1 }
  | _ => fun g => (.ok (), { g with st := { g.st with stuck := true } })
def fn (body : SM α) : SM α := goFunc runTok body
def recv_mu_Lock : SM Unit := updR fun r => { r with mu := r.mu + 1 }
def recv_config : SM RSCfg := rdR (·.config)
def recv_config_set (c : RSCfg) : SM Unit := updR fun r => { r with config := c }
def recv_Successes_RollingSumAt (t : Int) : SM Int := updRetR fun r => ({ r with successes := (r.successes.sumAt t).1 }, (r.successes.sumAt t).2)
def recv_ErrFailures_RollingSumAt (t : Int) : SM Int := updRetR fun r => ({ r with failures := (r.failures.sumAt t).1 }, (r.failures.sumAt t).2)
def recv_ErrTimeouts_RollingSumAt (t : Int) : SM Int := updRetR fun r => ({ r with timeouts := (r.timeouts.sumAt t).1 }, (r.timeouts.sumAt t).2)
def recv_Successes_set (c : Ctr) : SM Unit := updR fun r => { r with successes := c }
def recv_ErrConcurrencyLimitRejects_set (c : Ctr) : SM Unit := updR fun r => { r with rejects := c }
def recv_ErrFailures_set (c : Ctr) : SM Unit := updR fun r => { r with failures := c }
def recv_ErrShortCircuits_set (c : Ctr) : SM Unit := updR fun r => { r with shortCircuits := c }
def recv_ErrTimeouts_set (c : Ctr) : SM Unit := updR fun r => { r with timeouts := c }
def recv_ErrBadRequests_set (c : Ctr) : SM Unit := updR fun r => { r with badRequests := c }
def recv_ErrInterrupts_set (c : Ctr) : SM Unit := updR fun r => { r with interrupts := c }
def recv_Latencies_set (p : Pct) : SM Unit := updR fun r => { r with latencies := p }
end R

/-! ### *FallbackStats -/
namespace F
abbrev FBM := M (St FSV) String
def runTok : String → FBM Unit
  | _ => fun g => (.ok (), { g with st := { g.st with stuck := true } })
def fn (body : FBM α) : FBM α := goFunc runTok body
def recv_Successes_set (c : Ctr) : FBM Unit := updR fun r => { r with successes := c }
def recv_ErrConcurrencyLimitRejects_set (c : Ctr) : FBM Unit := updR fun r => { r with rejects := c }
def recv_ErrFailures_set (c : Ctr) : FBM Unit := updR fun r => { r with failures := c }
end F

/-! ### what the RunStats / FallbackStats methods have to compute (statement side of the ties) -/

/-- `ErrorsAt(t)`: failures + timeouts, each read at `t` -/
def RSV.errorsAt (r : RSV) (t : Int) : RSV × Int :=
  ({ r with failures := (r.failures.sumAt t).1, timeouts := (r.timeouts.sumAt t).1 }, (r.failures.sumAt t).2 + (r.timeouts.sumAt t).2)

/-- `LegitimateAttemptsAt(t)`: successes + failures + timeouts, each read at `t` -/
def RSV.attemptsAt (r : RSV) (t : Int) : RSV × Int :=
  ({ r with successes := (r.successes.sumAt t).1, failures := (r.failures.sumAt t).1, timeouts := (r.timeouts.sumAt t).1 },
   (r.successes.sumAt t).2 + ((r.failures.sumAt t).2 + (r.timeouts.sumAt t).2))

/-- `ErrorPercentageAt(t)`: the model's `Cons.errorPercentage` (the function C20's theorems speak about: 0 when there
    is no attempt, else the binary64 quotient errors / attempts) of the three rolling sums read at `t`; the three
    counters' windows have been rolled to `t` -/
def RSV.errorPercentageAt (r : RSV) (t : Int) : RSV × GoF64 :=
  ((r.attemptsAt t).1, ⟨Cons.errorPercentage (r.successes.sumAt t).2 (r.failures.sumAt t).2 (r.timeouts.sumAt t).2⟩)

/-- the width of one bucket: duration / count (truncating, int64), `none` where Go panics (count 0) -/
def bucketWidth (dur n : Int) : Option Int := if n = 0 then none else some (wrap64 (tdiv dur n))

/-- the counter `NewRollingCounter(width, n, now)` returns when it is allocation number `id` -/
def Ctr.fresh (id : Nat) (width n now : Int) : Ctr := { id := some id, start := now, rc := RC.new n.toNat width }
def Pct.fresh (id : Nat) (width n size now : Int) : Pct := { id := some id, start := now, rp := RP.new n.toNat width size.toNat }

/-- `(*RunStats).SetConfigNotThreadSafe(cfg)`: the config is stored; `cfg.Now` is read ONCE; then seven counters — each
    its own allocation, numbered consecutively from the next free id, in the order Successes, ErrConcurrencyLimitRejects,
    ErrFailures, ErrShortCircuits, ErrTimeouts, ErrBadRequests, ErrInterrupts — all of width duration/count, `count`
    buckets, started at that reading; then the latency sample (the next id).  The panics are Go's, at the point Go
    raises them (a nil `Now`, a zero count, a negative length); the mutex is given back on every path. -/
def RSV.setConfig (r : RSV) (cfg : RSCfg) (w : World) : Out Unit × RSV × World :=
  let r := { r with config := cfg }
  match cfg.f_Now with
  | none => (.nilCall, r, w)
  | some k =>
    let now := (w.read k).1
    let w := (w.read k).2
    match bucketWidth cfg.f_RollingStatsDuration cfg.f_RollingStatsNumBuckets with
    | none => (.panic panicDivZero, r, w)
    | some bw =>
      match bucketWidth cfg.f_RollingPercentileDuration cfg.f_RollingPercentileNumBuckets with
      | none => (.panic panicDivZero, r, w)
      | some pw =>
        let n := cfg.f_RollingStatsNumBuckets
        if n < 0 then (.panic panicMakeSlice, r, w)
        else
          let base := w.allocs.length
          let r := { r with successes := Ctr.fresh base bw n now, rejects := Ctr.fresh (base + 1) bw n now,
                            failures := Ctr.fresh (base + 2) bw n now, shortCircuits := Ctr.fresh (base + 3) bw n now,
                            timeouts := Ctr.fresh (base + 4) bw n now, badRequests := Ctr.fresh (base + 5) bw n now,
                            interrupts := Ctr.fresh (base + 6) bw n now }
          let w := { w with allocs := w.allocs ++ List.replicate 7 (.counter bw n now) }
          let pn := cfg.f_RollingPercentileNumBuckets
          let ps := cfg.f_RollingPercentileBucketSize
          if pn < 0 ∨ (0 < pn ∧ ps < 0) then (.panic panicMakeSlice, r, w)
          else (.ok (), { r with latencies := Pct.fresh (base + 7) pw pn ps now },
                { w with allocs := w.allocs ++ [.percentile pw pn ps now] })

/-- `(*FallbackStats).SetConfigNotThreadSafe(cfg)`: one reading of `cfg.Now`, three counters of their own (consecutive
    fresh ids, in the order Successes, ErrConcurrencyLimitRejects, ErrFailures) -/
def FSV.setConfig (r : FSV) (cfg : FSCfg) (w : World) : Out Unit × FSV × World :=
  match cfg.f_Now with
  | none => (.nilCall, r, w)
  | some k =>
    let now := (w.read k).1
    let w := (w.read k).2
    match bucketWidth cfg.f_RollingStatsDuration cfg.f_RollingStatsNumBuckets with
    | none => (.panic panicDivZero, r, w)
    | some bw =>
      let n := cfg.f_RollingStatsNumBuckets
      if n < 0 then (.panic panicMakeSlice, r, w)
      else
        let base := w.allocs.length
        (.ok (), { successes := Ctr.fresh base bw n now, rejects := Ctr.fresh (base + 1) bw n now, failures := Ctr.fresh (base + 2) bw n now },
         { w with allocs := w.allocs ++ List.replicate 3 (.counter bw n now) })

/-! ### *StatFactory -/

/-- an interface value holding a metrics collector, by dynamic type -/
inductive Coll where
  | runStats (p : Option RSV)       -- dynamic type *rolling.RunStats (the pointer itself may be nil)
  | fbStats (p : Option FSV)        -- dynamic type *rolling.FallbackStats
  | other (id : Nat)                -- any other dynamic type
  | nilIface                        -- the nil interface value
  deriving Repr, DecidableEq

abbrev RSP := Option RSV            -- *RunStats
abbrev FSP := Option FSV            -- *FallbackStats

/-- `&x` of a local struct: a pointer to it — as a pointer, or stored in an interface value (the expected type decides) -/
class GoAddr (α β : Type) where
  addr : α → β
instance : GoAddr RSV RSP := ⟨some⟩
instance : GoAddr FSV FSP := ⟨some⟩
instance : GoAddr RSV Coll := ⟨fun x => .runStats (some x)⟩
instance : GoAddr FSV Coll := ⟨fun x => .fbStats (some x)⟩
def goAddr [GoAddr α β] (x : α) : β := GoAddr.addr x

/-- `circuit.MetricsCollectors` / `circuit.Config`, as far as the factory fills them (every other field is its zero value) -/
structure circuit_MetricsCollectors where
  Run : List Coll := []
  Fallback : List Coll := []
  deriving Repr, DecidableEq
structure circuit_Config where
  Metrics : circuit_MetricsCollectors := {}
  deriving Repr, DecidableEq

/-- `Merge`: fill the unset (zero / nil) fields from `other` -/
def RSCfg.merge (r other : RSCfg) : RSCfg :=
  { f_Now := if r.f_Now.isNone then other.f_Now else r.f_Now,
    f_RollingStatsDuration := if r.f_RollingStatsDuration = 0 then other.f_RollingStatsDuration else r.f_RollingStatsDuration,
    f_RollingStatsNumBuckets := if r.f_RollingStatsNumBuckets = 0 then other.f_RollingStatsNumBuckets else r.f_RollingStatsNumBuckets,
    f_RollingPercentileDuration := if r.f_RollingPercentileDuration = 0 then other.f_RollingPercentileDuration else r.f_RollingPercentileDuration,
    f_RollingPercentileNumBuckets := if r.f_RollingPercentileNumBuckets = 0 then other.f_RollingPercentileNumBuckets else r.f_RollingPercentileNumBuckets,
    f_RollingPercentileBucketSize := if r.f_RollingPercentileBucketSize = 0 then other.f_RollingPercentileBucketSize else r.f_RollingPercentileBucketSize }
def FSCfg.merge (r other : FSCfg) : FSCfg :=
  { f_Now := if r.f_Now.isNone then other.f_Now else r.f_Now,
    f_RollingStatsDuration := if r.f_RollingStatsDuration = 0 then other.f_RollingStatsDuration else r.f_RollingStatsDuration,
    f_RollingStatsNumBuckets := if r.f_RollingStatsNumBuckets = 0 then other.f_RollingStatsNumBuckets else r.f_RollingStatsNumBuckets }

/-- `defaultRunStatsConfig` / `defaultFallbackStatsConfig` (package variables of rolling.go) -/
def defaultRunStatsConfig : RSCfg :=
  { f_Now := some .wall, f_RollingStatsDuration := 10000000000, f_RollingStatsNumBuckets := 10,
    f_RollingPercentileDuration := 60000000000, f_RollingPercentileNumBuckets := 6, f_RollingPercentileBucketSize := 100 }
def defaultFallbackStatsConfig : FSCfg :=
  { f_Now := some .wall, f_RollingStatsDuration := 10000000000, f_RollingStatsNumBuckets := 10 }

/-- `rolling.StatFactory`: a map is nil (`none`) or a list of bindings, newest first (a lookup finds the newest) -/
structure SFV where
  f_RunConfig : RSCfg := {}
  f_FallbackConfig : FSCfg := {}
  runMap : Option (List (String × RSP)) := none
  fbMap : Option (List (String × FSP)) := none
  mu : Nat := 0
  deriving Repr, DecidableEq

def mapGet (m : Option (List (String × Option α))) (k : String) : Option α := ((m.getD []).lookup k).getD none

namespace SF
abbrev SFM := M (St SFV) String
def runTok : String → SFM Unit
  | "recv_mu_Unlock" => updR fun r => { r with mu := r.mu - 1 }
  | _ => fun g => (.ok (), { g with st := { g.st with stuck := true } })
def fn (body : SFM α) : SFM α := goFunc runTok body
def recv_mu_Lock : SFM Unit := updR fun r => { r with mu := r.mu + 1 }

def lit_RunStats : RSV := {}
def lit_FallbackStats : FSV := {}
def lit_RunStatsConfig : RSCfg := {}
def lit_FallbackStatsConfig : FSCfg := {}
def pkg_defaultRunStatsConfig : RSCfg := defaultRunStatsConfig
def pkg_defaultFallbackStatsConfig : FSCfg := defaultFallbackStatsConfig
def recv_RunConfig : SFM RSCfg := rdR (·.f_RunConfig)
def recv_FallbackConfig : SFM FSCfg := rdR (·.f_FallbackConfig)
/-- `cfg.Merge(other)` on a local: the local's new value (bodies: unit-free `Merge`s, the spec is `RSCfg.merge`) -/
def _root_.CM.GoStats.RSCfg.m_Merge (r other : RSCfg) : SFM RSCfg := pure (r.merge other)
def _root_.CM.GoStats.FSCfg.m_Merge (r other : FSCfg) : SFM FSCfg := pure (r.merge other)
/-- `rs.SetConfigNotThreadSafe(cfg)` on a local: its body is unit GoStatsRun's (tie `go_SetConfigNotThreadSafe_eq`); here
    it is that specification, acting on the local and the world -/
def _root_.CM.GoStats.RSV.m_SetConfigNotThreadSafe (r : RSV) (cfg : RSCfg) : SFM RSV := fun g =>
  match r.setConfig cfg g.st.world with
  | (.ok _, r', w') => (.ok r', { g with st := { g.st with world := w' } })
  | (.panic v, _, w') => (.panic v, { g with st := { g.st with world := w' } })
  | (.nilCall, _, w') => (.nilCall, { g with st := { g.st with world := w' } })
def _root_.CM.GoStats.FSV.m_SetConfigNotThreadSafe (r : FSV) (cfg : FSCfg) : SFM FSV := fun g =>
  match r.setConfig cfg g.st.world with
  | (.ok _, r', w') => (.ok r', { g with st := { g.st with world := w' } })
  | (.panic v, _, w') => (.panic v, { g with st := { g.st with world := w' } })
  | (.nilCall, _, w') => (.nilCall, { g with st := { g.st with world := w' } })

/-- a map as `== nil` and `make` see it -/
structure MapH where
  isNilMap : Bool
instance : IsNil MapH := ⟨(·.isNilMap)⟩
def goMakeMap : MapH := ⟨false⟩
def recv_runStatsByCircuit : SFM MapH := rdR fun s => ⟨s.runMap.isNone⟩
def recv_fallbackStatsByCircuit : SFM MapH := rdR fun s => ⟨s.fbMap.isNone⟩
def recv_runStatsByCircuit_set (m : MapH) : SFM Unit := updR fun s => { s with runMap := if m.isNilMap then none else some [] }
def recv_fallbackStatsByCircuit_set (m : MapH) : SFM Unit := updR fun s => { s with fbMap := if m.isNilMap then none else some [] }
/-- `m[k] = v`: a nil map panics -/
def recv_runStatsByCircuit_store (k : String) (v : RSP) : SFM Unit := fun g =>
  match g.st.recv.runMap with
  | none => (.panic panicNilMap, g)
  | some l => (.ok (), { g with st := { g.st with recv := { g.st.recv with runMap := some ((k, v) :: l) } } })
def recv_fallbackStatsByCircuit_store (k : String) (v : FSP) : SFM Unit := fun g =>
  match g.st.recv.fbMap with
  | none => (.panic panicNilMap, g)
  | some l => (.ok (), { g with st := { g.st with recv := { g.st.recv with fbMap := some ((k, v) :: l) } } })
/-- `m[k]`: nil for a missing key and for a nil map -/
def recv_runStatsByCircuit_at (k : String) : SFM RSP := rdR fun s => mapGet s.runMap k
def recv_fallbackStatsByCircuit_at (k : String) : SFM FSP := rdR fun s => mapGet s.fbMap k
end SF

/-- `(*StatFactory).CreateConfig(name)`: a new RunStats configured from RunConfig over the package defaults and a new
    FallbackStats configured likewise (in this order: the RunStats' eight allocations, then the FallbackStats' three);
    BOTH are bound to `name` in the factory's maps (made on first use; the previous binding of the name is shadowed) and
    THE SAME two pointers are the only collectors of the returned config.  A panic while configuring leaves the maps alone. -/
def SFV.createConfig (s : SFV) (name : String) (w : World) : Out circuit_Config × SFV × World :=
  match ({} : RSV).setConfig ((({} : RSCfg).merge s.f_RunConfig).merge defaultRunStatsConfig) w with
  | (.panic v, _, w) => (.panic v, s, w)
  | (.nilCall, _, w) => (.nilCall, s, w)
  | (.ok _, rs, w) =>
    match ({} : FSV).setConfig ((({} : FSCfg).merge s.f_FallbackConfig).merge defaultFallbackStatsConfig) w with
    | (.panic v, _, w) => (.panic v, s, w)
    | (.nilCall, _, w) => (.nilCall, s, w)
    | (.ok _, fs, w) =>
      (.ok { Metrics := { Run := [.runStats (some rs)], Fallback := [.fbStats (some fs)] } },
       { s with runMap := some ((name, some rs) :: s.runMap.getD []), fbMap := some ((name, some fs) :: s.fbMap.getD []) }, w)

/-! ### FindCommandMetrics / FindFallbackMetrics -/

/-- `*circuit.Circuit`, as far as the search reads it (non-nil) -/
structure CircV where
  f_CmdMetricCollector : List Coll
  f_FallbackMetricCollector : List Coll

namespace Find
abbrev NM := M Unit NoTok
def fn (body : NM α) : NM α := goFunc noTok body
/-- `r.(*RunStats)`: (the pointer held, true) when that is the dynamic type — a nil pointer of that type included —
    else (nil, false) -/
def as_RunStats (c : Coll) : NM (RSP × Bool) :=
  pure (match c with | .runStats p => (p, true) | _ => (none, false))
def as_FallbackStats (c : Coll) : NM (FSP × Bool) :=
  pure (match c with | .fbStats p => (p, true) | _ => (none, false))
end Find

/-- the first collector of dynamic type *RunStats, nil when there is none -/
def findRun : List Coll → RSP
  | [] => none
  | .runStats p :: _ => p
  | _ :: rest => findRun rest
def findFb : List Coll → FSP
  | [] => none
  | .fbStats p :: _ => p
  | _ :: rest => findFb rest

end CM.GoStats

/-
  MergeLang.lean — a tiny object language for `Merge` methods of configuration structs, an evaluator, the
  specification "merging only fills gaps", and a checker whose soundness is proved once (CircuitProofs/Props/C19).
  The programs and field tables it is applied to are REGENERATED from the Go source on every run
  (tools/extract/mergeprogs → Generated/MergeProgs.lean).
-/
namespace CM.Merge

/-- how a field takes part in merging -/
inductive FKind where
  | scalar                 -- numbers, durations, strings, funcs, pointers: "set" means ≠ zero value
  | bool                   -- switches: set if either side set it
  | list                   -- collector lists: receiver then other
  | map                    -- custom-config maps: union, receiver's entries win
  | nested (ty : String)   -- a struct with its own merge method
  deriving Repr, DecidableEq

structure Field where
  name : String
  kind : FKind
  deriving Repr, DecidableEq

/-- statements a merge body is translated to; anything the translator does not recognise becomes `opaque` -/
inductive Stmt where
  | fillIfZero (f : String)          -- if r.f == zero { r.f = other.f }
  | orBool (f : String)              -- if !r.f { r.f = other.f }
  | appendList (f : String)          -- r.f = append(r.f, other.f...)
  | unionMapLeft (f : String)        -- for k,v := range other.f { if _, ok := r.f[k]; !ok { r.f[k] = v } }
  | nested (f : String)              -- r.f.merge(other.f)
  | opaque (desc : String)
  deriving Repr, DecidableEq

structure TypeDef where
  name : String
  fields : List Field
  prog : List Stmt
  deriving Repr, DecidableEq

/-- values: scalars are naturals with 0 = unset; maps are association lists -/
inductive Val where
  | scalar (v : Nat)
  | bool (b : Bool)
  | list (l : List Nat)
  | map (m : List (Nat × Nat))
  | struct (fs : List (String × Val))
  deriving Repr

def lookup (fs : List (String × Val)) (f : String) : Option Val := (fs.find? (·.1 == f)).map (·.2)
def update (fs : List (String × Val)) (f : String) (v : Val) : List (String × Val) :=
  fs.map fun (n, x) => if n == f then (n, v) else (n, x)

def mapHas (m : List (Nat × Nat)) (k : Nat) : Bool := m.any (·.1 == k)
/-- insert the entries of `o` whose key `r` lacks, in order -/
def mapUnionLeft (r o : List (Nat × Nat)) : List (Nat × Nat) :=
  o.foldl (fun acc (k, v) => if mapHas acc k then acc else acc ++ [(k, v)]) r

def typeOf (types : List TypeDef) (n : String) : Option TypeDef := types.find? (·.name == n)

/-- evaluate a merge program on receiver fields `r` and other fields `o`; fuel bounds the nesting depth -/
def evalStmts (types : List TypeDef) : Nat → List Field → List Stmt → List (String × Val) → List (String × Val) → List (String × Val)
  | _, _, [], r, _ => r
  | fuel, tbl, st :: rest, r, o =>
    let r' : List (String × Val) :=
      match st with
      | .fillIfZero f =>
        (match lookup r f, lookup o f with
         | some (.scalar a), some (.scalar b) => if a = 0 then update r f (.scalar b) else r
         | _, _ => r)
      | .orBool f =>
        (match lookup r f, lookup o f with
         | some (.bool a), some (.bool b) => if !a then update r f (.bool b) else r
         | _, _ => r)
      | .appendList f =>
        (match lookup r f, lookup o f with
         | some (.list a), some (.list b) => update r f (.list (a ++ b))
         | _, _ => r)
      | .unionMapLeft f =>
        (match lookup r f, lookup o f with
         | some (.map a), some (.map b) => update r f (.map (mapUnionLeft a b))
         | _, _ => r)
      | .nested f =>
        (match fuel, lookup r f, lookup o f, ((tbl.find? (·.name == f)).map (·.kind) : Option FKind) with
         | fuel' + 1, some (.struct a), some (.struct b), some (FKind.nested ty) =>
           (match typeOf types ty with
            | some td => update r f (.struct (evalStmts types fuel' td.fields td.prog a b))
            | none => r)
         | _, _, _, _ => r)
      | .opaque _ => r
    evalStmts types fuel tbl rest r' o

/-- the specification: what "only fills gaps" means for one field -/
def fillGap (types : List TypeDef) : Nat → FKind → Val → Val → Val
  | _, .scalar, .scalar a, .scalar b => .scalar (if a = 0 then b else a)
  | _, .bool, .bool a, .bool b => .bool (a || b)
  | _, .list, .list a, .list b => .list (a ++ b)
  | _, .map, .map a, .map b => .map (mapUnionLeft a b)
  | fuel + 1, .nested ty, .struct a, .struct b =>
    (match typeOf types ty with
     | some td => .struct (a.map fun (n, x) =>
         match ((td.fields.find? (·.name == n)).map (·.kind) : Option FKind), lookup b n with
         | some k, some y => (n, fillGap types fuel k x y)
         | _, _ => (n, x))
     | none => .struct a)
  | _, _, a, _ => a

/-- the specification for a whole struct: every field of the receiver is gap-filled from the other side -/
def specStruct (types : List TypeDef) (fuel : Nat) (tbl : List Field) (r o : List (String × Val)) : List (String × Val) :=
  r.map fun (n, x) =>
    match ((tbl.find? (·.name == n)).map (·.kind) : Option FKind), lookup o n with
    | some k, some y => (n, fillGap types fuel k x y)
    | _, _ => (n, x)

/-- a value has the shape a kind calls for (nested structs: exactly the nested type's fields, in order) -/
def conformsVal (types : List TypeDef) : Nat → FKind → Val → Bool
  | _, .scalar, .scalar _ => true
  | _, .bool, .bool _ => true
  | _, .list, .list _ => true
  | _, .map, .map _ => true
  | fuel + 1, .nested ty, .struct fs =>
    (match typeOf types ty with
     | some td => fs.map (·.1) == td.fields.map (·.name) &&
         (fs.all fun (n, x) => match td.fields.find? (·.name == n) with | some fld => conformsVal types fuel fld.kind x | none => false)
     | none => false)
  | 0, .nested _, .struct _ => true
  | _, _, _ => false

def conforms (types : List TypeDef) (fuel : Nat) (tbl : List Field) (fs : List (String × Val)) : Bool :=
  fs.map (·.1) == tbl.map (·.name) &&
  (fs.all fun (n, x) => match tbl.find? (·.name == n) with | some fld => conformsVal types fuel fld.kind x | none => false)

/-- which field a statement writes, and the kind it is right for -/
def Stmt.target : Stmt → Option (String × (FKind → Bool))
  | .fillIfZero f => some (f, fun k => k == .scalar)
  | .orBool f => some (f, fun k => k == .bool)
  | .appendList f => some (f, fun k => k == .list)
  | .unionMapLeft f => some (f, fun k => k == .map)
  | .nested f => some (f, fun k => match k with | .nested _ => true | _ => false)
  | .opaque _ => none

/-- the checker: every statement is recognised and writes a distinct field with the operation its kind calls for;
    every field of the table is written by exactly one statement; field names are distinct; nested types exist -/
def checkType (types : List TypeDef) (td : TypeDef) : Bool :=
  let targets := td.prog.map Stmt.target
  targets.all Option.isSome &&
  (td.prog.all fun st => match st.target with
    | some (f, ok) => (match td.fields.find? (·.name == f) with | some fld => ok fld.kind | none => false)
    | none => false) &&
  (td.fields.all fun fld => ((td.prog.filter fun st => match st.target with | some (f, _) => f == fld.name | none => false).length == 1)) &&
  (td.fields.map (·.name)).Nodup &&
  (td.fields.all fun fld => match fld.kind with | .nested ty => (typeOf types ty).isSome | _ => true)

def checkAll (types : List TypeDef) : Bool := types.all (checkType types) && (types.map (·.name)).Nodup

end CM.Merge

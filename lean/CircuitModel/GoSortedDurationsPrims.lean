/-
  GoSortedDurationsPrims.lean — what the names in `SortedDurations.Mean / Min / Max / Percentile`
  (faststats/rolling_percentile.go) MEAN: `time.Duration` / `int64` are `I64` (two's-complement wrap on + and −, as Go),
  `float64` is `GoF64` (the exact-rational binary64 model F64.lean: every operation is correctly rounded; literals are the
  small integers they denote), conversions as Go defines them (float→int truncates toward zero), indexing outside the
  slice is Go's runtime panic.  The receiver is DATA (a slice), a parameter of every translated function.
  Hand-written, trusted (the F64 model is compared with Go's arithmetic on every run by the `sd` suite); the bodies are
  regenerated (Generated/GoSortedDurations/F_*.lean).
-/
import CircuitModel.RollingPercentile
import CircuitModel.GoConsumerPrims
namespace CM.GoSD
open CM CM.Go

structure I64 where
  v : Int
  deriving Repr, DecidableEq
instance : OfNat I64 n := ⟨⟨n⟩⟩
instance : Neg I64 := ⟨fun a => ⟨wrap64 (-a.v)⟩⟩
instance : HAdd I64 I64 I64 := ⟨fun a b => ⟨wrap64 (a.v + b.v)⟩⟩
instance : HSub I64 I64 I64 := ⟨fun a b => ⟨wrap64 (a.v - b.v)⟩⟩

structure GoF64 where
  r : Rat
instance : OfNat GoF64 n := ⟨⟨(n : Rat)⟩⟩
instance : LE GoF64 := ⟨fun a b => a.r ≤ b.r⟩
instance (a b : GoF64) : Decidable (a ≤ b) := inferInstanceAs (Decidable (a.r ≤ b.r))
instance : HMul GoF64 GoF64 GoF64 := ⟨fun a b => ⟨F64.mul a.r b.r⟩⟩
instance : HSub GoF64 GoF64 GoF64 := ⟨fun a b => ⟨F64.sub a.r b.r⟩⟩

abbrev DM := M Unit NoTok
def fn (body : DM α) : DM α := goFunc noTok body

class GoDivC (α : Type) where
  div : α → α → α
instance : GoDivC I64 := ⟨fun a b => ⟨tdiv a.v b.v⟩⟩
instance : GoDivC GoF64 := ⟨fun a b => ⟨F64.div a.r b.r⟩⟩
def goDiv [GoDivC α] (a b : α) : α := GoDivC.div a b

def goLen (l : List α) : Int := l.length
/-- `s[i]`: Go panics outside the slice -/
def goIndex (l : List I64) (i : Int) : DM I64 :=
  if i < 0 then Go.nilCall else match l[i.toNat]? with
    | some x => pure x
    | none => Go.nilCall

class ToI64 (α : Type) where
  conv : α → I64
instance : ToI64 Int := ⟨fun x => ⟨x⟩⟩
instance : ToI64 Nat := ⟨fun x => ⟨x⟩⟩   -- an untyped constant: `int64(0)`
instance : ToI64 GoF64 := ⟨fun x => ⟨F64.toInt x.r⟩⟩
def pkg_int64 [ToI64 α] (x : α) : DM I64 := pure (ToI64.conv x)
class ToF64 (α : Type) where
  conv : α → GoF64
instance : ToF64 Int := ⟨fun x => ⟨F64.ofInt x⟩⟩
instance : ToF64 I64 := ⟨fun x => ⟨F64.ofInt x.v⟩⟩
def pkg_float64 [ToF64 α] (x : α) : DM GoF64 := pure (ToF64.conv x)
def pkg_int (x : GoF64) : DM Int := pure (F64.toInt x.r)
def math_Floor (x : GoF64) : DM GoF64 := pure ⟨(x.r.floor : Int)⟩
def math_Ceil (x : GoF64) : DM GoF64 := pure ⟨(x.r.ceil : Int)⟩
def time_Duration (x : I64) : DM I64 := pure x
def I64.m_Nanoseconds (x : I64) : DM I64 := pure x

/-- the model's answer as Go gives it: a value, or the runtime panic where the model says `none` -/
def outOf : Option Int → Out I64
  | some v => .ok ⟨v⟩
  | none => .nilCall

end CM.GoSD

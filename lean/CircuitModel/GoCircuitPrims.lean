/-
  GoCircuitPrims.lean — what the selector paths of package `circuit` (file circuit.go) MEAN in terms of the model's
  state (`Circ`, `Obs` of Circuit.lean): the atomics of the live configuration, the three collector fan-outs, the
  opener / closer interface calls, the gauges, the substitute clock, contexts, the scripted user functions.
  Names are the translator's mangling of the Go selector path with the receiver normalised to `recv`
  (`c.threadSafeConfig.CircuitBreaker.ForceOpen.Get()` ↦ `recv_threadSafeConfig_CircuitBreaker_ForceOpen_Get`).
  This file is hand-written and TRUSTED (validated by the K1 differential like the rest of the model); the control
  flow that combines these primitives is NOT: it is regenerated from the source (Generated/GoCircuit.lean) and proved
  equal to the model's functions in CircuitProofs/Props/GoCircuit.lean.
  Mutexes are no-ops (sequential semantics); goroutines (`Go`) are outside this translation.
-/
import CircuitModel.Circuit
import CircuitModel.GoSem
namespace CM.GoCircuit
open CM CM.Go

/-- package state while one call is in flight -/
structure World (σo σc : Type) where
  s : St σo σc
  caller : CallerCtx                  -- the caller's context as the call found it
  callerErr : Option CtxErr           -- its Err() at this moment
  stuck : Bool := false               -- something ran that has no meaning here (an unknown deferred call)

/-- the logic the circuit was built with (what `OpenToClose` / `ClosedToOpen` dispatch to) -/
class Logic (σo σc : Type) where
  O : OpenerI σo
  C : CloserI σc

inductive Tok where
  | prim (call : String)              -- a deferred call rooted at the receiver, arguments literal
  | cancel                            -- a deferred call of the CancelFunc returned by context.WithDeadline
  deriving Repr, DecidableEq

abbrev GM (σo σc : Type) := M (World σo σc) Tok

/-! ### Go types as they appear in signatures -/
abbrev Err := Option ErrV
abbrev Dur := Int
inductive GoTime where
  | zero
  | at (t : Int)
  deriving Repr, DecidableEq
inductive GoCtx where
  | caller
  | derived (deadline : Int)
  deriving Repr, DecidableEq
abbrev RunFn := Option Script
abbrev FbFn := Option Script
/-- `func()`: only the context package's CancelFunc occurs -/
inductive Fn0 where
  | nilFn
  | release
  deriving Repr, DecidableEq
structure Recv where
  deriving Repr
structure Iface where
  deriving Repr

instance : GoZero GoTime := ⟨.zero⟩
instance : GoZero Fn0 := ⟨.nilFn⟩
instance : IsNil Recv := ⟨fun _ => false⟩      -- constructed circuits only (nil / zero-value circuits: driver, K1)
instance : IsNil Iface := ⟨fun _ => false⟩
instance : IsNil Fn0 := ⟨fun f => f == .nilFn⟩

def recv : Recv := {}

section
variable {σo σc : Type} [L : Logic σo σc]

def onSt (f : St σo σc → St σo σc) : GM σo σc Unit := Go.modify fun w => { w with s := f w.s }
def readCfg (f : LiveCfg → α) : GM σo σc α := do return f (← Go.get).s.1.cfg

/-! ### the live configuration (atomics) -/
def recv_threadSafeConfig_CircuitBreaker_ForceOpen_Get : GM σo σc Bool := readCfg (·.forceOpen)
def recv_threadSafeConfig_CircuitBreaker_ForcedClosed_Get : GM σo σc Bool := readCfg (·.forcedClosed)
def recv_threadSafeConfig_CircuitBreaker_Disabled_Get : GM σo σc Bool := readCfg (·.disabled)
def recv_threadSafeConfig_Execution_MaxConcurrentRequests_Get : GM σo σc Int := readCfg (·.maxConc)
def recv_threadSafeConfig_Execution_ExecutionTimeout_Duration : GM σo σc Dur := readCfg (·.timeout)
def recv_threadSafeConfig_Fallback_Disabled_Get : GM σo σc Bool := readCfg (·.fbDisabled)
def recv_threadSafeConfig_Fallback_MaxConcurrentRequests_Get : GM σo σc Int := readCfg (·.fbMaxConc)
def recv_threadSafeConfig_GoSpecific_IgnoreInterrupts_Get : GM σo σc Bool := readCfg (·.ignoreInterrupts)

/-- the stored config's interrupt classifier (a nil-able Go closure over the context's error) -/
def recv_notThreadSafeConfig_Execution_IsErrInterrupt : GM σo σc (Option (Err → Bool)) := do
  let iei := (← Go.get).s.1.cfg.iei
  return match iei with
    | .unset => none
    | other => some fun e => match e with
      | some (.ctx ce) => other.verdict ce
      | _ => false

/-! ### mutexes: sequential semantics -/
def recv_transitionMu_Lock : GM σo σc Unit := pure ()
def recv_transitionMu_Unlock : GM σo σc Unit := pure ()
def recv_notThreadSafeConfigMu_Lock : GM σo σc Unit := pure ()
def recv_notThreadSafeConfigMu_Unlock : GM σo σc Unit := pure ()

/-! ### state words -/
def recv_isOpen_Get : GM σo σc Bool := do return (← Go.get).s.1.isOpen
def recv_isOpen_Set (b : Bool) : GM σo σc Unit := onSt fun s => ({ s.1 with isOpen := b }, s.2)
def recv_concurrentCommands_Add (n : Int) : GM σo σc Int := do
  onSt fun s => ({ s.1 with conc := s.1.conc + n }, s.2)
  return (← Go.get).s.1.conc
def recv_concurrentFallbacks_Add (n : Int) : GM σo σc Int := do
  onSt fun s => ({ s.1 with concFb := s.1.concFb + n }, s.2)
  return (← Go.get).s.1.concFb
def recv_concurrentCommands_Get : GM σo σc Int := do return (← Go.get).s.1.conc
def recv_concurrentFallbacks_Get : GM σo σc Int := do return (← Go.get).s.1.concFb
def recv_OpenToClose : GM σo σc Iface := pure {}
def recv_ClosedToOpen : GM σo σc Iface := pure {}

/-! ### the substitute clock: `c.timeNow()` -/
def recv_timeNow : GM σo σc GoTime := do
  let w ← Go.get
  let r := CM.now w.s
  Go.set { w with s := r.2 }
  return .at r.1

/-! ### time and context values -/
def GoTime.val : GoTime → Int
  | .zero => 0
  | .at t => t
def GoTime.m_Add (t : GoTime) (d : Dur) : GM σo σc GoTime := pure (.at (t.val + d))
def GoTime.m_Sub (t u : GoTime) : GM σo σc Dur := pure (t.val - u.val)
def GoTime.m_IsZero (t : GoTime) : GM σo σc Bool := pure (t == .zero)
def GoTime.m_Before (t u : GoTime) : GM σo σc Bool := pure (decide (t.val < u.val))

/-- `ctx.Err()`: only the caller's context is ever asked by circuit.go -/
def GoCtx.m_Err (_ : GoCtx) : GM σo σc Err := do return (← Go.get).callerErr.map ErrV.ctx

/-- `context.WithDeadline(parent, d)`: the earlier of the two deadlines; a release is now owed -/
def context_WithDeadline (_parent : GoCtx) (d : GoTime) : GM σo σc (GoCtx × Fn0) := do
  let w ← Go.get
  let dl := match w.caller.deadline with
    | some cd => if cd < d.val then cd else d.val
    | none => d.val
  Go.set { w with s := (w.s.1, { w.s.2 with released := some false }) }
  return (.derived dl, .release)

instance : Call0 (GM σo σc) Fn0 Unit where
  call f := match f with
    | .nilFn => Go.nilCall
    | .release => onSt fun s => (s.1, { s.2 with released := some true })

/-! ### package-level values and functions of package circuit that are not translated -/
def pkg_errCircuitOpen : Err := some .circuitOpen
def pkg_errThrottledConcurrentCommands : Err := some .concLimit
def lit_circuitError_concurrencyLimitReached_true : Err := some .concLimit
def pkg_IsBadRequest (e : Err) : GM σo σc Bool := pure (match e with | some e => e.isBad | none => false)

/-! ### collector fan-outs (closer, opener, configured collectors — in that order) -/
def recv_CmdMetricCollector_Success (_ : GoCtx) (t : GoTime) (d : Dur) : GM σo σc Unit := onSt fun s => emitRun L.O L.C s .success t.val d
def recv_CmdMetricCollector_ErrFailure (_ : GoCtx) (t : GoTime) (d : Dur) : GM σo σc Unit := onSt fun s => emitRun L.O L.C s .failure t.val d
def recv_CmdMetricCollector_ErrTimeout (_ : GoCtx) (t : GoTime) (d : Dur) : GM σo σc Unit := onSt fun s => emitRun L.O L.C s .timeout t.val d
def recv_CmdMetricCollector_ErrBadRequest (_ : GoCtx) (t : GoTime) (d : Dur) : GM σo σc Unit := onSt fun s => emitRun L.O L.C s .badRequest t.val d
def recv_CmdMetricCollector_ErrInterrupt (_ : GoCtx) (t : GoTime) (d : Dur) : GM σo σc Unit := onSt fun s => emitRun L.O L.C s .interrupt t.val d
def recv_CmdMetricCollector_ErrConcurrencyLimitReject (_ : GoCtx) (t : GoTime) : GM σo σc Unit := onSt fun s => emitRun L.O L.C s .reject t.val 0
def recv_CmdMetricCollector_ErrShortCircuit (_ : GoCtx) (t : GoTime) : GM σo σc Unit := onSt fun s => emitRun L.O L.C s .shortCircuit t.val 0
def recv_FallbackMetricCollector_Success (_ : GoCtx) (t : GoTime) (d : Dur) : GM σo σc Unit := onSt fun s => emitFb s .success t.val d
def recv_FallbackMetricCollector_ErrFailure (_ : GoCtx) (t : GoTime) (d : Dur) : GM σo σc Unit := onSt fun s => emitFb s .failure t.val d
def recv_FallbackMetricCollector_ErrConcurrencyLimitReject (_ : GoCtx) (t : GoTime) : GM σo σc Unit := onSt fun s => emitFb s .reject t.val 0
def recv_CircuitMetricsCollector_Opened (_ : GoCtx) (t : GoTime) : GM σo σc Unit := onSt fun s =>
  ({ s.1 with closer := L.C.onOpened s.1.closer t.val, opener := L.O.onOpened s.1.opener t.val }, { s.2 with emits := s.2.emits ++ [.opened t.val] })
def recv_CircuitMetricsCollector_Closed (_ : GoCtx) (t : GoTime) : GM σo σc Unit := onSt fun s =>
  ({ s.1 with closer := L.C.onClosed s.1.closer t.val, opener := L.O.onClosed s.1.opener t.val }, { s.2 with emits := s.2.emits ++ [.closed t.val] })

/-! ### the open/close logic behind its interfaces -/
def recv_OpenToClose_Allow (_ : GoCtx) (t : GoTime) : GM σo σc Bool := do
  let w ← Go.get
  let r := L.C.allow w.s.1.closer t.val
  Go.set { w with s := ({ w.s.1 with closer := r.1 }, w.s.2) }
  return r.2
def recv_OpenToClose_ShouldClose (_ : GoCtx) (t : GoTime) : GM σo σc Bool := do
  let w ← Go.get
  let r := L.C.shouldClose w.s.1.closer t.val
  Go.set { w with s := ({ w.s.1 with closer := r.1 }, w.s.2) }
  return r.2
def recv_ClosedToOpen_ShouldOpen (_ : GoCtx) (t : GoTime) : GM σo σc Bool := do
  let w ← Go.get
  let r := L.O.shouldOpen w.s.1.opener t.val
  Go.set { w with s := ({ w.s.1 with opener := r.1 }, w.s.2) }
  return r.2
def recv_ClosedToOpen_Prevent (_ : GoCtx) (t : GoTime) : GM σo σc Bool := do
  let w ← Go.get
  let r := L.O.prevent w.s.1.opener t.val
  Go.set { w with s := ({ w.s.1 with opener := r.1 }, w.s.2) }
  return r.2

/-! ### the user's functions (scripts): what calling `runFunc(ctx)` / `fallbackFunc(ctx, err)` does -/
def seenOf (w : World σo σc) : GoCtx → Seen
  | .caller => { deadline := w.caller.deadline, hasVal := w.caller.hasVal, err := w.caller.err, sameAsCaller := true }
  | .derived d => { deadline := some d, hasVal := w.caller.hasVal, err := w.caller.err, sameAsCaller := false }

def cancelBy (sc : Script) (e : Option CtxErr) : Option CtxErr :=
  match e with
  | some x => some x
  | none => if sc.cancelCaller then some .canceled else none

instance : Call1 (GM σo σc) RunFn GoCtx Err where
  call f g := match f with
    | none => Go.nilCall
    | some sc => do
      let w ← Go.get
      let after := cancelBy sc w.callerErr
      Go.set { w with s := ({ w.s.1 with clock := w.s.1.clock + sc.adv }, { w.s.2 with runSeen := some (seenOf w g) }), callerErr := after }
      match sc.act with
      | .panic v => Go.raise v
      | .ret e => return e
      | .retCtxErr => return after.map ErrV.ctx

instance : Call2 (GM σo σc) FbFn GoCtx Err Err where
  call f g e := match f with
    | none => Go.nilCall
    | some sc => do
      let w ← Go.get
      let after := cancelBy sc w.callerErr
      Go.set { w with s := ({ w.s.1 with clock := w.s.1.clock + sc.adv },
                               { w.s.2 with fbArg := e, fbSameCtx := (g == .caller) }), callerErr := after }
      match sc.act with
      | .panic v => Go.raise v
      | .ret r => return r
      | .retCtxErr => return after.map ErrV.ctx

/-! ### deferred calls -/
def runTok : Tok → GM σo σc Unit
  | .cancel => Call0.call Fn0.release
  | .prim "recv_concurrentCommands_Add (-1)" => do let _ ← recv_concurrentCommands_Add (σo := σo) (σc := σc) (-1)
  | .prim "recv_concurrentFallbacks_Add (-1)" => do let _ ← recv_concurrentFallbacks_Add (σo := σo) (σc := σc) (-1)
  | .prim "recv_transitionMu_Unlock" => pure ()
  | .prim "recv_notThreadSafeConfigMu_Unlock" => pure ()
  | .prim _ => Go.modify fun w => { w with stuck := true }

/-- `defer f()` for a local func value: the value is captured now -/
def deferCall0 (f : Fn0) : GM σo σc Unit :=
  match f with
  | .release => Go.pushDefer .cancel
  | .nilFn => Go.pushDefer (.prim "nil-func")      -- Go panics when the deferred nil func runs; not reachable here

def deferPrim (call : String) : GM σo σc Unit := Go.pushDefer (.prim call)

/-- a function of the package -/
def fn (body : GM σo σc α) : GM σo σc α := Go.goFunc runTok body

end
end CM.GoCircuit

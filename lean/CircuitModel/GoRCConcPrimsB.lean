/- GoRCConcPrimsB.lean — unit B of GoRCConcPrims: `RollingBuckets.Advance`; its `clearBucket func(int)` argument is the
   counter's own `clearBucket` AS TRANSLATED TODAY (unit K). -/
import CircuitModel.GoRCConcPrims
import Generated.GoRCIClear.F_clearBucket
namespace CM.GoRCI.B
open CM CM.Go CM.Conc CM.Conc.RC CM.GoRCI

def recv_NumBuckets : IM Int := rd fun g => (g.sh.n : Int)
def recv_StartTime : IM Int := pure 0
def recv_BucketWidth_Nanoseconds : IM Int := rd (·.w)
def recv_LastAbsIndex_Get : IM Int := atomicOp fun s => (s, (s.last : Int), .load .last s.last)
def recv_LastAbsIndex_CompareAndSwap (old new : Int) : IM Bool := atomicOp fun s =>
  if (s.last : Int) = old then ({ s with last := new.toNat }, true, .cas .last old new true)
  else (s, false, .cas .last old new false)
instance : Call1 IM ClearFn Int Unit where
  call _ idx := CM.Generated.GoRCIClear.go_clearBucket idx

end CM.GoRCI.B

/-
  GoRollingPercentilePrims.lean — what the names in faststats/rolling_percentile.go (`RollingPercentile`'s methods, the
  `durationsBucket` inside it) and — once more — in `RollingBuckets.Advance` MEAN in terms of the models `RP` / `DSlot`
  (RollingPercentile.lean).  Three units share this file:
    B  `Advance` over the percentile ring: the clear callback is `RP.clearSlot` (tied to `RollingPercentile.clearBucket`)
    P  `RollingPercentile.{SortedDurations, clearBucket, AddDuration, Reset}`: `r.rollingBucket.Advance(now, r.clearBucket)` is
       the model's `RP.advance` (tied to the translated `Advance` in unit B); a bucket's methods are `DSlot`'s (tied in unit D)
    D  `durationsBucket.{Durations, clear, addDuration}` over one `DSlot`
  CompareAndSwap has its sequential meaning; `sort.Slice(x, func(i, j) { return x[i] < x[j] })` is an insertion sort by the
  given value order (any correct sort yields the same list of integers); an index outside a slice is where Go would
  panic: here the model's conventions apply (reads give nothing, writes do nothing) and the ties are stated for states
  where that cannot happen.
  Hand-written, trusted; the bodies are regenerated.
-/
import CircuitModel.RollingPercentile
import CircuitModel.GoConsumerPrims
namespace CM.GoRP
open CM CM.Go

abbrev PM := M RP NoTok
abbrev SLM := M DSlot NoTok

def goRange (n : Int) : List Int := (List.range n.toNat).map Int.ofNat
def goDiv (a b : Int) : Int := tdiv a b
def goMod (a b : Int) : Int := Int.tmod a b
def goMakeZeros (n : Int) : List Int := List.replicate n.toNat 0
def goSet (l : List Int) (i v : Int) : List Int := l.set i.toNat v
def goAt (l : List Int) (i : Int) : Int := l.getD i.toNat 0
def goLen (l : List α) : Int := l.length
instance : GoNil (List α) := ⟨[]⟩

/-- insertion sort by a strict value order -/
def insertBy (lt : Int → Int → Bool) (x : Int) : List Int → List Int
  | [] => [x]
  | y :: ys => if !(lt y x) then x :: y :: ys else y :: insertBy lt x ys
def goSortBy (lt : Int → Int → Bool) : List Int → List Int
  | [] => []
  | x :: xs => insertBy lt x (goSortBy lt xs)

inductive ClearFn where
  | ring
  deriving Repr, DecidableEq
def idxOf : Option Nat → Int
  | none => -1
  | some i => i

namespace B
def fn (body : PM α) : PM α := goFunc noTok body
def goOutOfFuel : PM α := Go.nilCall
def pkg_int (x : Int) : PM Int := pure x
def pkg_int64 (x : Int) : PM Int := pure x
def recv_NumBuckets : PM Int := rd fun r => (r.n : Int)
def recv_StartTime : PM Int := pure 0
def recv_BucketWidth_Nanoseconds : PM Int := rd (·.w)
def recv_LastAbsIndex_Get : PM Int := rd fun r => (r.last : Int)
def recv_LastAbsIndex_CompareAndSwap (old new : Int) : PM Bool :=
  updRet fun r => if (r.last : Int) = old then ({ r with last := new.toNat }, true) else (r, false)
instance : Call1 PM ClearFn Int Unit where
  call _ idx := upd fun r => r.clearSlot idx.toNat
end B

namespace P
def fn (body : PM α) : PM α := goFunc noTok body
def pkg_int (x : Int) : PM Int := pure x
def pkg_int64 (x : Int) : PM Int := pure x
def recvMethod_clearBucket : ClearFn := .ring
def recv_buckets : PM (List DSlot) := rd (·.slots)
def recv_rollingBucket_Advance (now : Int) (_ : ClearFn) : PM Int := updRet fun r => ((r.advance now).1, idxOf (r.advance now).2)
def recv_rollingBucket_NumBuckets : PM Int := rd fun r => (r.n : Int)
def recv_buckets_at_addDuration (idx d : Int) : PM Unit := upd fun r =>
  match r.slots[idx.toNat]? with
  | some s => { r with slots := r.slots.set idx.toNat (s.add d) }
  | none => r
def recv_buckets_at_clear (idx : Int) : PM Unit := upd fun r => r.clearSlot idx.toNat
def recv_buckets_at_Durations (idx : Int) : PM (List Int) := rd fun r => ((r.slots[idx.toNat]?).map DSlot.durations).getD []
end P

namespace D
def fn (body : SLM α) : SLM α := goFunc noTok body
def pkg_int (x : Int) : SLM Int := pure x
def pkg_int64 (x : Int) : SLM Int := pure x
def recv_currentIndex_Get : SLM Int := rd fun s => (s.cur : Int)
def recv_currentIndex_Add (n : Int) : SLM Int := updRet fun s => ({ s with cur := ((s.cur : Int) + n).toNat }, (s.cur : Int) + n)
def recv_currentIndex_Set (n : Int) : SLM Unit := upd fun s => { s with cur := n.toNat }
def recv_durationsSomeInvalid : SLM (List Int) := rd (·.arr)
def recv_durationsSomeInvalid_at_Duration (i : Int) : SLM Int := rd fun s => s.arr.getD i.toNat 0
def recv_durationsSomeInvalid_at_Set (i v : Int) : SLM Unit := upd fun s => { s with arr := s.arr.set i.toNat v }
end D

end CM.GoRP

/-
  GoSetCfgPrims.lean — `Circuit.SetConfigThreadSafe`, `SetConfigNotThreadSafe`, `Config` (circuit.go): what the names mean.
  The state is the part of a circuit these functions write: the stored config, the live mirror (through
  `atomicCircuitConfig.reset`, whose own body is tied in unit GoLiveCfg), the two logic objects and the three collector
  lists.  Objects are identities (`Obj`): a logic object made by the k-th factory call, or a configured collector;
  `as_Configurable` answers from the object's `conf` flag.  What a Configurable object is told is logged.
  Hand-written, trusted; the bodies are regenerated (Generated/GoSetCfg/F_*.lean).
-/
import CircuitModel.GoLiveCfgPrims
import CircuitModel.GoConsumerPrims
namespace CM.GoSetCfg
open CM CM.Go

structure Obj where
  kind : Nat          -- 0 = closer made by a factory, 1 = opener made by a factory, 2 = configured collector
  id : Nat            -- factory call number / collector number
  conf : Bool         -- implements Configurable
  deriving Repr, DecidableEq

/-- a `circuit.Config` value as these functions see it -/
structure CfgB where
  tag : Nat                               -- identity of the value (what `Config()` returns later)
  f_General_GoLostErrors : Nat            -- identities of the two hooks
  f_General_TimeKeeper_Now : Nat
  closerConf : Bool                       -- do the objects its factories make implement Configurable?
  openerConf : Bool
  f_Metrics_Run : List Obj
  f_Metrics_Fallback : List Obj
  f_Metrics_Circuit : List Obj
  live : GoLiveCfg.GoConfig               -- the mirrored settings

inductive Told where
  | threadSafe (o : Obj) (cfg : Nat)
  | notThreadSafe (o : Obj) (cfg : Nat)
  deriving Repr, DecidableEq

structure BuildW where
  stored : Nat := 0
  storedCfg : Option CfgB := none
  live : LiveCfg := {}
  lostErrors : Nat := 0
  timeNow : Nat := 0
  closer : Obj := ⟨0, 0, false⟩
  opener : Obj := ⟨1, 0, false⟩
  made : Nat := 0                          -- factory calls so far
  run : List Obj := []
  fb : List Obj := []
  circ : List Obj := []
  told : List Told := []
  stuck : Bool := false

abbrev BM := M BuildW String
def runTok : String → BM Unit
  | "recv_notThreadSafeConfigMu_Unlock" => pure ()
  | _ => fun g => (.ok (), { g with st := { g.st with stuck := true } })
def deferPrim (call : String) : BM Unit := Go.pushDefer call
def fn (body : BM α) : BM α := goFunc runTok body

def recv_notThreadSafeConfigMu_Lock : BM Unit := pure ()
def recv_notThreadSafeConfigMu_Unlock : BM Unit := pure ()
def recv_notThreadSafeConfig_set (c : CfgB) : BM Unit := upd fun w => { w with stored := c.tag, storedCfg := some c }
/-- reading the stored config back (only after it was set in these functions) -/
def recv_notThreadSafeConfig : BM CfgB := fun g =>
  match g.st.storedCfg with
  | some c => (.ok c, g)
  | none => (.nilCall, g)
/-- `c.threadSafeConfig.reset(cfg)`: see GoLiveCfg (`go_reset_eq`) -/
def recv_threadSafeConfig_reset (c : CfgB) : BM Unit := upd fun w => { w with live := GoLiveCfg.liveOf c.live w.live.iei }
def recv_goroutineWrapper_lostErrors_set (h : Nat) : BM Unit := upd fun w => { w with lostErrors := h }
def recv_timeNow_set (h : Nat) : BM Unit := upd fun w => { w with timeNow := h }
def recv_OpenToClose : BM Obj := rd (·.closer)
def recv_ClosedToOpen : BM Obj := rd (·.opener)
def recv_OpenToClose_set (o : Obj) : BM Unit := upd fun w => { w with closer := o }
def recv_ClosedToOpen_set (o : Obj) : BM Unit := upd fun w => { w with opener := o }
def CfgB.m_General_OpenToClosedFactory (c : CfgB) : BM Obj := updRet fun w => ({ w with made := w.made + 1 }, ⟨0, w.made, c.closerConf⟩)
def CfgB.m_General_ClosedToOpenFactory (c : CfgB) : BM Obj := updRet fun w => ({ w with made := w.made + 1 }, ⟨1, w.made, c.openerConf⟩)
def as_Configurable (o : Obj) : BM (Obj × Bool) := pure (o, o.conf)
def Obj.m_SetConfigThreadSafe (o : Obj) (c : CfgB) : BM Unit := upd fun w => { w with told := w.told ++ [.threadSafe o c.tag] }
def Obj.m_SetConfigNotThreadSafe (o : Obj) (c : CfgB) : BM Unit := upd fun w => { w with told := w.told ++ [.notThreadSafe o c.tag] }
def recv_CmdMetricCollector : BM (List Obj) := rd (·.run)
def recv_CmdMetricCollector_set (l : List Obj) : BM Unit := upd fun w => { w with run := l }
def recv_FallbackMetricCollector_set (l : List Obj) : BM Unit := upd fun w => { w with fb := l }
def recv_CircuitMetricsCollector : BM (List Obj) := rd (·.circ)
def recv_CircuitMetricsCollector_set (l : List Obj) : BM Unit := upd fun w => { w with circ := l }

/-! ### statement side -/
def toldIf (b : Bool) (t : Told) : List Told := if b then [t] else []

/-- `SetConfigThreadSafe(cfg)`: the config is stored, EVERY mirrored setting is published, Configurable logic is told
    (closer first); collectors, logic objects, hooks stay -/
def BuildW.setLive (w : BuildW) (c : CfgB) : BuildW :=
  { w with stored := c.tag, storedCfg := some c, live := GoLiveCfg.liveOf c.live w.live.iei,
           told := w.told ++ toldIf w.closer.conf (.threadSafe w.closer c.tag) ++ toldIf w.opener.conf (.threadSafe w.opener c.tag) }

/-- `SetConfigNotThreadSafe(cfg)`: hooks taken from the config, BOTH logic objects made afresh by the factories (closer
    first) and configured, the three collector lists REBUILT (not extended): closer, opener, then the configured ones in
    their order; then everything `SetConfigThreadSafe` does -/
def BuildW.rebuild (w : BuildW) (c : CfgB) : BuildW :=
  let cl : Obj := ⟨0, w.made, c.closerConf⟩
  let op : Obj := ⟨1, w.made + 1, c.openerConf⟩
  BuildW.setLive
    { w with stored := c.tag, storedCfg := some c, lostErrors := c.f_General_GoLostErrors, timeNow := c.f_General_TimeKeeper_Now,
             closer := cl, opener := op, made := w.made + 2,
             run := [cl, op] ++ c.f_Metrics_Run, fb := c.f_Metrics_Fallback, circ := [cl, op] ++ c.f_Metrics_Circuit,
             told := w.told ++ toldIf cl.conf (.notThreadSafe cl c.tag) ++ toldIf op.conf (.notThreadSafe op c.tag) } c

end CM.GoSetCfg

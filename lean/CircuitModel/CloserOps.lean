/- CloserOps.lean — running the hystrix closer model over the op language of Spec/C03 -/
import CircuitModel.Logic
import CircuitModel.Spec.C03
namespace CM
open SpecC03

/-- one step; `some b` is the answer of Allow / ShouldClose -/
def clstep (c : HCloser) : ClOp → HCloser × Option Bool
  | .ev k t => (c.onRun k t 0, none)
  | .opened t => (c.transition t, none)
  | .closed t => (c.transition t, none)
  | .allow t => let (tc, b) := c.tc.check t; ({ c with tc := tc }, some b)
  | .shouldClose _ => (c, some (decide (c.succ ≥ c.required)))
  | .fire k => ({ c with tc := c.tc.fire k }, none)
  | .cfg s h r => ({ c with tc := { c.tc with sleep := s, allow := h }, required := r }, none)

def clrun (c : HCloser) : List ClOp → List (Option Bool)
  | [] => []
  | op :: ops => let (c', o) := clstep c op; o :: clrun c' ops

def clexec (c : HCloser) (ops : List ClOp) : HCloser := ops.foldl (fun c op => (clstep c op).1) c

def HCloser.init (sleep half req : Int) : HCloser := { tc := { sleep := sleep, allow := half }, required := req }

end CM

import CircuitModel.Conc.GoWrap
import CircuitModel.Basic
namespace CM
open Conc.GoWrap

def parseOutcome (s : String) : Option Outcome :=
  if s == "nil" then some (.ret none)
  else if s.startsWith "panic" then ((s.drop 5).toString.toNat?).map .panic
  else if s.startsWith "e" then ((s.drop 1).toString.toNat?).map fun n => .ret (some n)
  else none

def Conc.GoWrap.Outcome.fmt : Outcome → String
  | .ret none => "nil" | .ret (some n) => s!"e{n}" | .panic v => s!"panic{v}"

def fmtFinal (f : Option CallerResult × List Outcome) : String :=
  let c := match f.1 with | some (.fn o) => "fn:" ++ o.fmt | some .ctxErr => "ctx" | none => "blocked"
  s!"caller={c} lost=[{",".intercalate (f.2.map Outcome.fmt)}]"

/-- suite `gowrap` (K4): op line `go out=(nil|eN|panicN) finish=(0|1) ctx=(none|pre|during|after|race) lost=(0|1) …`;
    the REAL observation is `caller=… lost=[…] prompt=(0|1) leak=(0|1|x)`.
    model column: the real observation if the model allows it (`allowedFinal`), else the allowed set;
    spec column: the property's sentences judged on the real observation. -/
def suiteGoWrap (_kvs : List (String × String)) (lines : List (String × String)) : List String :=
  lines.map fun (line, real) =>
    let kvs := parseKVs ((line.splitOn " ").tail)
    match parseOutcome ((kvGet kvs "out").getD "nil") with
    | none => "bad-op\t-"
    | some out =>
      let ctx := (kvGet kvs "ctx").getD "none"
      let finish := kvBool kvs "finish" true
      let sc : Scenario := { outcome := out, fnMayFinish := finish, ctxMayEnd := ctx != "none" && ctx != "late" && ctx != "after",
                             ctxEndedAtStart := ctx == "pre", lostErrors := kvBool kvs "lost" false }
      let allowed := (allowedFinal sc).map fmtFinal
      let rk := parseKVs (real.splitOn " ")
      let obs := s!"caller={(kvGet rk "caller").getD "?"} lost={(kvGet rk "lost").getD "?"}"
      -- in the `during` scenario the harness ends the context while the function is blocked, so the function's own
      -- result cannot be what the caller gets
      let allowed' := if ctx == "during" then allowed.filter (fun a => !(a.startsWith "caller=fn")) else allowed
      let m := if allowed'.contains obs then real else "not-allowed-by-model: allowed=" ++ " | ".intercalate allowed'
      -- spec verdicts on the real observation
      let caller := (kvGet rk "caller").getD "?"
      let lostTxt := (kvGet rk "lost").getD "[]"
      let lostN := if lostTxt == "[]" then 0 else (lostTxt.splitOn ",").length
      let surfacedN := (if caller.startsWith "fn" then 1 else 0) + lostN
      let v : Option String :=
        if (kvGet rk "prompt") == some "0" then some "Go did not return promptly"
        else if caller == "blocked" then some "Go did not return"
        else if caller.startsWith "fn" ∧ caller != "fn:" ++ out.fmt then some "Go returned something that is neither the function's outcome nor the context's error"
        else if !(caller.startsWith "fn") ∧ caller != "ctx" then some "Go returned something that is neither the function's outcome nor the context's error"
        else if caller == "ctx" ∧ (ctx == "none" ∨ ctx == "late" ∨ ctx == "after") then some "context error although the context had not ended"
        else if surfacedN > 1 then some "the outcome was surfaced more than once"
        else if lostN > 0 ∧ lostTxt != "[" ++ out.fmt ++ "]" then some "GoLostErrors was told something that is not the function's outcome"
        else if lostN > 0 ∧ !sc.lostErrors then some "lost report without GoLostErrors"
        else if sc.lostErrors ∧ finish ∧ surfacedN != 1 then some "GoLostErrors configured but the finished function's outcome was not surfaced exactly once"
        else if (kvGet rk "leak") == some "1" then some "a helper goroutine outlived the wrapped function"
        else none
      -- C10 speaks about panics reaching Go's caller (while the context has not ended) with the same value
      let isPanic := match out with | .panic _ => true | _ => false
      let c10 : Option String :=
        if isPanic && (ctx == "none" || ctx == "late" || ctx == "after") && caller != "fn:" ++ out.fmt then
          some "a panic raised under Go did not reach the caller with its value although the context had not ended"
        else none
      -- the function is always started (C18: its outcome must be surfaced; C08: pass-through circuits RUN the function)
      let notStarted := (kvGet rk "started") == some "0"
      let passThrough := kvBool kvs "nilc" false || kvBool kvs "dis" false
      let v := v.orElse fun _ => if notStarted then some "the wrapped function was never started" else none
      let c08 : Option String := if notStarted && passThrough then some "Go on a nil / zero-value / Disabled circuit did not run the function" else none
      -- C07: a fallback always receives the caller's own context; so does a run function when no timeout context is derived
      let expectSame := (kvGet kvs "fn") == some "fb" || (kvGet kvs "via") != some "timeout"
      let c07 : Option String := if expectSame && (kvGet rk "same") == some "0" then some "under Go the function did not receive the caller's own context" else none
      let parts := (match c07 with | none => [] | some msg => ["C07:" ++ msg]) ++ (match v with | none => [] | some msg => ["C18:" ++ msg]) ++ (match c10 with | none => [] | some msg => ["C10:" ++ msg]) ++ (match c08 with | none => [] | some msg => ["C08:" ++ msg])
      m ++ "\t" ++ (if parts.isEmpty then "-" else "!" ++ "|".intercalate parts)

end CM

/-
  GoErrsPrims.lean — primitives for five small units (translated bodies: Generated/Go{IsBadRequest,CircuitError,
  SimpleBadRequest,AtomicBoolean,AtomicInt64}/F_*.lean):

    GoIsBadRequest      errors.go  IsBadRequest                        state: the cells of address-taken locals
    GoCircuitError      errors.go  (*circuitError).Error / ConcurrencyLimitReached / CircuitOpen,
                                   + the two package-level sentinels errThrottledConcurrentCommands / errCircuitOpen
                                   (their struct literals are translated too: F_var_*.lean)        state: the receiver
    GoSimpleBadRequest  errors.go  SimpleBadRequest.Cause / Error / BadRequest                     state: the receiver
    GoAtomicBoolean     faststats/atomic.go  (*AtomicBoolean).Get / Set / String                   state: the embedded atomic.Bool
    GoAtomicInt64       faststats/atomic.go  (*AtomicInt64).Get / Set / Duration / String          state: the embedded atomic.Int64

  What is trusted here (hand-written, small, meant to be read next to the Go standard library):
   * `EV`: the SHAPES of error values that `errors.As` and `Error()` can tell apart — a tree, because errors wrap errors.
   * `firstBadRequest`: Go 1.20+'s `errors.As(err, &br)` for a target of interface type `BadRequest`
     ($GOROOT/src/errors/wrap.go, func `as`): depth-first, pre-order; the first value in the tree whose dynamic type
     has a `BadRequest() bool` method wins; `Unwrap() error` is followed (a nil result ends the search), the elements of
     `Unwrap() []error` are tried left to right (nil elements skipped).  `Cause()` is NOT followed (errors.As does not know it).
     Error types with their own `As(any) bool` method and typed-nil pointers are outside this model.
   * the heap of cells (`goVarNew` / `goVarLoad`): what `var br BadRequest … &br … br` means (see tools/extract/gotrans/units_errs.go).
   * `fmtGo`: `fmt.Sprintf` for the verbs `%s` (string argument) and `%t` (bool argument) — nothing else.
   * `atomic.Bool` / `atomic.Int64` ($GOROOT/src/sync/atomic/type.go): `Load() = LoadUint32(&x.v) != 0`,
     `Store(b) = StoreUint32(&x.v, b32(b))` with b32(true)=1, b32(false)=0;  `Load() = LoadInt64(&x.v)`, `Store(n) = StoreInt64(&x.v, n)`.
  Core Lean only.
-/
import CircuitModel.GoConsumerPrims
namespace CM.GoErrs
open CM CM.Go

/-! ### error values -/

/-- an error VALUE (what an `error` interface variable holds), by the shape of its dynamic type -/
inductive EV where
  /-- the nil interface -/
  | nil
  /-- `errors.New(msg)`, a context sentinel, … : no `BadRequest`, no `Unwrap` -/
  | plain (msg : String)
  /-- the library's `*circuitError{concurrencyLimitReached, circuitOpen, msg}` -/
  | circuit (concurrencyLimitReached circuitOpen : Bool) (msg : String)
  /-- `SimpleBadRequest{Err: cause}` (or a pointer to one): has `BadRequest()` and `Cause()`, NO `Unwrap()` -/
  | simpleBad (cause : EV)
  /-- a caller's own type with a `BadRequest() bool` method that returns `answer` -/
  | userBad (answer : Bool) (msg : String)
  /-- a type with `Unwrap() error` returning `inner` (possibly nil): `fmt.Errorf("…%w…", inner)`, a caller's wrapper -/
  | wrap (msg : String) (inner : EV)
  /-- a type with `Unwrap() []error` returning `errs` (nil elements possible): `errors.Join`, `fmt.Errorf` with several `%w` -/
  | join (msg : String) (errs : List EV)
  deriving Repr

instance : IsNil EV := ⟨fun | .nil => true | _ => false⟩
instance : GoNil EV := ⟨.nil⟩
instance : GoZero EV := ⟨.nil⟩

/-- a value of interface type `BadRequest`: nil, or one of the shapes that have the method -/
inductive BRV where
  | nil
  | simpleBad (cause : EV)
  | userBad (answer : Bool) (msg : String)
  deriving Repr

instance : IsNil BRV := ⟨fun | .nil => true | _ => false⟩

mutual
/-- `errors.As(err, &br)` with `br` of interface type `BadRequest`: the value it would store (`.nil` = it returns false).
    The loop of `errors.as`: assignable ⇒ found; else `Unwrap() error` ⇒ continue with the result (nil ⇒ false); else
    `Unwrap() []error` ⇒ each non-nil element in order, recursively; else false. -/
def firstBadRequest : EV → BRV
  | .nil => .nil
  | .plain _ => .nil
  | .circuit _ _ _ => .nil
  | .simpleBad c => .simpleBad c
  | .userBad a m => .userBad a m
  | .wrap _ inner => firstBadRequest inner
  | .join _ errs => firstBadRequestL errs
def firstBadRequestL : List EV → BRV
  | [] => .nil
  | e :: es => match firstBadRequest e with
    | .nil => firstBadRequestL es
    | found => found
end

/-- what `br.BadRequest()` answers (dynamic dispatch); the nil interface has no answer -/
def BRV.answer : BRV → Bool
  | .nil => false
  | .simpleBad _ => true      -- SimpleBadRequest.BadRequest: tied in unit GoSimpleBadRequest (`go_BadRequest = pure true`)
  | .userBad a _ => a

/-- SPEC of `IsBadRequest`: the first BadRequest implementer found by the As-search exists and answers true -/
def isBadRequest (err : EV) : Bool :=
  match firstBadRequest err with
  | .nil => false
  | found => found.answer

/-! ### `fmt.Sprintf`, verbs %s and %t -/
inductive FmtArg where
  | s (v : String)
  | t (v : Bool)

def boolStr (b : Bool) : String := if b then "true" else "false"

/-- `none`: a verb other than %s / %t, a verb whose argument has the other type, a missing argument or a left-over one
    (Go prints `%!…` markers there; not modelled) -/
def fmtGo : List Char → List FmtArg → Option (List Char)
  | '%' :: 's' :: r, .s v :: as => (fmtGo r as).map (v.toList ++ ·)
  | '%' :: 't' :: r, .t v :: as => (fmtGo r as).map ((boolStr v).toList ++ ·)
  | '%' :: _, _ => none
  | c :: r, as => (fmtGo r as).map (c :: ·)
  | [], [] => some []
  | [], _ :: _ => none

/-- `(*circuitError).Error()` as a string function (SPEC of that method) -/
def circuitErrorString (msg : String) (concurrencyLimitReached circuitOpen : Bool) : String :=
  msg ++ ": concurrencyReached=" ++ boolStr concurrencyLimitReached ++ " circuitOpen=" ++ boolStr circuitOpen

/-- what `e.Error()` returns; `none` = the call panics (nil interface / nil dereference) -/
def EV.errorStr : EV → Option String
  | .nil => none
  | .plain m => some m
  | .circuit c o m => some (circuitErrorString m c o)   -- tied: GoCircuitError.go_Error
  | .simpleBad cause => cause.errorStr                   -- tied: GoSimpleBadRequest.go_Error
  | .userBad _ m => some m
  | .wrap m _ => some m
  | .join m _ => some m

/-- a string result, or Go's runtime panic -/
def outStr : Option String → Out String
  | some s => .ok s
  | none => .nilCall

/-! ### unit GoIsBadRequest: the state is the heap of cells of type `BadRequest` -/
namespace IsBad
/-- a cell = its index in the heap -/
structure Ref where
  idx : Nat
  deriving Repr, DecidableEq

abbrev HM := M (List BRV) NoTok
def fn (body : HM α) : HM α := goFunc noTok body

/-- the zero value of interface type `BadRequest` -/
def pkg_goZero_BadRequest : BRV := .nil
/-- `var x T` of an address-taken local: a fresh cell holding the zero value -/
def pkg_goVarNew (zero : BRV) : HM Ref := fun g => (.ok ⟨g.st.length⟩, { g with st := g.st ++ [zero] })
/-- a use of the variable: the cell's content now -/
def pkg_goVarLoad (r : Ref) : HM BRV := fun g =>
  match g.st[r.idx]? with
  | some v => (.ok v, g)
  | none => (.nilCall, g)
/-- `errors.As(err, &br)`: false for a nil error; otherwise the search; on success the found value is stored in the cell -/
def errors_As (err : EV) (target : Ref) : HM Bool := fun g =>
  if isNil err then (.ok false, g)
  else match firstBadRequest err with
    | .nil => (.ok false, g)
    | found => (.ok true, { g with st := g.st.set target.idx found })
/-- `br.BadRequest()`: on the nil interface Go panics -/
def _root_.CM.GoErrs.BRV.m_BadRequest (b : BRV) : HM Bool :=
  match b with
  | .nil => Go.nilCall
  | found => pure found.answer
end IsBad

/-! ### unit GoCircuitError: the state is the receiver -/
namespace CE
/-- `type circuitError struct { concurrencyLimitReached bool; circuitOpen bool; msg string }` (defaults = Go's zero values) -/
structure circuitError where
  concurrencyLimitReached : Bool := false
  circuitOpen : Bool := false
  msg : String := ""
  deriving Repr, DecidableEq

/-- the error value a `*circuitError` is -/
def circuitError.toEV (c : circuitError) : EV := .circuit c.concurrencyLimitReached c.circuitOpen c.msg

abbrev CEM := M circuitError NoTok
def fn (body : CEM α) : CEM α := goFunc noTok body
def recv_concurrencyLimitReached : CEM Bool := rd (·.concurrencyLimitReached)
def recv_circuitOpen : CEM Bool := rd (·.circuitOpen)
def recv_msg : CEM String := rd (·.msg)
/-- `fmt.Sprintf(format, string, bool, bool)`; a format outside `fmtGo` is a stuck outcome -/
def fmt_Sprintf (format : String) (a : String) (b c : Bool) : CEM String :=
  match fmtGo format.toList [.s a, .t b, .t c] with
  | some l => pure (String.ofList l)
  | none => Go.nilCall
end CE

/-! ### unit GoSimpleBadRequest: the state is the receiver (a VALUE receiver: the methods cannot change it) -/
namespace SB
/-- `type SimpleBadRequest struct { Err error }` -/
structure SimpleBadRequest where
  Err : EV := .nil
  deriving Repr

def SimpleBadRequest.toEV (s : SimpleBadRequest) : EV := .simpleBad s.Err

abbrev SBM := M SimpleBadRequest NoTok
def fn (body : SBM α) : SBM α := goFunc noTok body
def recv_Err : SBM EV := rd (·.Err)
/-- `s.Err.Error()`: dynamic dispatch on the wrapped error; a nil `Err` is a nil-interface call, Go panics -/
def recv_Err_Error : SBM String := fun g => (outStr g.st.Err.errorStr, g)
end SB

end CM.GoErrs

/-! ### faststats/atomic.go -/
namespace CM.GoAtomic
open CM CM.Go

/-- `strconv.FormatBool` -/
def strconv_FormatBool (b : Bool) : M σ tok String := pure (if b then "true" else "false")
/-- `strconv.FormatInt(n, 10)` (decimal, leading '-' for negatives, as Lean's `toString` on `Int`); other bases: stuck -/
def strconv_FormatInt (n : Int) (base : Int) : M σ tok String := if base = 10 then pure (toString n) else Go.nilCall

namespace B
/-- `sync/atomic.Bool`: `struct { _ noCopy; v uint32 }` — the state is that word -/
structure AtomicBool where
  v : Nat := 0
  deriving Repr, DecidableEq
/-- `b32` of sync/atomic/type.go -/
def b32 (b : Bool) : Nat := if b then 1 else 0
/-- the boolean the word stands for -/
def AtomicBool.val (a : AtomicBool) : Bool := a.v != 0

abbrev ABM := M AtomicBool NoTok
def fn (body : ABM α) : ABM α := goFunc noTok body
/-- `func (x *Bool) Load() bool { return LoadUint32(&x.v) != 0 }` — one atomic load -/
def recv_Load : ABM Bool := rd (fun a => a.v != 0)
/-- `func (x *Bool) Store(val bool) { StoreUint32(&x.v, b32(val)) }` — one atomic store -/
def recv_Store (b : Bool) : ABM Unit := upd (fun _ => { v := b32 b })
end B

namespace I
/-- `sync/atomic.Int64`: `struct { _ noCopy; _ align64; v int64 }` — the state is that word -/
structure AtomicI64 where
  v : Int := 0
  deriving Repr, DecidableEq

abbrev AIM := M AtomicI64 NoTok
def fn (body : AIM α) : AIM α := goFunc noTok body
/-- `func (x *Int64) Load() int64 { return LoadInt64(&x.v) }` — one atomic load -/
def recv_Load : AIM Int := rd (·.v)
/-- `func (x *Int64) Store(val int64) { StoreInt64(&x.v, val) }` — one atomic store -/
def recv_Store (n : Int) : AIM Unit := upd (fun _ => { v := n })
/-- the conversion `time.Duration(n)` of an int64: the same 64 bits -/
def time_Duration (n : Int) : AIM Int := pure n
end I

end CM.GoAtomic

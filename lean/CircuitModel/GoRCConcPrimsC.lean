/- GoRCConcPrimsC.lean — unit C of GoRCConcPrims: the counter's operations; `r.rollingBucket.Advance(now, r.clearBucket)`
   is `Advance` AS TRANSLATED TODAY (unit B), `r.clearBucket(i)` is unit K's. -/
import CircuitModel.GoRCConcPrimsB
import Generated.GoRCIAdv.F_Advance
namespace CM.GoRCI.C
open CM CM.Go CM.Conc CM.Conc.RC CM.GoRCI

def recvMethod_clearBucket : ClearFn := .counter
def recv_clearBucket (idx : Int) : IM Unit := CM.Generated.GoRCIClear.go_clearBucket idx
def recv_totalSum_Add (n : Int) : IM Int := atomicOp fun s => ({ s with total := s.total + n }, s.total + n, .add .total n (s.total + n))
def recv_totalSum_Get : IM Int := atomicOp fun s => (s, s.total, .load .total s.total)
def recv_rollingSum_Add := addRolling
def recv_rollingSum_Get : IM Int := atomicOp fun s => (s, s.rolling, .load .rolling s.rolling)
/-- `len(r.buckets)` / `range r.buckets`: the slice header is immutable; only its length is used without a step -/
def recv_buckets : IM (List Int) := rd fun g => List.replicate g.sh.n 0
def recv_buckets_at_Add := addBucket
def recv_buckets_at_Swap := swapBucket
def recv_buckets_at_Get := getBucket
def recv_rollingBucket_Advance (now : Int) (f : ClearFn) : IM Int := do
  let k ← rd (·.fuel)
  CM.Generated.GoRCIAdv.go_Advance k now f
def recv_rollingBucket_LastAbsIndex_Get : IM Int := B.recv_LastAbsIndex_Get
def recv_rollingBucket_NumBuckets : IM Int := B.recv_NumBuckets

end CM.GoRCI.C

import CircuitModel.RollingCounter
import CircuitModel.Spec.C13
namespace CM

def parseRCOp (line : String) : Option RCOp :=
  match line.splitOn " " with
  | ["inc", d] => d.toInt?.map .inc
  | ["sum", d] => d.toInt?.map .sum
  | ["bk", d] => d.toInt?.map .bk
  | ["str", d] => d.toInt?.map .bk      -- StringAt(now): the same window movement as GetBuckets(now); see `isStr`
  | ["reset", d] => d.toInt?.map .reset
  | ["total"] => some .total
  | ["json"] => some .json
  | _ => none

def RCOut.fmt : RCOut → String
  | .ok => "ok"
  | .int v => toString v
  | .ints l => fmtInts l
  | .panic => "panic"

/-- driver-level operations around the modelled ones: `snap` keeps a JSON snapshot of the counter, `restore` unmarshals the
    kept snapshot INTO THE LIVE counter (which may have moved on since): afterwards the counter is in the snapshot's state,
    and the property's history is the history up to the snapshot -/
inductive RCLine where
  | op (o : RCOp) | snap | restore

def parseRCLine (line : String) : Option RCLine :=
  if line == "snap" then some .snap else if line == "restore" then some .restore else (parseRCOp line).map .op

/-- model and spec outputs, line by line; state = (model counter, reversed history, kept snapshot of both) -/
def rcLines (n : Nat) (w : Int) : RC → List RCOp → Option (RC × List RCOp) → List RCLine → List (RCOut × RCOut)
  | _, _, _, [] => []
  | c, h, sv, .snap :: rest => (.ok, .ok) :: rcLines n w c h (some (c, h)) rest
  | c, h, sv, .restore :: rest =>
    (match sv with
     | some (c', h') => (.ok, .ok) :: rcLines n w c' h' sv rest
     | none => (.ok, .ok) :: rcLines n w c h sv rest)
  | c, h, sv, .op o :: rest =>
    let (c', out) := c.step o
    (out, SpecC13.out n w h o) :: rcLines n w c' (o :: h) sv rest

/-- suite `rc`: one output line `model<TAB>spec` per op line -/
def suiteRC (kvs : List (String × String)) (lines0 : List (String × String)) : List String :=
  let lines := lines0.map (·.1)
  let n := kvNat kvs "n" 1
  let w := kvInt kvs "w" 1
  match lines.mapM parseRCLine with
  | none => lines.map fun _ => "bad-op\tbad-op"
  | some ops =>
    let ms := rcLines n w (RC.new n w) [] none ops
    -- the property speaks about positive bucket counts and widths only: no spec opinion outside
    -- `str d`: the harness itself compares StringAt's text with the three getters; here only "did it panic"
    let isStr := lines.map fun l => l.startsWith "str "
    let strFmt (o : RCOut) : String := match o with | .panic => "panic" | _ => "ok"
    (ms.zip isStr).map fun ((a, b), st) =>
      (if st then strFmt a else a.fmt) ++ "\t" ++ (if n = 0 ∨ w ≤ 0 then "-" else (if st then strFmt b else b.fmt))

end CM

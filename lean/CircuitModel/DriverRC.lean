import CircuitModel.RollingCounter
import CircuitModel.Spec.C13
namespace CM

def parseRCOp (line : String) : Option RCOp :=
  match line.splitOn " " with
  | ["inc", d] => d.toInt?.map .inc
  | ["sum", d] => d.toInt?.map .sum
  | ["bk", d] => d.toInt?.map .bk
  | ["str", d] => d.toInt?.map .bk      -- StringAt(now): the same window movement as GetBuckets(now); see `isStr`
  | ["reset", d] => d.toInt?.map .reset
  | ["total"] => some .total
  | ["json"] => some .json
  | _ => none

def RCOut.fmt : RCOut → String
  | .ok => "ok"
  | .int v => toString v
  | .ints l => fmtInts l
  | .panic => "panic"

/-- suite `rc`: one output line `model<TAB>spec` per op line -/
def suiteRC (kvs : List (String × String)) (lines0 : List (String × String)) : List String :=
  let lines := lines0.map (·.1)
  let n := kvNat kvs "n" 1
  let w := kvInt kvs "w" 1
  match lines.mapM parseRCOp with
  | none => lines.map fun _ => "bad-op\tbad-op"
  | some ops =>
    let m := (RC.new n w).run ops
    let s := SpecC13.run n w ops
    -- the property speaks about positive bucket counts and widths only: no spec opinion outside
    -- `str d`: the harness itself compares StringAt's text with the three getters; here only "did it panic"
    let isStr := lines.map fun l => l.startsWith "str "
    let strFmt (o : RCOut) : String := match o with | .panic => "panic" | _ => "ok"
    ((m.zip s).zip isStr).map fun ((a, b), st) =>
      (if st then strFmt a else a.fmt) ++ "\t" ++ (if n = 0 ∨ w ≤ 0 then "-" else (if st then strFmt b else b.fmt))

end CM

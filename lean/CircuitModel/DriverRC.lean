import CircuitModel.RollingCounter
import CircuitModel.Spec.C13
namespace CM

def parseRCOp (line : String) : Option RCOp :=
  match line.splitOn " " with
  | ["inc", d] => d.toInt?.map .inc
  | ["sum", d] => d.toInt?.map .sum
  | ["bk", d] => d.toInt?.map .bk
  | ["reset", d] => d.toInt?.map .reset
  | ["total"] => some .total
  | ["json"] => some .json
  | _ => none

def RCOut.fmt : RCOut → String
  | .ok => "ok"
  | .int v => toString v
  | .ints l => fmtInts l
  | .panic => "panic"

/-- suite `rc`: one output line `model<TAB>spec` per op line -/
def suiteRC (kvs : List (String × String)) (lines0 : List (String × String)) : List String :=
  let lines := lines0.map (·.1)
  let n := kvNat kvs "n" 1
  let w := kvInt kvs "w" 1
  match lines.mapM parseRCOp with
  | none => lines.map fun _ => "bad-op\tbad-op"
  | some ops =>
    let m := (RC.new n w).run ops
    let s := SpecC13.run n w ops
    -- the property speaks about positive bucket counts and widths only: no spec opinion outside
    (m.zip s).map fun (a, b) => a.fmt ++ "\t" ++ (if n = 0 ∨ w ≤ 0 then "-" else b.fmt)

end CM

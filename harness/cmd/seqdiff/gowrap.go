package main

import (
	"context"
	"fmt"
	"math/rand"
	"runtime"
	"strings"
	"sync"
	"time"

	circuit "github.com/cep21/circuit/v4"
)

// gowrap suite (K4): Circuit.Go with real goroutines under the real Go scheduler; the harness forces the order of
// "function finishes" and "context ends" with channels and observes: what Go returned / re-panicked, what
// GoLostErrors was told, whether Go returned promptly, whether a helper goroutine outlived the function.
type gowrapSuite struct{}

func init() { register("gowrap", gowrapSuite{}) }

func (gowrapSuite) Gen(r *rand.Rand, i int) Case {
	c := Case{Header: "gowrap"}
	for j, n := 0, 6+r.Intn(8); j < n; j++ {
		out := pick(r, "nil", fmt.Sprintf("e%d", 1+r.Intn(9)), fmt.Sprintf("panic%d", []int{0, 1, 2, 9}[r.Intn(4)]))
		ctx := pick(r, "none", "pre", "during", "during", "after", "race", "late")
		fn := pick(r, "run", "run", "fb")
		via := "cancel"
		if ctx == "late" {
			fn = "run" // (a fallback's run step goes through the same wrapper and would wait at the same Done())
			c.Tags = append(c.Tags, "caller-reaches-select-late")
		}
		if fn == "run" && (ctx == "during") && r.Intn(3) == 0 {
			via = "timeout"
		}
		finish := 1
		if ctx == "during" && r.Intn(4) == 0 {
			finish = 0
		}
		nilc := 0
		lost := r.Intn(2)
		if r.Intn(8) == 0 {
			nilc, lost, via, fn = 1, 0, "cancel", "run" // a nil circuit runs the function directly: no fallback
		}
		dis := 0
		if nilc == 0 && fn == "run" && via == "cancel" && r.Intn(6) == 0 {
			dis = 1 // a Disabled circuit passes the function straight through — Go must still surface its outcome once
			c.Tags = append(c.Tags, "disabled-circuit")
		}
		cdl := 0
		if via == "timeout" && r.Intn(2) == 0 {
			cdl = 1 // the caller's own context carries a LATER deadline: the execution timeout must still end the call
			c.Tags = append(c.Tags, "caller-deadline")
		}
		live := 0
		if nilc == 0 && r.Intn(4) == 0 {
			live = 1 // a live reconfiguration that leaves the optional fields (hooks, clock) unset precedes the call
			c.Tags = append(c.Tags, "live-partial-reconfig")
		}
		c.Ops = append(c.Ops, fmt.Sprintf("go fn=%s out=%s finish=%d ctx=%s via=%s lost=%d nilc=%d cdl=%d dis=%d live=%d", fn, out, finish, ctx, via, lost, nilc, cdl, dis, live))
		c.Tags = append(c.Tags, "ctx-"+ctx, "fn-"+fn)
		if strings.HasPrefix(out, "panic") {
			c.Tags = append(c.Tags, "panic")
		}
	}
	return c
}

func (gowrapSuite) Nontrivial(tags map[string]int) bool {
	return tags["ctx-during"]+tags["ctx-race"]+tags["ctx-pre"] > 0
}

type lateCtx struct {
	context.Context
	gate    chan struct{}
	started chan struct{}
}

// Done holds its caller back only once the wrapped function is under way (a library that asks for Done() before it
// starts the function must not be blocked there): it gives the function 20 ms to start, then waits for the gate
func (l lateCtx) Done() <-chan struct{} {
	select {
	case <-l.started:
		<-l.gate
	case <-time.After(20 * time.Millisecond):
	}
	return l.Context.Done()
}

func helperGoroutines() int {
	buf := make([]byte, 1<<20)
	n := runtime.Stack(buf, true)
	cnt := 0
	for _, g := range strings.Split(string(buf[:n]), "\n\n") {
		if strings.Contains(g, "goroutineWrapper") {
			cnt++
		}
	}
	return cnt
}

func (gowrapSuite) Run(h map[string]string, ops []string) []string {
	out := make([]string, len(ops))
	for i, op := range ops {
		out[i] = runGoScenario(kvs(strings.Fields(op)[1:]))
	}
	return out
}

func runGoScenario(m map[string]string) string {
	// helpers leaked by EARLIER scenarios (a defect already reported there) must not be charged to this one, nor make
	// every later scenario wait out its grace period
	leakedBefore := helperGoroutines()
	fs := parseFunc(m["out"], 0, false)
	ctxMode, via := m["ctx"], m["via"]
	finish := m["finish"] != "0"
	var mu sync.Mutex
	var lost []string
	preErr := &plainErr{-1}
	lostCb := func(err error, p interface{}) {
		mu.Lock()
		defer mu.Unlock()
		if err == error(preErr) {
			return // the outcome of the OTHER wrapped function (the run step that precedes the observed fallback)
		}
		switch {
		case p != nil && fs.shape == "panic" && p == fs.pv:
			lost = append(lost, fmt.Sprintf("panic%d", fs.id))
		case p != nil:
			lost = append(lost, "panic?")
		case err == nil:
			lost = append(lost, "nil")
		case fs.err != nil && sameErr(err, fs.err):
			lost = append(lost, fmt.Sprintf("e%d", fs.id))
		default:
			lost = append(lost, "other")
		}
	}
	var c *circuit.Circuit
	if m["nilc"] != "1" {
		cfg := circuit.Config{Execution: circuit.ExecutionConfig{Timeout: -1}}
		if via == "timeout" {
			cfg.Execution.Timeout = 3 * time.Millisecond
		}
		cfg.General.Disabled = m["dis"] == "1"
		// GoLostErrors reaches the circuit from a LOWER configuration layer (a manager's default constructor) than the
		// one that carries Disabled / the timeout
		mgr := &circuit.Manager{}
		if m["lost"] == "1" {
			mgr.DefaultCircuitProperties = append(mgr.DefaultCircuitProperties, func(string) circuit.Config {
				return circuit.Config{General: circuit.GeneralConfig{GoLostErrors: lostCb}}
			})
		}
		c = mgr.MustCreateCircuit("g", cfg)
		if m["live"] == "1" {
			// SetConfigThreadSafe changes the live settings only: what was given at construction (the lost-error hook
			// among it) stays in force even when the new config leaves it unset
			part := c.Config()
			part.General.GoLostErrors = nil
			part.General.TimeKeeper = circuit.TimeKeeper{}
			c.SetConfigThreadSafe(part)
		}
	}
	ctx, cancel := context.WithCancel(context.Background())
	defer cancel()
	if m["cdl"] == "1" {
		var cancel2 context.CancelFunc
		ctx, cancel2 = context.WithTimeout(ctx, 3*time.Second)
		defer cancel2()
	}
	if ctxMode == "pre" {
		cancel()
	}
	// "late": the context never ends, but its Done() — which Go evaluates when it starts waiting — does not answer before
	// the wrapped function has finished (returned or panicked) and its goroutine has wound down: the caller reaches its
	// select with the outcome already buffered
	lateGate := make(chan struct{})
	started := make(chan struct{})
	if ctxMode == "late" {
		ctx = lateCtx{ctx, lateGate, started}
	}
	release := make(chan struct{})
	finished := make(chan struct{})
	sameCtx := "x"
	body := func(fctx context.Context) (err error) {
		// the observed function gets the caller's context itself: always for a fallback, and for a run function when the
		// circuit derives no timeout context
		if fctx == ctx {
			sameCtx = "1"
		} else {
			sameCtx = "0"
		}
		close(started)
		defer close(finished)
		<-release
		switch fs.shape {
		case "nil":
			return nil
		case "panic":
			panic(fs.pv)
		}
		return fs.err
	}
	var runFn func(context.Context) error
	var fbFn func(context.Context, error) error
	if m["fn"] == "fb" {
		runFn = func(context.Context) error { return preErr }
		fbFn = func(fctx context.Context, _ error) error { return body(fctx) }
	} else {
		runFn = body
	}
	type result struct {
		err      error
		panicked interface{}
		isPanic  bool
	}
	resCh := make(chan result, 1)
	go func() {
		var r result
		defer func() {
			if p := recover(); p != nil {
				r.panicked, r.isPanic = p, true
			}
			resCh <- r
		}()
		r.err = c.Go(ctx, runFn, fbFn)
	}()
	// choreography
	switch ctxMode {
	case "late":
		close(release)
		select {
		case <-finished:
		case <-time.After(time.Second):
		}
		time.Sleep(5 * time.Millisecond)
		close(lateGate)
	case "none", "after":
		close(release)
	case "pre":
		if finish {
			select {
			case <-started:
			case <-time.After(200 * time.Millisecond): // the function may never be started when the context is already done
			}
			close(release)
		}
	case "during":
		<-started
		if via != "timeout" {
			cancel()
		}
	case "race":
		<-started
		go cancel()
		close(release)
	}
	var r result
	prompt := true
	select {
	case r = <-resCh:
	case <-time.After(2 * time.Second):
		prompt = false
	}
	if ctxMode == "during" && finish && prompt {
		close(release) // the function finishes only after Go has returned
	}
	if ctxMode == "after" {
		cancel()
	}
	// let the outcome travel (lost-error report) and the helpers wind down
	leak := "x"
	if finish || ctxMode == "none" || ctxMode == "late" || ctxMode == "after" || ctxMode == "race" {
		select {
		case <-finished:
		case <-time.After(time.Second):
		}
		deadline := time.Now().Add(500 * time.Millisecond)
		leak = "1"
		for time.Now().Before(deadline) {
			mu.Lock()
			nl := len(lost)
			mu.Unlock()
			if helperGoroutines() <= leakedBefore && (m["lost"] != "1" || nl > 0 || r.isPanic || callerIsFn(r.err, r.isPanic, fs)) {
				leak = "0"
				break
			}
			time.Sleep(2 * time.Millisecond)
		}
		if leak == "1" && helperGoroutines() <= leakedBefore {
			leak = "0"
		}
	}
	mu.Lock()
	lostStr := "[" + strings.Join(lost, ",") + "]"
	mu.Unlock()
	caller := "blocked"
	if prompt {
		switch {
		case r.isPanic && fs.shape == "panic" && r.panicked == fs.pv:
			caller = fmt.Sprintf("fn:panic%d", fs.id)
		case r.isPanic:
			caller = "panic?"
		case r.err == nil && fs.shape == "nil":
			caller = "fn:nil"
		case r.err == nil:
			caller = "nil?"
		case fs.err != nil && sameErr(r.err, fs.err):
			caller = fmt.Sprintf("fn:e%d", fs.id)
		case r.err == context.Canceled || r.err == context.DeadlineExceeded:
			caller = "ctx"
		default:
			caller = "other:" + r.err.Error()
		}
	}
	if !finish { // clean up: let the parked function go (not observed)
		close(release)
		<-finished
		time.Sleep(time.Millisecond)
	} else if !prompt && ctxMode == "during" {
		close(release) // Go never came back in time: release the function now (not observed)
	}
	if !prompt {
		// wait for the stuck call and its helpers to wind down, so that they are not counted against the next scenario
		select {
		case <-resCh:
		case <-time.After(5 * time.Second):
		}
		for d := time.Now().Add(time.Second); time.Now().Before(d) && helperGoroutines() > leakedBefore; {
			time.Sleep(5 * time.Millisecond)
		}
	}
	// the wrapped function is always started, however early Go itself returns (a cancelled context included)
	startedFlag := "0"
	select {
	case <-started:
		startedFlag = "1"
	case <-time.After(300 * time.Millisecond):
	}
	same := "x"
	if startedFlag == "1" {
		same = sameCtx // written before close(started)
	}
	return fmt.Sprintf("caller=%s lost=%s prompt=%s leak=%s started=%s same=%s", caller, lostStr, b01(prompt), leak, startedFlag, same)
}

func callerIsFn(err error, isPanic bool, fs funcSpec) bool {
	if isPanic {
		return true
	}
	if err == nil {
		return fs.shape == "nil"
	}
	return fs.err != nil && sameErr(err, fs.err)
}

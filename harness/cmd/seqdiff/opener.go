package main

import (
	"encoding/json"
	"context"
	"fmt"
	"math/rand"
	"strings"
	"time"

	circuit "github.com/cep21/circuit/v4"
	"github.com/cep21/circuit/v4/closers/hystrix"
	"github.com/cep21/circuit/v4/closers/simplelogic"
)

type openerSuite struct{}

func init() { register("opener", openerSuite{}) }

var neutralKinds = []string{"badrequest", "interrupt", "reject", "shortcircuit"}

func (openerSuite) Gen(r *rand.Rand, i int) Case {
	if r.Intn(4) == 0 {
		thr := int64(r.Intn(6)) - 1
		c := Case{Header: fmt.Sprintf("opener kind=consec thr=%d", thr), Tags: []string{"consec"}}
		t := int64(0)
		if thr == 0 {
			// left unset: the documented default (10 consecutive failures) applies — walk up to it and across
			c.Tags = append(c.Tags, "defaults")
			for j := 0; j < 11; j++ {
				c.Ops = append(c.Ops, fmt.Sprintf("ev %s %d", pick(r, "failure", "timeout"), t))
				if j >= 8 {
					c.Ops = append(c.Ops, fmt.Sprintf("should %d", t))
				}
				t += r.Int63n(3)
			}
		}
		for j, n := 0, 1+r.Intn(40); j < n; j++ {
			t += r.Int63n(5)
			switch x := r.Intn(100); {
			case x < 45:
				c.Ops = append(c.Ops, fmt.Sprintf("ev %s %d", pick(r, "failure", "timeout", "failure", "success"), t))
			case x < 60:
				c.Ops = append(c.Ops, fmt.Sprintf("ev %s %d", neutralKinds[r.Intn(4)], t))
				c.Tags = append(c.Tags, "neutral")
			case x < 90:
				c.Ops = append(c.Ops, fmt.Sprintf("should %d", t))
			case x < 95:
				c.Ops = append(c.Ops, fmt.Sprintf("%s %d", pick(r, "opened", "closed"), t))
				c.Tags = append(c.Tags, "transition")
			default:
				c.Ops = append(c.Ops, fmt.Sprintf("cfg thr=%d", r.Intn(6)-1))
				c.Tags = append(c.Tags, "live-cfg")
			}
		}
		return c
	}
	n := 1 + r.Intn(6)
	width := []int64{10, 1000, 1_000_000}[r.Intn(3)]
	dur := int64(n) * width
	var a, e, pct int64
	tag := "random-ratio"
	if r.Intn(5) < 3 { // exact-percentage boundary: 100*e == pct*a, then nudged by -1/0/+1
		for {
			a = 1 + r.Int63n(200)
			pct = 1 + r.Int63n(100)
			if (pct*a)%100 == 0 {
				break
			}
		}
		e = pct * a / 100
		tag = "exact-boundary"
		switch r.Intn(4) {
		case 0:
			if e > 0 {
				e--
			}
		case 1:
			if e < a {
				e++
			}
		}
	} else {
		a = 1 + r.Int63n(60)
		e = r.Int63n(a + 1)
		pct = r.Int63n(102)
		if pct == 0 {
			pct = 1
		}
	}
	hn, hdur := int64(n), dur
	vol := []int64{1, a - 1, a, a + 1, 1 + r.Int63n(a+2)}[r.Intn(5)]
	if vol <= 0 {
		vol = 1
	}
	if r.Intn(6) == 0 {
		// thresholds LEFT UNSET at construction (0): the documented defaults apply — 50 % of at least 20 requests.
		// The history sits on the boundary of the default that applies (and around 50 requests / 20 %, what a mix-up
		// of the two would need)
		tag = "defaults"
		unset := r.Intn(3) // 0: percentage, 1: volume, 2: both
		if unset != 0 {
			a = []int64{19, 20, 21, 49, 50, 51}[r.Intn(6)]
			vol = 0
		}
		pe := pct
		if unset != 1 {
			pe, pct = 50, 0
		}
		e = pe*a/100 + []int64{-1, 0, 0, 1}[r.Intn(4)]
		if e < 0 {
			e = 0
		}
		if e > a {
			e = a
		}
		if r.Intn(2) == 0 { // the window too: 10 buckets over 10 s
			hn, hdur = 0, 0
			n, width, dur = 10, 1_000_000_000, 10_000_000_000
		}
	}
	// the injected clock may lie before or after the wall clock: a view read at the wall clock would move the window
	base := pick(r, "future", "past")
	c := Case{Header: fmt.Sprintf("opener kind=hystrix n=%d dur=%d pct=%d vol=%d base=%s", hn, hdur, pct, vol, base), Tags: []string{"hystrix", tag}}
	t := r.Int63n(3 * width)
	// optional prelude that must fall out of the window / be reset
	if r.Intn(3) == 0 {
		for j, k := 0, r.Intn(6); j < k; j++ {
			c.Ops = append(c.Ops, fmt.Sprintf("ev %s %d", pick(r, "failure", "success", "timeout"), t))
		}
		if r.Intn(2) == 0 {
			t += dur + r.Int63n(2*width)
			c.Tags = append(c.Tags, "idle-gap")
		} else {
			c.Ops = append(c.Ops, fmt.Sprintf("%s %d", pick(r, "opened", "closed"), t))
			c.Tags = append(c.Tags, "transition")
		}
	}
	// a errors+successes inside one window, in random order, non-decreasing times
	kinds := make([]string, 0, a)
	for j := int64(0); j < e; j++ {
		kinds = append(kinds, pick(r, "failure", "timeout"))
	}
	for j := e; j < a; j++ {
		kinds = append(kinds, "success")
	}
	r.Shuffle(len(kinds), func(x, y int) { kinds[x], kinds[y] = kinds[y], kinds[x] })
	span := dur - width // keep them inside one window however the buckets fall
	if span < 1 {
		span = 1
	}
	step := span / (a + 1)
	for _, k := range kinds {
		t += r.Int63n(step + 1)
		c.Ops = append(c.Ops, fmt.Sprintf("ev %s %d", k, t))
		if r.Intn(8) == 0 {
			c.Ops = append(c.Ops, fmt.Sprintf("ev %s %d", neutralKinds[r.Intn(4)], t))
			c.Tags = append(c.Tags, "neutral")
		}
		if r.Intn(10) == 0 {
			c.Ops = append(c.Ops, fmt.Sprintf("should %d", t))
		}
		if r.Intn(12) == 0 {
			c.Ops = append(c.Ops, fmt.Sprintf("view %d", t))
			c.Tags = append(c.Tags, "view")
		}
	}
	c.Ops = append(c.Ops, fmt.Sprintf("should %d", t))
	// tail: roll the window partly / fully, non-monotonic probes, live thresholds
	tail := r.Intn(6)
	if r.Intn(20) == 0 {
		tail = 60 + r.Intn(120) // a long tail: the window wraps around many times
	}
	for j, k := 0, tail; j < k; j++ {
		switch r.Intn(5) {
		case 0:
			t += width
			c.Tags = append(c.Tags, "roll")
		case 1:
			t += dur
			c.Tags = append(c.Tags, "roll")
		case 2:
			c.Ops = append(c.Ops, fmt.Sprintf("cfg pct=%d vol=%d", r.Intn(102), r.Int63n(a+2)))
			c.Tags = append(c.Tags, "live-cfg")
		case 3:
			c.Ops = append(c.Ops, fmt.Sprintf("should %d", t-r.Int63n(dur+1)))
			c.Tags = append(c.Tags, "non-monotonic")
		case 4:
			c.Ops = append(c.Ops, fmt.Sprintf("ev %s %d", pick(r, "failure", "success"), t))
		}
		if r.Intn(4) == 0 {
			// a completion stamped late: around one full window behind the newest bucket (must be ignored from
			// exactly one window on), or a few buckets behind (must still count)
			back := []int64{int64(n) - 1, int64(n), int64(n) + 1, 1, 2}[r.Intn(5)] * width
			if t-back >= 0 {
				c.Ops = append(c.Ops, fmt.Sprintf("ev %s %d", pick(r, "failure", "success", "timeout"), t-back))
				c.Tags = append(c.Tags, "non-monotonic")
			}
		}
		if r.Intn(4) == 0 {
			c.Ops = append(c.Ops, fmt.Sprintf("view %d", t))
			c.Tags = append(c.Tags, "view")
		}
		c.Ops = append(c.Ops, fmt.Sprintf("should %d", t))
	}
	return c
}

func (openerSuite) Nontrivial(tags map[string]int) bool {
	return tags["exact-boundary"]+tags["roll"]+tags["idle-gap"]+tags["transition"]+tags["neutral"]+tags["live-cfg"]+tags["view"] > 0
}

func (openerSuite) Run(h map[string]string, ops []string) []string {
	var o circuit.ClosedToOpen
	var ho *hystrix.Opener
	var co *simplelogic.ConsecutiveErrOpener
	var hcfg hystrix.ConfigureOpener
	base := clockBase
	if h["base"] == "past" {
		base = time.Date(2000, 1, 1, 0, 0, 0, 0, time.UTC)
	}
	nowAt := base
	building, buildTicks := false, int64(0)
	if h["kind"] == "consec" {
		o = simplelogic.ConsecutiveErrOpenerFactory(simplelogic.ConfigConsecutiveErrOpener{ErrorThreshold: getI(h, "thr", 10)})()
		co = o.(*simplelogic.ConsecutiveErrOpener)
	} else {
		hcfg = hystrix.ConfigureOpener{ErrorThresholdPercentage: getI(h, "pct", 50), RequestVolumeThreshold: getI(h, "vol", 20),
			// while the opener is being built every reading of its clock moves on by 1 ns (a real clock would): both
			// rolling counters must nevertheless start their bucket grid at the same instant — the first reading
			Now: func() time.Time {
				t := nowAt.Add(time.Duration(buildTicks))
				if building {
					buildTicks++
				}
				return t
			}, RollingDuration: time.Duration(getI(h, "dur", 10_000_000_000)), NumBuckets: int(getI(h, "n", 10))}
		building = true
		o = hystrix.OpenerFactory(hcfg)()
		building, buildTicks = false, 0
		ho = o.(*hystrix.Opener)
	}
	ctx := context.Background()
	out := make([]string, len(ops))
	for i, op := range ops {
		out[i] = func() (res string) {
			defer func() {
				if r := recover(); r != nil {
					res = "panic"
				}
			}()
			f := strings.Fields(op)
			at := func(s string) time.Time { return base.Add(time.Duration(atoi(s))) }
			switch f[0] {
			case "ev":
				t := at(f[2])
				switch f[1] {
				case "success":
					o.Success(ctx, t, 0)
				case "failure":
					o.ErrFailure(ctx, t, 0)
				case "timeout":
					o.ErrTimeout(ctx, t, 0)
				case "badrequest":
					o.ErrBadRequest(ctx, t, 0)
				case "interrupt":
					o.ErrInterrupt(ctx, t, 0)
				case "reject":
					o.ErrConcurrencyLimitReject(ctx, t)
				case "shortcircuit":
					o.ErrShortCircuit(ctx, t)
				default:
					return "bad-op"
				}
				return "ok"
			case "opened":
				o.Opened(ctx, at(f[1]))
				return "ok"
			case "closed":
				o.Closed(ctx, at(f[1]))
				return "ok"
			case "should":
				return b01(o.ShouldOpen(ctx, at(f[1])))
			case "view":
				// the JSON / expvar view of the opener, read when the injected clock shows t
				if ho == nil {
					return "ok"
				}
				nowAt = at(f[1])
				b, err := json.Marshal(ho)
				if err != nil {
					return "err"
				}
				var v struct {
					Attempts, Errors struct {
						RollingSum    int64
						RollingBucket struct{ LastAbsIndex int64 }
					}
				}
				if err := json.Unmarshal(b, &v); err != nil {
					return "err"
				}
				return fmt.Sprintf("e=%d a=%d last=%d,%d", v.Errors.RollingSum, v.Attempts.RollingSum, v.Errors.RollingBucket.LastAbsIndex, v.Attempts.RollingBucket.LastAbsIndex)
			case "cfg":
				m := kvs(f[1:])
				if ho != nil {
					hcfg.ErrorThresholdPercentage = getI(m, "pct", 0)
					hcfg.RequestVolumeThreshold = getI(m, "vol", 0)
					ho.SetConfigThreadSafe(hcfg)
				}
				if co != nil {
					if v, ok := m["thr"]; ok {
						co.SetConfigThreadSafe(simplelogic.ConfigConsecutiveErrOpener{ErrorThreshold: atoi(v)})
					}
				}
				return "ok"
			}
			return "bad-op"
		}()
	}
	return out
}

package main

import (
	"encoding/json"
	"fmt"
	"math/rand"
	"sort"
	"strconv"
	"strings"
	"time"

	circuit "github.com/cep21/circuit/v4"
	"github.com/cep21/circuit/v4/metrics/rolling"
)

type managerSuite struct{}

func init() { register("manager", managerSuite{}) }

func genLayer(r *rand.Rand) string {
	var parts []string
	if r.Intn(3) == 0 {
		parts = append(parts, fmt.Sprintf("to=%d", []int64{5, 70, -1, 2_000_000_000}[r.Intn(4)]))
	}
	if r.Intn(3) == 0 {
		parts = append(parts, fmt.Sprintf("mc=%d", []int64{-1, 1, 3, 25}[r.Intn(4)]))
	}
	if r.Intn(3) == 0 {
		parts = append(parts, fmt.Sprintf("fbmc=%d", []int64{-1, 2, 7}[r.Intn(3)]))
	}
	for _, k := range []string{"fo", "fc", "dis", "fbd", "ii"} {
		if r.Intn(6) == 0 {
			parts = append(parts, k+"=1")
		}
	}
	if len(parts) == 0 {
		return "-"
	}
	return strings.Join(parts, ",")
}

func (managerSuite) Gen(r *rand.Rand, i int) Case {
	var ctors []string
	for j, n := 0, r.Intn(4); j < n; j++ {
		ctors = append(ctors, genLayer(r))
	}
	if r.Intn(2) == 0 {
		ctors = append(ctors, "SF")
		r.Shuffle(len(ctors), func(a, b int) { ctors[a], ctors[b] = ctors[b], ctors[a] })
	}
	hdr := "manager ctors=-"
	if len(ctors) > 0 {
		hdr = "manager ctors=" + strings.ReplaceAll(strings.Join(ctors, "|"), "=", ":")
	}
	c := Case{Header: hdr}
	if len(ctors) > 0 {
		c.Tags = append(c.Tags, "default-ctors")
	}
	names := []string{"a", "b", "c", "d"}
	for j, n := 0, 1+r.Intn(14); j < n; j++ {
		name := names[r.Intn(len(names))]
		switch x := r.Intn(10); {
		case x < 5:
			var layers []string
			for k, m := 0, r.Intn(4); k < m; k++ {
				layers = append(layers, genLayer(r))
			}
			c.Ops = append(c.Ops, strings.TrimSpace("create "+name+" "+strings.Join(layers, " ")))
			if len(layers) > 1 {
				c.Tags = append(c.Tags, "multi-layer")
			}
		case x < 7:
			c.Ops = append(c.Ops, "get "+name)
		case x < 8:
			c.Ops = append(c.Ops, pick(r, "all", "var"))
		default:
			c.Ops = append(c.Ops, "stats "+name)
		}
	}
	return c
}

func (managerSuite) Nontrivial(tags map[string]int) bool { return tags["default-ctors"]+tags["multi-layer"] > 0 }

func layerConfig(s string) circuit.Config {
	var c circuit.Config
	if s == "-" {
		return c
	}
	for _, t := range strings.Split(s, ",") {
		kv := strings.SplitN(strings.ReplaceAll(t, ":", "="), "=", 2)
		v := atoi(kv[1])
		switch kv[0] {
		case "to":
			c.Execution.Timeout = time.Duration(v)
		case "mc":
			c.Execution.MaxConcurrentRequests = v
		case "fbmc":
			c.Fallback.MaxConcurrentRequests = v
		case "fo":
			c.General.ForceOpen = v == 1
		case "fc":
			c.General.ForcedClosed = v == 1
		case "dis":
			c.General.Disabled = v == 1
		case "fbd":
			c.Fallback.Disabled = v == 1
		case "ii":
			c.Execution.IgnoreInterrupts = v == 1
		}
	}
	return c
}

func (managerSuite) Run(h map[string]string, ops []string) []string {
	m := &circuit.Manager{}
	longLivedVar := m.Var() // taken before anything is created, evaluated by every later `var` op
	var sf *rolling.StatFactory
	if ct := h["ctors"]; ct != "" && ct != "-" {
		for _, t := range strings.Split(ct, "|") {
			if t == "SF" {
				sf = &rolling.StatFactory{}
				m.DefaultCircuitProperties = append(m.DefaultCircuitProperties, sf.CreateConfig)
			} else {
				cfg := layerConfig(t)
				m.DefaultCircuitProperties = append(m.DefaultCircuitProperties, func(string) circuit.Config { return cfg })
			}
		}
	}
	// secondary observer (CustomConfig read back through Config()): a per-name entry supplied by an extra default
	// constructor, and an entry supplied by ONE explicit config object that every create of this case reuses — each
	// circuit must end with its own name's entry, whatever was created before it
	m.DefaultCircuitProperties = append(m.DefaultCircuitProperties, func(name string) circuit.Config {
		return circuit.Config{General: circuit.GeneralConfig{CustomConfig: map[interface{}]interface{}{"owner": "low-" + name}}}
	})
	shared := circuit.Config{General: circuit.GeneralConfig{CustomConfig: map[interface{}]interface{}{"tier": "x"}}}
	ids := map[*circuit.Circuit]int{}
	idOf := func(c *circuit.Circuit) string {
		if c == nil {
			return "nil"
		}
		id, ok := ids[c]
		if !ok {
			return "id=unknown"
		}
		return "id=" + strconv.Itoa(id)
	}
	out := make([]string, len(ops))
	for i, op := range ops {
		out[i] = func() (res string) {
			defer func() {
				if r := recover(); r != nil {
					res = fmt.Sprintf("panic:%v", r)
				}
			}()
			f := strings.Fields(op)
			switch f[0] {
			case "create":
				var cfgs []circuit.Config
				for _, l := range f[2:] {
					cfgs = append(cfgs, layerConfig(l))
				}
				cfgs = append(cfgs, shared)
				c, err := m.CreateCircuit(f[1], cfgs...)
				if err != nil {
					return "err"
				}
				ids[c] = len(ids)
				cfg := c.Config()
				cc := "1"
				if o, t := cfg.General.CustomConfig["owner"], cfg.General.CustomConfig["tier"]; o != "low-"+f[1] || t != "x" || len(shared.General.CustomConfig) != 1 {
					cc = fmt.Sprintf("0:owner=%v,tier=%v,shared-map-entries=%d", o, t, len(shared.General.CustomConfig))
				}
				return fmt.Sprintf("ok %s to=%d mc=%d fbmc=%d fo=%s fc=%s dis=%s fbd=%s ii=%s cc=%s", idOf(c), int64(cfg.Execution.Timeout), cfg.Execution.MaxConcurrentRequests,
					cfg.Fallback.MaxConcurrentRequests, b01(cfg.General.ForceOpen), b01(cfg.General.ForcedClosed), b01(cfg.General.Disabled), b01(cfg.Fallback.Disabled), b01(cfg.Execution.IgnoreInterrupts), cc)
			case "get":
				return idOf(m.GetCircuit(f[1]))
			case "all":
				var l []int
				for _, c := range m.AllCircuits() {
					if id, ok := ids[c]; ok {
						l = append(l, id)
					} else {
						l = append(l, -1)
					}
				}
				sort.Ints(l)
				parts := make([]string, len(l))
				for i, v := range l {
					parts[i] = strconv.Itoa(v)
				}
				return "[" + strings.Join(parts, ",") + "]"
			case "var":
				// the expvar view of the manager lists exactly the registered circuits (secondary observer of `all`)
				var keys map[string]interface{}
				if err := json.Unmarshal([]byte(m.Var().String()), &keys); err != nil {
					return "bad-json"
				}
				// a handle obtained ONCE (expvar.Publish at start-up) must show the same circuits as a fresh one
				if longLivedVar == nil {
					longLivedVar = m.Var()
				}
				var old map[string]interface{}
				if err := json.Unmarshal([]byte(longLivedVar.String()), &old); err != nil {
					return "bad-json"
				}
				if len(old) != len(keys) {
					return fmt.Sprintf("long-lived-var-handle-lists-%d-circuits-fresh-one-%d", len(old), len(keys))
				}
				for name := range keys {
					if _, ok := old[name]; !ok {
						return "long-lived-var-handle-misses-" + name
					}
				}
				var l []int
				for name := range keys {
					if id, ok := ids[m.GetCircuit(name)]; ok {
						l = append(l, id)
					} else {
						l = append(l, -1)
					}
				}
				sort.Ints(l)
				parts := make([]string, len(l))
				for i, v := range l {
					parts[i] = strconv.Itoa(v)
				}
				return "[" + strings.Join(parts, ",") + "]"
			case "stats":
				c := m.GetCircuit(f[1])
				if c == nil {
					return "none"
				}
				attached := rolling.FindCommandMetrics(c)
				if sf == nil || attached == nil {
					return "bound=0"
				}
				return "bound=" + b01(sf.RunStats(f[1]) == attached)
			}
			return "bad-op"
		}()
	}
	return out
}

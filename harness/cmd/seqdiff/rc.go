package main

import (
	"encoding/json"
	"fmt"
	"math"
	"math/rand"
	"strconv"
	"strings"
	"time"

	"github.com/cep21/circuit/v4/faststats"
)

// origin of every harness timeline: far from the wall clock and from the zero time, no monotonic reading.
var origin = time.Unix(1_000_000_000, 0).UTC()

// timeAt turns an offset from org into the instant presented to the code.  The two extreme offsets stand for instants
// MORE than the representable distance away (time.Time.Sub saturates at exactly these values): a date seven centuries
// after, resp. six centuries before, the start.
func timeAt(org time.Time, d int64) time.Time {
	switch d {
	case math.MaxInt64:
		return time.Date(org.Year()+700, 1, 1, 0, 0, 0, 0, time.UTC)
	case math.MinInt64:
		return time.Date(org.Year()-600, 1, 1, 0, 0, 0, 0, time.UTC)
	}
	return org.Add(time.Duration(d))
}

type rcSuite struct{}

func init() { register("rc", rcSuite{}) }

// timeGen draws boundary-directed offsets (ns from StartTime) for a ring of n buckets of width w.
type timeGen struct {
	n   int
	w   int64
	cur int64 // newest offset presented so far
}

func (g *timeGen) next(r *rand.Rand) (int64, string) {
	w, n := g.w, int64(g.n)
	var d int64
	var tag string
	switch x := r.Intn(100); {
	case x < 6:
		d, tag = -1-r.Int63n(3*w+1), "before-start"
	case x < 26:
		d, tag = g.cur, "same-time"
	case x < 36: // on a bucket edge +-1ns near the cursor
		edge := (g.cur/w + int64(r.Intn(3))) * w
		d, tag = edge+int64(r.Intn(3))-1, "edge"
	case x < 56: // k buckets ahead, k up to 3n
		k := 1 + r.Int63n(3*n)
		d, tag = g.cur+k*w-r.Int63n(w), "ahead"
	case x < 60:
		d, tag = g.cur+(n+r.Int63n(50*n+1))*w+r.Int63n(w), "far-future"
	case x < 80: // around one window back +-1 bucket
		k := n - 1 + int64(r.Intn(3))
		d, tag = g.cur-k*w+int64(r.Intn(3))-1, "window-back"
	case x < 90: // somewhere inside the window, backwards
		k := r.Int63n(n + 1)
		d, tag = g.cur-k*w+r.Int63n(w), "backwards"
	default:
		d, tag = g.cur-(n+r.Int63n(3*n+1))*w, "stale"
	}
	if r.Intn(60) == 0 {
		d, tag = []int64{math.MaxInt64, math.MinInt64}[r.Intn(2)], "beyond-representable-distance"
	}
	if g.cur > math.MaxInt64/2 && d < 0 && tag != "before-start" && tag != "beyond-representable-distance" {
		d = math.MaxInt64 // the offset arithmetic wrapped around: present the largest offset instead
	}
	if d > g.cur {
		g.cur = d
	}
	return d, tag
}

func (rcSuite) Gen(r *rand.Rand, i int) Case {
	n := 1 + r.Intn(12)
	if r.Intn(40) == 0 {
		n = 0 // malformed stream: zero buckets
	}
	ws := []int64{1, 7, 1_000_000, 1_000_000_000}
	w := ws[r.Intn(len(ws))]
	extreme := n > 0 && r.Intn(15) == 0
	if extreme {
		w = 1 // 1 ns buckets: the absolute bucket index itself can come within NumBuckets of MaxInt64
	}
	c := Case{Header: fmt.Sprintf("rc n=%d w=%d", n, w)}
	g := &timeGen{n: max(n, 1), w: w}
	if extreme {
		g.cur = math.MaxInt64 - r.Int63n(int64(3*n+2))
		c.Ops = append(c.Ops, fmt.Sprintf("%s %d", pick(r, "inc", "sum", "bk"), g.cur))
		c.Tags = append(c.Tags, "top-of-index-range")
	}
	nops := 1 + r.Intn(40)
	if r.Intn(25) == 0 {
		nops = 200 + r.Intn(300) // a long history: state that only goes wrong after it accumulates
	}
	for j := 0; j < nops; j++ {
		d, tag := g.next(r)
		c.Tags = append(c.Tags, tag)
		switch x := r.Intn(100); {
		case x < 50:
			c.Ops = append(c.Ops, fmt.Sprintf("inc %d", d))
		case x < 68:
			c.Ops = append(c.Ops, fmt.Sprintf("sum %d", d))
		case x < 80:
			c.Ops = append(c.Ops, fmt.Sprintf("bk %d", d))
		case x < 84:
			c.Ops = append(c.Ops, fmt.Sprintf("str %d", d))
		case x < 90:
			c.Ops = append(c.Ops, fmt.Sprintf("reset %d", d))
			c.Tags = append(c.Tags, "reset")
		case x < 96:
			c.Ops = append(c.Ops, "total")
		default:
			switch r.Intn(3) {
			case 0:
				c.Ops = append(c.Ops, "json")
				c.Tags = append(c.Tags, "json")
			case 1:
				c.Ops = append(c.Ops, "snap") // keep a JSON snapshot …
				c.Tags = append(c.Tags, "snap")
			default:
				c.Ops = append(c.Ops, "restore") // … and restore it into the LIVE counter, which may have moved on since
				c.Tags = append(c.Tags, "restore")
			}
		}
	}
	if n == 0 {
		c.Tags = append(c.Tags, "zero-buckets")
	}
	return c
}

func (rcSuite) Nontrivial(tags map[string]int) bool {
	return tags["ahead"]+tags["far-future"] > 0 && tags["window-back"]+tags["backwards"]+tags["stale"]+tags["before-start"] > 0
}

func fmtInts(l []int64) string {
	parts := make([]string, len(l))
	for i, v := range l {
		parts[i] = strconv.FormatInt(v, 10)
	}
	return "[" + strings.Join(parts, ",") + "]"
}

func atoi(s string) int64 {
	v, err := strconv.ParseInt(s, 10, 64)
	if err != nil {
		panic("bad int " + s)
	}
	return v
}

func (rcSuite) Run(h map[string]string, ops []string) []string {
	n := int(atoi(h["n"]))
	w := atoi(h["w"])
	ctr := faststats.NewRollingCounter(time.Duration(w), n, origin)
	c := &ctr
	var snapshot []byte
	out := make([]string, len(ops))
	for i, op := range ops {
		out[i] = func() (res string) {
			defer func() {
				if r := recover(); r != nil {
					res = "panic"
				}
			}()
			f := strings.Fields(op)
			at := func() time.Time { return timeAt(origin, atoi(f[1])) }
			switch f[0] {
			case "inc":
				c.Inc(at())
				return "ok"
			case "sum":
				return strconv.FormatInt(c.RollingSumAt(at()), 10)
			case "bk":
				return fmtInts(c.GetBuckets(at()))
			case "str":
				// the text view must say what the three getters say at the same instant
				got := c.StringAt(at())
				bk := c.GetBuckets(at())
				parts := make([]string, len(bk))
				for i, v := range bk {
					parts[i] = strconv.FormatInt(v, 10)
				}
				want := fmt.Sprintf("rolling_sum=%d total_sum=%d parts=(%s)", c.RollingSumAt(at()), c.TotalSum(), strings.Join(parts, ","))
				if got != want {
					return "mismatch:" + strings.Replace(got, " ", "_", -1)
				}
				return "ok"
			case "reset":
				c.Reset(at())
				return "ok"
			case "total":
				return strconv.FormatInt(c.TotalSum(), 10)
			case "json":
				b, err := json.Marshal(c)
				if err != nil {
					return "json-error"
				}
				var fresh faststats.RollingCounter
				if err := json.Unmarshal(b, &fresh); err != nil {
					return "json-error"
				}
				c = &fresh
				return "ok"
			case "snap":
				b, err := json.Marshal(c)
				if err != nil {
					return "json-error"
				}
				snapshot = b
				return "ok"
			case "restore":
				if snapshot == nil {
					return "ok"
				}
				if err := json.Unmarshal(snapshot, c); err != nil {
					return "json-error"
				}
				return "ok"
			}
			return "bad-op"
		}()
		// C14's conservation, sequentially, after EVERY operation (at the operation's own instant, so that nothing moves):
		// the rolling sum is the sum of the buckets and lies within [0, total]
		if f := strings.Fields(op); n > 0 && len(f) == 2 && out[i] != "panic" {
			func() {
				defer func() { _ = recover() }()
				t := timeAt(origin, atoi(f[1]))
				sum := int64(0)
				for _, b := range c.GetBuckets(t) {
					sum += b
				}
				if r := c.RollingSumAt(t); r != sum || r < 0 || r > c.TotalSum() {
					out[i] = fmt.Sprintf("conservation-broken:rolling=%d,buckets=%d,total=%d", r, sum, c.TotalSum())
				}
			}()
		}
	}
	return out
}

package main

import (
	"context"
	"fmt"
	"math/rand"
	"reflect"
	"regexp"
	"sort"
	"strconv"
	"strings"
	"time"

	circuit "github.com/cep21/circuit/v4"
	"github.com/cep21/circuit/v4/closers/hystrix"
	"github.com/cep21/circuit/v4/closers/simplelogic"
	"github.com/cep21/circuit/v4/metrics/responsetimeslo"
	"github.com/cep21/circuit/v4/metrics/rolling"
)

// merge suite (K3 guard of the merge-program translator): runs the REAL Merge methods, through reflection, on
// receiver/other values in which every leaf field is independently unset or set, and prints the result in a
// canonical text form; the Lean driver evaluates the regenerated program of the same type on the same values.

type mergeSuite struct{}

func init() { register("merge", mergeSuite{}) }

var mergeEntry = map[string]reflect.Type{
	"circuit.Config":                         reflect.TypeOf(circuit.Config{}),
	"hystrix.ConfigureOpener":                reflect.TypeOf(hystrix.ConfigureOpener{}),
	"hystrix.ConfigureCloser":                reflect.TypeOf(hystrix.ConfigureCloser{}),
	"simplelogic.ConfigConsecutiveErrOpener": reflect.TypeOf(simplelogic.ConfigConsecutiveErrOpener{}),
	"rolling.RunStatsConfig":                 reflect.TypeOf(rolling.RunStatsConfig{}),
	"rolling.FallbackStatsConfig":            reflect.TypeOf(rolling.FallbackStatsConfig{}),
	"responsetimeslo.Config":                 reflect.TypeOf(responsetimeslo.Config{}),
}

func entryNames() []string {
	var l []string
	for k := range mergeEntry {
		l = append(l, k)
	}
	sort.Strings(l)
	return l
}

// tagRec implements every collector interface; its identity is its tag.
type tagRec struct{ tag int }

func (tagRec) Success(context.Context, time.Time, time.Duration)       {}
func (tagRec) ErrFailure(context.Context, time.Time, time.Duration)    {}
func (tagRec) ErrTimeout(context.Context, time.Time, time.Duration)    {}
func (tagRec) ErrBadRequest(context.Context, time.Time, time.Duration) {}
func (tagRec) ErrInterrupt(context.Context, time.Time, time.Duration)  {}
func (tagRec) ErrConcurrencyLimitReject(context.Context, time.Time)    {}
func (tagRec) ErrShortCircuit(context.Context, time.Time)              {}
func (tagRec) Opened(context.Context, time.Time)                       {}
func (tagRec) Closed(context.Context, time.Time)                       {}

var lastFuncTag int

var negTag = regexp.MustCompile(`=90([0-9])`)

// leafPaths lists the leaf fields of a struct type (exported only), in declaration order, with dotted paths.
func leafPaths(t reflect.Type, prefix string) []string {
	var out []string
	for i := 0; i < t.NumField(); i++ {
		f := t.Field(i)
		if !f.IsExported() {
			continue
		}
		if f.Type.Kind() == reflect.Struct && f.Type != reflect.TypeOf(time.Time{}) {
			out = append(out, leafPaths(f.Type, prefix+f.Name+".")...)
		} else {
			out = append(out, prefix+f.Name)
		}
	}
	return out
}

func fieldByPath(v reflect.Value, path string) reflect.Value {
	for _, p := range strings.Split(path, ".") {
		v = v.FieldByName(p)
	}
	return v
}

// setLeaf sets a leaf field from its text value: "0" leaves it unset.
func setLeaf(f reflect.Value, val string) {
	t := f.Type()
	switch t.Kind() {
	case reflect.Bool:
		f.SetBool(val == "1")
	case reflect.Int, reflect.Int64:
		v := atoi(val)
		if v >= 900 { // tags from 900 up stand for NEGATIVE values: set, but not positive
			v = -(v - 900)
		}
		f.SetInt(v)
	case reflect.Func:
		tag := int(atoi(val))
		if tag == 0 {
			return
		}
		f.Set(reflect.MakeFunc(t, func(args []reflect.Value) []reflect.Value {
			lastFuncTag = tag
			outs := make([]reflect.Value, t.NumOut())
			for i := range outs {
				outs[i] = reflect.Zero(t.Out(i))
			}
			return outs
		}))
	case reflect.Slice:
		inner := strings.Trim(val, "[]")
		if inner == "" {
			return
		}
		s := reflect.MakeSlice(t, 0, 4)
		for _, e := range strings.Split(inner, ".") {
			s = reflect.Append(s, reflect.ValueOf(tagRec{int(atoi(e))}))
		}
		f.Set(s)
	case reflect.Map:
		inner := strings.Trim(val, "{}")
		if inner == "" {
			return
		}
		m := reflect.MakeMap(t)
		for _, kv := range strings.Split(inner, ",") {
			p := strings.Split(kv, ":")
			val := reflect.ValueOf(int(atoi(p[1])))
			if atoi(p[1]) == 0 { // an entry that is present with a nil value
				val = reflect.Zero(t.Elem())
			}
			m.SetMapIndex(reflect.ValueOf(int(atoi(p[0]))), val)
		}
		f.Set(m)
	default:
		panic("unsupported leaf kind " + t.String())
	}
}

func getLeaf(f reflect.Value) string {
	t := f.Type()
	switch t.Kind() {
	case reflect.Bool:
		return b01(f.Bool())
	case reflect.Int, reflect.Int64:
		if f.Int() < 0 {
			return strconv.FormatInt(900-f.Int(), 10)
		}
		return strconv.FormatInt(f.Int(), 10)
	case reflect.Func:
		if f.IsNil() {
			return "0"
		}
		args := make([]reflect.Value, t.NumIn())
		for i := range args {
			args[i] = reflect.Zero(t.In(i))
		}
		lastFuncTag = 899 // a function that is none of the harness's tagged ones (e.g. a library default)
		f.Call(args)
		return strconv.Itoa(lastFuncTag)
	case reflect.Slice:
		parts := make([]string, f.Len())
		for i := range parts {
			if tr, ok := f.Index(i).Interface().(tagRec); ok {
				parts[i] = strconv.Itoa(tr.tag)
			} else {
				parts[i] = "?"
			}
		}
		return "[" + strings.Join(parts, ".") + "]"
	case reflect.Map:
		type kv struct{ k, v int }
		var l []kv
		it := f.MapRange()
		for it.Next() {
			vi := 0
			if x, ok := it.Value().Interface().(int); ok {
				vi = x
			}
			l = append(l, kv{it.Key().Interface().(int), vi})
		}
		sort.Slice(l, func(i, j int) bool { return l[i].k < l[j].k })
		parts := make([]string, len(l))
		for i, e := range l {
			parts[i] = fmt.Sprintf("%d:%d", e.k, e.v)
		}
		return "{" + strings.Join(parts, ",") + "}"
	}
	return "?"
}

func randLeaf(r *rand.Rand, t reflect.Type, side int, set bool) string {
	base := side * 10 // receiver tags 11.., other tags 21..
	switch t.Kind() {
	case reflect.Bool:
		return b01(set)
	case reflect.Slice:
		if !set {
			return "[]"
		}
		n := 1 + r.Intn(2)
		parts := make([]string, n)
		for i := range parts {
			parts[i] = strconv.Itoa(base + 1 + r.Intn(3))
		}
		return "[" + strings.Join(parts, ".") + "]"
	case reflect.Map:
		if !set {
			return "{}"
		}
		keys := r.Perm(4)[:1+r.Intn(3)]
		sort.Ints(keys)
		parts := make([]string, len(keys))
		for i, k := range keys {
			v := base + k
			if r.Intn(4) == 0 {
				v = 0 // present, nil value
			}
			parts[i] = fmt.Sprintf("%d:%d", k, v)
		}
		return "{" + strings.Join(parts, ",") + "}"
	default:
		if !set {
			return "0"
		}
		if (t.Kind() == reflect.Int || t.Kind() == reflect.Int64) && r.Intn(4) == 0 {
			return strconv.Itoa(900 + 1 + r.Intn(3)) // a negative value
		}
		return strconv.Itoa(base + 1 + r.Intn(3))
	}
}

func encodeSide(r *rand.Rand, t reflect.Type, paths []string, side int, force map[string]bool) string {
	parts := make([]string, len(paths))
	for i, p := range paths {
		f, _ := fieldTypeByPath(t, p)
		set, forced := force[p]
		if !forced {
			set = r.Intn(2) == 0
		}
		parts[i] = p + "=" + randLeaf(r, f, side, set)
	}
	return strings.Join(parts, ";")
}

func fieldTypeByPath(t reflect.Type, path string) (reflect.Type, bool) {
	for _, p := range strings.Split(path, ".") {
		f, ok := t.FieldByName(p)
		if !ok {
			return nil, false
		}
		t = f.Type
	}
	return t, true
}

func (mergeSuite) Gen(r *rand.Rand, i int) Case {
	names := entryNames()
	name := names[i%len(names)]
	t := mergeEntry[name]
	paths := leafPaths(t, "")
	c := Case{Header: "merge type=" + name, Tags: []string{"type-" + name}}
	// per-field exhaustive table: every leaf x {unset,set} on both sides, other leaves random
	for _, p := range paths {
		for _, rs := range []bool{false, true} {
			for _, os := range []bool{false, true} {
				c.Ops = append(c.Ops, "m "+encodeSide(r, t, paths, 1, map[string]bool{p: rs})+" | "+encodeSide(r, t, paths, 2, map[string]bool{p: os}))
			}
		}
	}
	for j := 0; j < 6; j++ {
		c.Ops = append(c.Ops, "m "+encodeSide(r, t, paths, 1, nil)+" | "+encodeSide(r, t, paths, 2, nil))
	}
	// aliasing: recv.Merge(o1); recv.Merge(o2) must leave o1 exactly as it was (a receiver that adopts o1's map or
	// slice instead of copying lets the second merge write into o1)
	for j := 0; j < 6; j++ {
		c.Ops = append(c.Ops, "a "+encodeSide(r, t, paths, 1, map[string]bool{})+" | "+encodeSide(r, t, paths, 2, nil)+" | "+encodeSide(r, t, paths, 3, nil))
	}
	// shared backing arrays: r1.Merge(o1); r1.Merge(o2); then ANOTHER receiver r2.Merge(o1); r2.Merge(o3) — r1 must still
	// read fold(r1, o1, o2) (a receiver that adopts o1's slice instead of copying shares its spare capacity with r2)
	allUnset := map[string]bool{}
	for _, p := range paths {
		allUnset[p] = false
	}
	for j := 0; j < 6; j++ {
		e1, e2 := map[string]bool(nil), map[string]bool(nil)
		if j%2 == 0 {
			e1, e2 = allUnset, allUnset // two EMPTY receivers: the case in which adopting the other side's storage is tempting
		}
		c.Ops = append(c.Ops, "b "+encodeSide(r, t, paths, 1, e1)+" | "+encodeSide(r, t, paths, 2, nil)+" | "+encodeSide(r, t, paths, 3, nil)+" | "+encodeSide(r, t, paths, 4, e2)+" | "+encodeSide(r, t, paths, 5, nil))
	}
	for j := 0; j < 0; j++ {
		c.Ops = append(c.Ops, "b "+encodeSide(r, t, paths, 1, nil)+" | "+encodeSide(r, t, paths, 2, nil)+" | "+encodeSide(r, t, paths, 3, nil)+" | "+encodeSide(r, t, paths, 4, nil)+" | "+encodeSide(r, t, paths, 5, nil))
	}
	// factory layering (hystrix.Factory, responsetimeslo.Factory): per-circuit constructors from last to first, then the
	// factory's own config, then the library defaults — a fold of Merge
	if _, ok := factoryResult[name]; ok {
		dflt := factoryResult[name](t, nil, reflect.New(t).Elem())
		dparts := make([]string, len(paths))
		for j, p := range paths {
			dparts[j] = p + "=" + getLeaf(fieldByPath(dflt, p))
		}
		for j := 0; j < 10; j++ {
			k := r.Intn(4)
			layers := make([]string, 0, k+2)
			for l := 0; l <= k; l++ { // k constructors + the base config
				// the factory CONSTRUCTS the object: keep the values constructible (no negative bucket counts)
				layers = append(layers, negTag.ReplaceAllString(encodeSide(r, t, paths, 1+l, nil), "=$1"))
			}
			layers = append(layers, strings.Join(dparts, ";"))
			c.Ops = append(c.Ops, "f "+strings.Join(layers, " | "))
		}
		c.Tags = append(c.Tags, "factory-fold")
	}
	c.Tags = append(c.Tags, fmt.Sprintf("leaves-%d", len(paths)))
	return c
}

// factoryResult runs the REAL factory of a config type on constructor layers + base config and returns the
// configuration the created object ends up with
var factoryResult = map[string]func(t reflect.Type, ctors []reflect.Value, base reflect.Value) reflect.Value{
	"hystrix.ConfigureCloser": func(t reflect.Type, ctors []reflect.Value, base reflect.Value) reflect.Value {
		f := hystrix.Factory{ConfigureCloser: base.Interface().(hystrix.ConfigureCloser)}
		for _, c := range ctors {
			v := c.Interface().(hystrix.ConfigureCloser)
			f.CreateConfigureCloser = append(f.CreateConfigureCloser, func(string) hystrix.ConfigureCloser { return v })
		}
		cl := f.Configure("x").General.OpenToClosedFactory().(*hystrix.Closer)
		return reflect.ValueOf(cl.Config())
	},
	"hystrix.ConfigureOpener": func(t reflect.Type, ctors []reflect.Value, base reflect.Value) reflect.Value {
		f := hystrix.Factory{ConfigureOpener: base.Interface().(hystrix.ConfigureOpener)}
		for _, c := range ctors {
			v := c.Interface().(hystrix.ConfigureOpener)
			f.CreateConfigureOpener = append(f.CreateConfigureOpener, func(string) hystrix.ConfigureOpener { return v })
		}
		op := f.Configure("x").General.ClosedToOpenFactory().(*hystrix.Opener)
		return reflect.ValueOf(op.Config())
	},
	"responsetimeslo.Config": func(t reflect.Type, ctors []reflect.Value, base reflect.Value) reflect.Value {
		f := responsetimeslo.Factory{Config: base.Interface().(responsetimeslo.Config)}
		for _, c := range ctors {
			v := c.Interface().(responsetimeslo.Config)
			f.ConfigConstructor = append(f.ConfigConstructor, func(string) responsetimeslo.Config { return v })
		}
		tr := f.CommandProperties("x").Metrics.Run[0].(*responsetimeslo.Tracker)
		return reflect.ValueOf(tr.Config())
	},
}

func (mergeSuite) Nontrivial(tags map[string]int) bool { return true }

func decodeInto(v reflect.Value, enc string) {
	for _, kv := range strings.Split(enc, ";") {
		i := strings.IndexByte(kv, '=')
		if i < 0 {
			continue
		}
		setLeaf(fieldByPath(v, kv[:i]), kv[i+1:])
	}
}

func (mergeSuite) Run(h map[string]string, ops []string) []string {
	t, ok := mergeEntry[h["type"]]
	out := make([]string, len(ops))
	if !ok {
		for i := range out {
			out[i] = "unknown-type"
		}
		return out
	}
	paths := leafPaths(t, "")
	for i, op := range ops {
		out[i] = func() (res string) {
			defer func() {
				if r := recover(); r != nil {
					res = fmt.Sprintf("panic:%v", r)
				}
			}()
			if strings.HasPrefix(op, "f ") {
				layers := strings.Split(strings.TrimPrefix(op, "f "), " | ")
				fr, ok := factoryResult[h["type"]]
				if !ok || len(layers) < 2 {
					return "bad-op"
				}
				var ctors []reflect.Value
				for _, l := range layers[:len(layers)-2] {
					v := reflect.New(t).Elem()
					decodeInto(v, l)
					ctors = append(ctors, v)
				}
				base := reflect.New(t).Elem()
				decodeInto(base, layers[len(layers)-2])
				got := fr(t, ctors, base)
				parts := make([]string, len(paths))
				for j, p := range paths {
					parts[j] = p + "=" + getLeaf(fieldByPath(got, p))
				}
				return strings.Join(parts, ";")
			}
			if strings.HasPrefix(op, "b ") {
				sides := strings.Split(strings.TrimPrefix(op, "b "), " | ")
				vals := make([]reflect.Value, 5)
				for k := range vals {
					vals[k] = reflect.New(t)
					decodeInto(vals[k].Elem(), sides[k])
				}
				r1, o1, o2, r2, o3 := vals[0], vals[1].Elem(), vals[2].Elem(), vals[3], vals[4].Elem()
				r1.MethodByName("Merge").Call([]reflect.Value{o1})
				r1.MethodByName("Merge").Call([]reflect.Value{o2})
				r2.MethodByName("Merge").Call([]reflect.Value{o1})
				r2.MethodByName("Merge").Call([]reflect.Value{o3})
				parts := make([]string, len(paths))
				for j, p := range paths {
					parts[j] = p + "=" + getLeaf(fieldByPath(r1.Elem(), p))
				}
				return strings.Join(parts, ";")
			}
			if strings.HasPrefix(op, "a ") {
				sides := strings.Split(strings.TrimPrefix(op, "a "), " | ")
				recv := reflect.New(t)
				o1, o2 := reflect.New(t).Elem(), reflect.New(t).Elem()
				decodeInto(recv.Elem(), sides[0])
				decodeInto(o1, sides[1])
				decodeInto(o2, sides[2])
				recv.MethodByName("Merge").Call([]reflect.Value{o1})
				recv.MethodByName("Merge").Call([]reflect.Value{o2})
				parts := make([]string, len(paths))
				for j, p := range paths {
					parts[j] = p + "=" + getLeaf(fieldByPath(o1, p))
				}
				return strings.Join(parts, ";")
			}
			body := strings.TrimPrefix(op, "m ")
			sides := strings.Split(body, " | ")
			recv := reflect.New(t)
			other := reflect.New(t).Elem()
			decodeInto(recv.Elem(), sides[0])
			decodeInto(other, sides[1])
			recv.MethodByName("Merge").Call([]reflect.Value{other})
			parts := make([]string, len(paths))
			for j, p := range paths {
				parts[j] = p + "=" + getLeaf(fieldByPath(recv.Elem(), p))
			}
			return strings.Join(parts, ";")
		}()
	}
	return out
}

// seqdiff — sequential differential harness (H1/K1).
//
//	seqdiff -suite rc -seed 7 -cases 2000 -out DIR       generate cases, run them on the real code
//	seqdiff -suite rc -replay FILE -out DIR              run the cases of FILE on the real code
//
// Writes DIR/<suite>.cases (input lines), DIR/<suite>.real (exactly one output line per input line) and
// DIR/<suite>.stats.json.  Everything the real code is asked to do is derived from the text of the case, so a
// case file replays exactly.
package main

import (
	"time"
	"bufio"
	"encoding/json"
	"flag"
	"fmt"
	"hash/fnv"
	"math/rand"
	"os"
	"path/filepath"
	"sort"
	"strings"
)

// Case is one independent scenario: a header ("<suite> k=v ...") and op lines.
type Case struct {
	Header string
	Ops    []string
	// Tags are generator-side labels (branch intents) used only for the distribution statistics.
	Tags []string
}

// Suite generates cases and runs them against the real implementation.
type Suite interface {
	// Gen produces the i-th case from the PRNG.
	Gen(r *rand.Rand, i int) Case
	// Run executes a case (parsed from text) and returns exactly one output line per op.
	Run(header map[string]string, ops []string) []string
	// Nontrivial says whether the tag set of a case counts as non-trivial for the evidence.
	Nontrivial(tags map[string]int) bool
}

var suites = map[string]Suite{}

func register(name string, s Suite) { suites[name] = s }

func parseHeader(h string) (string, map[string]string) {
	toks := strings.Fields(h)
	kv := map[string]string{}
	if len(toks) == 0 {
		return "", kv
	}
	for _, t := range toks[1:] {
		if i := strings.IndexByte(t, '='); i > 0 {
			kv[t[:i]] = t[i+1:]
		}
	}
	return toks[0], kv
}

func readCases(path string) ([]Case, error) {
	f, err := os.Open(path)
	if err != nil {
		return nil, err
	}
	defer f.Close()
	var out []Case
	var cur *Case
	sc := bufio.NewScanner(f)
	sc.Buffer(make([]byte, 1<<20), 1<<26)
	for sc.Scan() {
		l := strings.TrimRight(sc.Text(), "\r\n")
		switch {
		case strings.HasPrefix(l, "case "):
			cur = &Case{Header: l[5:]}
		case l == "end":
			if cur != nil {
				out = append(out, *cur)
			}
			cur = nil
		case l == "" || strings.HasPrefix(l, "#"):
		default:
			if cur != nil {
				cur.Ops = append(cur.Ops, l)
			}
		}
	}
	return out, sc.Err()
}

// safeRun runs a whole case; a suite recovers per op itself, this is the last line of defence.
func safeRun(s Suite, c Case) (res []string) {
	defer func() {
		if r := recover(); r != nil {
			res = make([]string, len(c.Ops))
			for i := range res {
				res[i] = fmt.Sprintf("harness-panic:%v", r)
			}
		}
	}()
	_, kv := parseHeader(c.Header)
	defer stopTimers()
	res = s.Run(kv, c.Ops)
	for len(res) < len(c.Ops) {
		res = append(res, "missing")
	}
	return res[:len(c.Ops)]
}

func main() {
	suiteName := flag.String("suite", "", "suite name")
	seed := flag.Int64("seed", 1, "PRNG seed")
	n := flag.Int("cases", 100, "number of cases to generate")
	replay := flag.String("replay", "", "case file to run instead of generating")
	outDir := flag.String("out", ".", "output directory")
	dumpOnly := flag.Bool("dump", false, "only write the generated cases (do not run them)")
	flag.Parse()
	s, ok := suites[*suiteName]
	if !ok {
		fmt.Fprintln(os.Stderr, "unknown suite", *suiteName)
		os.Exit(2)
	}
	var cases []Case
	if *replay != "" {
		var err error
		cases, err = readCases(*replay)
		if err != nil {
			fmt.Fprintln(os.Stderr, err)
			os.Exit(2)
		}
	} else {
		r := rand.New(rand.NewSource(*seed))
		for i := 0; i < *n; i++ {
			cases = append(cases, s.Gen(r, i))
		}
	}
	if err := os.MkdirAll(*outDir, 0o755); err != nil {
		panic(err)
	}
	cf, _ := os.Create(filepath.Join(*outDir, *suiteName+".cases"))
	rf, _ := os.Create(filepath.Join(*outDir, *suiteName+".real"))
	cw, rw := bufio.NewWriter(cf), bufio.NewWriter(rf)
	tagTotals := map[string]int{}
	opKinds := map[string]int{}
	distinct := map[uint64]bool{}
	distinctNontrivial := 0
	totalOps := 0
	for _, c := range cases {
		fmt.Fprintf(cw, "case %s\n", c.Header)
		fmt.Fprintln(rw, "#case")
		var res []string
		if *dumpOnly {
			res = make([]string, len(c.Ops))
		} else {
			res = safeRun(s, c)
		}
		for i, op := range c.Ops {
			fmt.Fprintln(cw, op)
			fmt.Fprintln(rw, res[i])
			k := op
			if j := strings.IndexByte(op, ' '); j > 0 {
				k = op[:j]
			}
			opKinds[k]++
		}
		totalOps += len(c.Ops)
		fmt.Fprintln(cw, "end")
		fmt.Fprintln(rw, "#end")
		tags := map[string]int{}
		for _, t := range c.Tags {
			tags[t]++
			tagTotals[t]++
		}
		h := fnv.New64a()
		h.Write([]byte(c.Header))
		for _, op := range c.Ops {
			h.Write([]byte{'\n'})
			h.Write([]byte(op))
		}
		if !distinct[h.Sum64()] {
			distinct[h.Sum64()] = true
			if *replay == "" && s.Nontrivial(tags) {
				distinctNontrivial++
			}
		}
	}
	cw.Flush()
	rw.Flush()
	cf.Close()
	rf.Close()
	keys := make([]string, 0, len(tagTotals))
	for k := range tagTotals {
		keys = append(keys, k)
	}
	sort.Strings(keys)
	stats := map[string]interface{}{
		"suite":               *suiteName,
		"seed":                *seed,
		"cases":               len(cases),
		"ops":                 totalOps,
		"distinct_cases":      len(distinct),
		"distinct_nontrivial": distinctNontrivial,
		"op_kinds":            opKinds,
		"generator_tags":      tagTotals,
	}
	b, _ := json.MarshalIndent(stats, "", " ")
	os.WriteFile(filepath.Join(*outDir, *suiteName+".stats.json"), b, 0o644)
}

// sleepingTimer is a REAL *time.Timer that will not fire during the run: the harness fires the recorded callbacks by
// hand, but code that looks at the timer it was handed (non-nil? Stop()) must see a real one.
func sleepingTimer() *time.Timer {
	t := time.AfterFunc(10000*time.Hour, func() {})
	liveTimers = append(liveTimers, t)
	return t
}

var liveTimers []*time.Timer

// stopTimers releases the timers handed out during one case (they would otherwise stay in the runtime's heap).
func stopTimers() {
	for _, t := range liveTimers {
		t.Stop()
	}
	liveTimers = liveTimers[:0]
}

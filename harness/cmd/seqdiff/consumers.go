package main

import (
	"github.com/cep21/circuit/v4/faststats"
	"context"
	"encoding/json"
	"expvar"
	"fmt"
	"math/big"
	"math/rand"
	"net/http"
	"net/http/httptest"
	"strings"
	"sync"
	"time"

	circuit "github.com/cep21/circuit/v4"
	"github.com/cep21/circuit/v4/metriceventstream"
	"github.com/cep21/circuit/v4/metrics/responsetimeslo"
	"github.com/cep21/circuit/v4/metrics/rolling"
)

type consumersSuite struct{}

func init() { register("consumers", consumersSuite{}) }

type sloCounter struct{ pass, fail int }

func (s *sloCounter) Passed() { s.pass++ }
func (s *sloCounter) Failed() { s.fail++ }

func (consumersSuite) Gen(r *rand.Rand, i int) Case {
	n := 1 + r.Intn(4)
	// a third of the cases count in milliseconds instead of nanoseconds: the event stream reports latencies in whole
	// milliseconds, so only there do its latency fields say anything
	unit := []int64{1, 1, 1_000_000}[r.Intn(3)]
	width := []int64{20, 100, 1000}[r.Intn(3)] * unit
	dur := int64(n) * width
	pn := 1 + r.Intn(3)
	pdur := int64(pn) * width * 2
	slo := []int64{1, 5, 50}[r.Intn(3)] * unit
	to := []int64{0, 5, 50}[r.Intn(3)] * unit
	psize := 1 + r.Intn(4)
	hn, hdur, hpn, hpdur, hpsize := n, dur, pn, pdur, psize
	var dtags []string
	if r.Intn(8) == 0 {
		// the statistics' windows LEFT UNSET (0): the documented defaults apply — 10 buckets over 10 s for the counters,
		// 6 buckets of 100 samples over 60 s for the latencies
		dtags = append(dtags, "defaults")
		if u := r.Intn(3); u != 1 {
			hn, hdur = 0, 0
			n, width, dur = 10, 1_000_000_000, 10_000_000_000
		}
		if u := r.Intn(3); u != 1 {
			hpn, hpdur, hpsize = 0, 0, 0
			pn, pdur, psize = 6, 60_000_000_000, 100
		}
	}
	if len(dtags) > 0 && r.Intn(2) == 0 {
		slo = 0 // unset on every layer: 250 ms; the run durations below sit around it
	}
	_ = psize
	c := Case{Header: fmt.Sprintf("consumers n=%d dur=%d pn=%d pdur=%d psize=%d slo=%d to=%d mc=%d fbmc=%d", hn, hdur, hpn, hpdur, hpsize, slo, to,
		[]int64{-1, 0, 10, 10}[r.Intn(4)], []int64{-1, 0, 10, 10}[r.Intn(4)]), Tags: dtags}
	if r.Intn(8) == 0 {
		c.Header += " coll=run" // the circuit carries rolling.RunStats but no rolling.FallbackStats (collectors set by hand)
		c.Tags = append(c.Tags, "run-stats-only")
	}
	id := 1
	if len(dtags) > 0 && hpn == 0 {
		// directed prelude for the unset latency window (6 buckets of 100 samples over 60 s): one slow call stamped 11 s
		// in — the second 10 s bucket — must still be in the sample 54 s later (it leaves with ITS bucket, at 70 s), and a
		// burst of 101 calls inside one bucket keeps exactly the latest 100
		c.Ops = append(c.Ops, "tick 11000000000", fmt.Sprintf("exec ctx=bg run=nil radv=%d rcancel=0 fb=none fadv=1 fcancel=0 ans=0000", 9*unit),
			"tick 54000000000", "stats", "tick 4000000000", "stats", "tick 1000000000", "stats")
		if r.Intn(2) == 0 {
			for k := 0; k < 101; k++ {
				c.Ops = append(c.Ops, fmt.Sprintf("exec ctx=bg run=nil radv=%d rcancel=0 fb=none fadv=1 fcancel=0 ans=0000", int64(k%7)*unit))
			}
			c.Ops = append(c.Ops, "stats")
		}
	}
	mLong := 3 + r.Intn(30)
	if r.Intn(25) == 0 {
		mLong = 150 + r.Intn(250) // a long history
	}
	for j, m := 0, mLong; j < m; j++ {
		switch x := r.Intn(100); {
		case x < 60:
			run := pick(r, "nil", "nil", fmt.Sprintf("e%d", id), fmt.Sprintf("e%d", id), fmt.Sprintf("bad%d", id), "ctxerr")
			id++
			sloEff := slo
			if sloEff == 0 {
				sloEff = 250_000_000
			}
			radv := []int64{0, unit, sloEff - 2, sloEff - 1, sloEff, to - 2, to - 1, to, 7*unit + unit/2}[r.Intn(9)]
			if radv < 0 {
				radv = 0
			}
			if r.Intn(30) == 0 {
				radv = []int64{-3, -1000}[r.Intn(2)] // the substitute clock is set back while the function runs: a negative duration
				c.Tags = append(c.Tags, "negative-duration")
			}
			ctx := pick(r, "bg", "bg", "bg", "cancelled")
			fb := pick(r, "none", "nil", fmt.Sprintf("e%d", id))
			id++
			c.Ops = append(c.Ops, fmt.Sprintf("exec ctx=%s run=%s radv=%d rcancel=0 fb=%s fadv=1 fcancel=0 ans=0000", ctx, run, radv, fb))
		case x < 64:
			c.Ops = append(c.Ops, pick(r, "open", "close"))
			c.Tags = append(c.Tags, "short-circuit-phase")
		case x < 66:
			c.Ops = append(c.Ops, fmt.Sprintf("setcfg mc=%d partial=%d", []int64{-1, 0, 10}[r.Intn(3)], r.Intn(2)), "var")
			c.Tags = append(c.Tags, "reconfig")
		case x < 76:
			c.Ops = append(c.Ops, fmt.Sprintf("tick %d", []int64{1, width - 1, width, dur - 1, dur, 3 * dur, pdur / int64(pn), pdur - pdur/int64(pn), pdur - 1, pdur}[r.Intn(10)]))
			c.Tags = append(c.Tags, "tick")
		case x < 78:
			// the substitute clock is set BACK (around one window): late-stamped events
			c.Ops = append(c.Ops, fmt.Sprintf("tick -%d", []int64{1, width, dur - width, dur - 1, dur, dur + 1, dur + width}[r.Intn(7)]))
			c.Tags = append(c.Tags, "clock-set-back")
		case x < 90:
			c.Ops = append(c.Ops, "stats")
		case x < 96:
			c.Ops = append(c.Ops, "slo")
		default:
			c.Ops = append(c.Ops, "stream")
			c.Tags = append(c.Tags, "stream")
		}
	}
	c.Ops = append(c.Ops, "stats", "slo")
	if r.Intn(5) == 0 {
		// the substitute clock runs far BEHIND the wall clock (all other cases: far ahead of it): a consumer that reads
		// the wall clock anywhere rolls every window out.  The call's context then expires at once in real time, so
		// no function reports the context's state, and every reconfiguration keeps the TimeKeeper.  The expvar view is
		// not read either: faststats' argument-less readers (RollingPercentile.Var -> Snapshot()) are DOCUMENTED to read
		// the wall clock, so RunStats.Var rolls the latency window to the wall clock's time — outside every listed
		// property (see DESIGN §9)
		c.Header += " base=past"
		c.Tags = append(c.Tags, "clock-behind-wall-clock")
		for k, op := range c.Ops {
			op = strings.Replace(op, "run=ctxerr", "run=nil", 1)
			if op == "var" {
				op = "stats"
			}
			c.Ops[k] = strings.Replace(op, "partial=1", "partial=0", 1)
		}
	}
	return c
}

func (consumersSuite) Nontrivial(tags map[string]int) bool { return tags["tick"] > 0 }

type flushRecorder struct {
	*httptest.ResponseRecorder
	mu     sync.Mutex
	chunks chan []byte
	n      int
	slow   bool
}

func (f *flushRecorder) Write(b []byte) (int, error) {
	f.mu.Lock()
	f.n++
	n := f.n
	f.mu.Unlock()
	if f.slow && n <= 2 {
		time.Sleep(1200 * time.Microsecond) // a slow listener: later records queue up behind the one being written
	}
	select {
	case f.chunks <- append([]byte(nil), b...):
	default:
	}
	return len(b), nil
}
func (f *flushRecorder) Flush() {}

func ratStr(f float64) string {
	r := new(big.Rat)
	if r.SetFloat64(f) == nil {
		return "nan"
	}
	return r.RatString()
}

func int64s(l ...int64) string { return fmtInts(l) }

func (consumersSuite) Run(h map[string]string, ops []string) []string {
	if h["base"] == "past" {
		defer func(b time.Time) { clockBase = b }(clockBase)
		clockBase = time.Date(2001, 1, 1, 0, 0, 0, 0, time.UTC)
	}
	constNow := func() time.Time { return clockBase }
	sf := &rolling.StatFactory{
		RunConfig: rolling.RunStatsConfig{Now: constNow, RollingStatsDuration: time.Duration(getI(h, "dur", 10_000_000_000)), RollingStatsNumBuckets: int(getI(h, "n", 10)),
			RollingPercentileDuration: time.Duration(getI(h, "pdur", 60_000_000_000)), RollingPercentileNumBuckets: int(getI(h, "pn", 6)), RollingPercentileBucketSize: int(getI(h, "psize", 100))},
		FallbackConfig: rolling.FallbackStatsConfig{Now: constNow, RollingStatsDuration: time.Duration(getI(h, "dur", 10_000_000_000)), RollingStatsNumBuckets: int(getI(h, "n", 10))},
	}
	sc := &sloCounter{}
	// the healthy time is layered: a factory-wide value, a general constructor appended first, a per-circuit constructor
	// appended LAST (the last one appended has the highest precedence) — only the per-circuit one carries the value
	// the case is about
	sloV := time.Duration(getI(h, "slo", 250_000_000))
	slof := &responsetimeslo.Factory{Config: responsetimeslo.Config{MaximumHealthyTime: sloV*7 + 3},
		ConfigConstructor: []func(string) responsetimeslo.Config{
			func(string) responsetimeslo.Config { return responsetimeslo.Config{MaximumHealthyTime: sloV*10 + 1} },
			func(name string) responsetimeslo.Config {
				if name == "c" {
					return responsetimeslo.Config{MaximumHealthyTime: sloV}
				}
				return responsetimeslo.Config{}
			},
		},
		CollectorConstructors: []func(string) responsetimeslo.Collector{func(string) responsetimeslo.Collector { return sc }}}
	if sloV == 0 {
		// slo=0: the healthy time is LEFT UNSET on every layer — the documented default (250 ms) applies
		slof = &responsetimeslo.Factory{CollectorConstructors: slof.CollectorConstructors}
	}
	statCtor := sf.CreateConfig
	if h["coll"] == "run" {
		statCtor = func(name string) circuit.Config {
			cfg := sf.CreateConfig(name)
			cfg.Metrics.Fallback = nil // no FallbackStats on this circuit: its part of every report reads zero
			return cfg
		}
	}
	mgr := &circuit.Manager{DefaultCircuitProperties: []circuit.CommandPropertiesConstructor{statCtor, slof.CommandProperties}}
	e := newCenvWith(h, mgr)
	mgr.MustCreateCircuit("d") // an idle sibling: its stream records must stay empty and never replace the other's
	rs, fs := sf.RunStats("c"), sf.FallbackStats("c")
	var tracker *responsetimeslo.Tracker
	for _, m := range e.c.CmdMetricCollector {
		if t, ok := m.(*responsetimeslo.Tracker); ok {
			tracker = t
		}
	}
	var fsVar, rsVar, trVar expvar.Var
	if fs != nil {
		fsVar = fs.Var()
	}
	if rs != nil {
		rsVar = rs.Var()
	}
	if tracker != nil {
		trVar = tracker.Var()
	}
	out := make([]string, len(ops))
	streamOps := 0
	lastPartial := false // the stored config has no TimeKeeper: diagnostics then read the wall clock, not the substitute one
	for i, op := range ops {
		out[i] = func() (res string) {
			defer func() {
				if r := recover(); r != nil {
					res = fmt.Sprintf("panic:%v", r)
				}
			}()
			f := strings.Fields(op)
			m := kvs(f[1:])
			now := clockBase.Add(time.Duration(e.clk.now))
			if f[0] == "setcfg" {
				lastPartial = m["partial"] == "1"
			}
			switch f[0] {
			case "exec":
				line := e.exec(m)
				lk := kvs(strings.Fields(line))
				return fmt.Sprintf("res=%s ev=%s open=%s", lk["res"], lk["ev"], lk["open"])
			case "open", "close":
				e.resetLogs()
				if f[0] == "open" {
					e.c.OpenCircuit(context.Background())
				} else {
					e.c.CloseCircuit(context.Background())
				}
				return fmt.Sprintf("ev=%s open=%s", listOr(e.recs[0].log, ";"), b01(e.c.IsOpen()))
			case "setcfg":
				applyCfg(&e.base, m)
				if m["partial"] == "1" {
					var p circuit.Config // only the retuned settings: no TimeKeeper, factories, collectors
					p.General.ForceOpen, p.General.ForcedClosed, p.General.Disabled = e.base.General.ForceOpen, e.base.General.ForcedClosed, e.base.General.Disabled
					p.Execution.Timeout, p.Execution.MaxConcurrentRequests = e.base.Execution.Timeout, e.base.Execution.MaxConcurrentRequests
					p.Execution.IgnoreInterrupts, p.Execution.IsErrInterrupt = e.base.Execution.IgnoreInterrupts, e.base.Execution.IsErrInterrupt
					p.Fallback.Disabled, p.Fallback.MaxConcurrentRequests = e.base.Fallback.Disabled, e.base.Fallback.MaxConcurrentRequests
					e.c.SetConfigThreadSafe(p)
				} else {
					e.c.SetConfigThreadSafe(e.base)
				}
				return "open=" + b01(e.c.IsOpen())
			case "var":
				// every read-side diagnostic: circuit and manager expvar, config copy, gauges
				_ = mgr.Var().String()
				_ = e.c.Config()
				_ = e.c.ConcurrentCommands() + e.c.ConcurrentFallbacks()
				// ... and what the circuit's own expvar view SAYS: state, name, per-kind totals of the attached RunStats
				var v struct {
					IsOpen     bool                         `json:"is_open"`
					Name       string                       `json:"name"`
					RunMetrics []map[string]json.RawMessage `json:"run_metrics"`
				}
				if err := json.Unmarshal([]byte(e.c.Var().String()), &v); err != nil {
					return "var-bad-json"
				}
				tot := "none"
				for _, m := range v.RunMetrics {
					if _, ok := m["Successes"]; !ok {
						continue
					}
					ts := func(k string) int64 {
						var c struct{ TotalSum int64 }
						_ = json.Unmarshal(m[k], &c)
						return c.TotalSum
					}
					tot = int64s(ts("Successes"), ts("ErrConcurrencyLimitRejects"), ts("ErrFailures"), ts("ErrShortCircuits"), ts("ErrTimeouts"), ts("ErrBadRequests"), ts("ErrInterrupts"))
				}
				// handles obtained ONCE at start-up (expvar.Publish) must follow the history like fresh ones
				if fs != nil {
					var fv struct{ Successes, ErrConcurrencyLimitRejects, ErrFailures int64 }
					if err := json.Unmarshal([]byte(fsVar.String()), &fv); err != nil {
						return "var-bad-json"
					}
					if fv.Successes != fs.Successes.TotalSum() || fv.ErrConcurrencyLimitRejects != fs.ErrConcurrencyLimitRejects.TotalSum() || fv.ErrFailures != fs.ErrFailures.TotalSum() {
						return fmt.Sprintf("long-lived-FallbackStats-var-says-%d,%d,%d", fv.Successes, fv.ErrConcurrencyLimitRejects, fv.ErrFailures)
					}
				}
				if rs != nil {
					var rv map[string]json.RawMessage
					if err := json.Unmarshal([]byte(rsVar.String()), &rv); err != nil {
						return "var-bad-json"
					}
					var c struct{ TotalSum int64 }
					_ = json.Unmarshal(rv["Successes"], &c)
					if c.TotalSum != rs.Successes.TotalSum() {
						return fmt.Sprintf("long-lived-RunStats-var-says-%d-successes", c.TotalSum)
					}
				}
				if tracker != nil {
					var tv struct{ Pass, Fail int64 }
					if err := json.Unmarshal([]byte(trVar.String()), &tv); err != nil {
						return "var-bad-json"
					}
					if tv.Pass != tracker.MeetsSLOCount.Get() || tv.Fail != tracker.FailsSLOCount.Get() {
						return fmt.Sprintf("long-lived-tracker-var-says-%d,%d", tv.Pass, tv.Fail)
					}
				}
				return fmt.Sprintf("open=%s vopen=%s vname=%s vtot=%s", b01(e.c.IsOpen()), b01(v.IsOpen), v.Name, tot)
			case "tick":
				e.clk.now += atoi(f[1])
				return "open=" + b01(e.c.IsOpen())
			case "stats":
				roll := int64s(rs.Successes.RollingSumAt(now), rs.ErrConcurrencyLimitRejects.RollingSumAt(now), rs.ErrFailures.RollingSumAt(now), rs.ErrShortCircuits.RollingSumAt(now),
					rs.ErrTimeouts.RollingSumAt(now), rs.ErrBadRequests.RollingSumAt(now), rs.ErrInterrupts.RollingSumAt(now))
				tot := int64s(rs.Successes.TotalSum(), rs.ErrConcurrencyLimitRejects.TotalSum(), rs.ErrFailures.TotalSum(), rs.ErrShortCircuits.TotalSum(),
					rs.ErrTimeouts.TotalSum(), rs.ErrBadRequests.TotalSum(), rs.ErrInterrupts.TotalSum())
				fbroll := int64s(fs.Successes.RollingSumAt(now), fs.ErrConcurrencyLimitRejects.RollingSumAt(now), fs.ErrFailures.RollingSumAt(now))
				fbtot := int64s(fs.Successes.TotalSum(), fs.ErrConcurrencyLimitRejects.TotalSum(), fs.ErrFailures.TotalSum())
				// C14 on every counter a collector OWNS: the rolling sum is the sum of the buckets and lies within [0, total]
				cons := "1"
				for _, rc := range []*faststats.RollingCounter{&rs.Successes, &rs.ErrConcurrencyLimitRejects, &rs.ErrFailures, &rs.ErrShortCircuits, &rs.ErrTimeouts,
					&rs.ErrBadRequests, &rs.ErrInterrupts, &fs.Successes, &fs.ErrConcurrencyLimitRejects, &fs.ErrFailures} {
					sum := int64(0)
					for _, b := range rc.GetBuckets(now) {
						sum += b
					}
					if r := rc.RollingSumAt(now); r != sum || r < 0 || r > rc.TotalSum() {
						cons = "0"
					}
				}
				return fmt.Sprintf("tot=%s roll=%s fbtot=%s fbroll=%s errpct=%s cons=%s", tot, roll, fbtot, fbroll, ratStr(rs.ErrorPercentageAt(now)), cons)
			case "slo":
				return fmt.Sprintf("pass=%d fail=%d cbpass=%d cbfail=%d", tracker.MeetsSLOCount.Get(), tracker.FailsSLOCount.Get(), sc.pass, sc.fail)
			case "stream":
				e.clk.frozen = true
				defer func() { e.clk.frozen = false }()
				es := &metriceventstream.MetricEventStream{Manager: mgr, TickDuration: time.Millisecond}
				// Close does not wait for Start: the op does (a tick still being computed after the clock is unfrozen would
				// move the substitute clock under the next op)
				startDone := make(chan struct{})
				go func() { _ = es.Start(); close(startDone) }()
				closeStream := func() {
					_ = es.Close()
					select {
					case <-startDone:
					case <-time.After(5 * time.Second):
					}
				}
				ctx, cancel := context.WithCancel(context.Background())
				req := httptest.NewRequest(http.MethodGet, "/hystrix.stream", nil).WithContext(ctx)
				streamOps++
				rw := &flushRecorder{ResponseRecorder: httptest.NewRecorder(), chunks: make(chan []byte, 64), slow: streamOps%4 == 1}
				done := make(chan struct{})
				go func() { es.ServeHTTP(rw, req); close(done) }()
				// gather records until both circuits ("c" under test, "d" idle) have been seen
				recs := map[string][]byte{}
				deadline := time.After(5 * time.Second)
			gather:
				for len(recs) < 2 {
					select {
					case chunk := <-rw.chunks:
						for _, line := range strings.Split(string(chunk), "\n") {
							line = strings.TrimSpace(line)
							if !strings.HasPrefix(line, "data:") {
								continue
							}
							var probe struct{ Name string }
							body := strings.TrimSpace(strings.TrimPrefix(line, "data:"))
							if json.Unmarshal([]byte(body), &probe) != nil {
								cancel()
								<-done
								closeStream()
								return "stream-bad-json"
							}
							if _, seen := recs[probe.Name]; !seen {
								recs[probe.Name] = []byte(body)
							}
						}
					case <-deadline:
						break gather
					}
				}
				cancel()
				<-done
				closeStream()
				data := recs["c"]
				if data == nil {
					if len(recs) == 0 {
						return "stream-timeout"
					}
					return "stream-no-record-for-the-circuit"
				}
				if other, ok := recs["d"]; ok {
					var z struct{ RequestCount, CountSuccess, CountFailure, CountShortCircuited int64 }
					if json.Unmarshal(other, &z) != nil || z.RequestCount+z.CountSuccess+z.CountFailure+z.CountShortCircuited != 0 {
						return "stream-record-of-the-idle-circuit-is-not-empty"
					}
				} else {
					return "stream-no-record-for-the-idle-circuit"
				}
				if lastPartial {
					return "stream-ok" // produced without incident; its time base is the wall clock, so the fields are not compared
				}
				var rec map[string]interface{}
				if err := json.Unmarshal(data, &rec); err != nil {
					return "stream-bad-json"
				}
				gi := func(k string) int64 {
					if v, ok := rec[k].(float64); ok {
						return int64(v)
					}
					return -999
				}
				lat, _ := rec["latencyExecute"].(map[string]interface{})
				li := func(k string) int64 {
					if v, ok := lat[k].(float64); ok {
						return int64(v)
					}
					return -999
				}
				return fmt.Sprintf("name=%v open=%s requestCount=%d errorCount=%d errorPercentage=%d rollS=%d rollRej=%d rollF=%d rollSC=%d rollT=%d rollBad=%d cntS=%d cntRej=%d cntF=%d cntSC=%d cntT=%d cntBad=%d fbRollS=%d fbRollRej=%d fbRollF=%d fbCntS=%d fbCntRej=%d fbCntF=%d lat0=%d lat25=%d lat50=%d lat75=%d lat90=%d lat95=%d lat99=%d lat995=%d lat100=%d latMean=%d conc=%d",
					rec["name"], b01(rec["isCircuitBreakerOpen"] == true), gi("requestCount"), gi("errorCount"), gi("errorPercentage"),
					gi("rollingCountSuccess"), gi("rollingCountSemaphoreRejected"), gi("rollingCountFailure"), gi("rollingCountShortCircuited"), gi("rollingCountTimeout"), gi("rollingCountBadRequests"),
					gi("countSuccess"), gi("countSemaphoreRejected"), gi("countFailure"), gi("countShortCircuited"), gi("countTimeout"), gi("countBadRequests"),
					gi("rollingCountFallbackSuccess"), gi("rollingCountFallbackRejection"), gi("rollingCountFallbackFailure"), gi("countFallbackSuccess"), gi("countFallbackRejection"), gi("countFallbackFailure"),
					li("0"), li("25"), li("50"), li("75"), li("90"), li("95"), li("99"), li("99.5"), li("100"), gi("latencyExecute_mean"), gi("currentConcurrentExecutionCount"))
			}
			return "bad-op"
		}()
	}
	return out
}

package main

import (
	"regexp"
	"context"
	"encoding/json"
	"errors"
	"fmt"
	"math/rand"
	"strconv"
	"strings"
	"time"

	circuit "github.com/cep21/circuit/v4"
	"github.com/cep21/circuit/v4/closers/hystrix"
	"github.com/cep21/circuit/v4/closers/simplelogic"
)

// clockBase is the origin of the substitute clock: far in the real future, so that deadlines derived from it never
// fire by themselves and a wall-clock reading is unmistakably foreign.
var clockBase = time.Date(2100, 1, 1, 0, 0, 0, 0, time.UTC)

// fakeClock: every reading returns the current offset and advances it by 1ns, so a timestamp names its reading.
type fakeClock struct {
	now      int64
	readings []int64
	frozen   bool  // diagnostics mode: readings neither advance the clock nor are recorded
	gen      int   // generation of the TimeKeeper that is currently CONFIGURED (see `rebuild`)
	offset   int64 // what the configured TimeKeeper adds to the underlying counter
}

func (c *fakeClock) Now() time.Time { return c.nowOf(0, 0) }

// nowOf is the reading of the TimeKeeper of generation gen (which adds off to the counter).  Only readings of the
// configured generation are recorded: a reading taken through a TimeKeeper that has been replaced is foreign.
func (c *fakeClock) nowOf(gen int, off int64) time.Time {
	r := c.now + off
	if c.frozen {
		return clockBase.Add(time.Duration(r))
	}
	c.now++
	if gen == c.gen {
		c.readings = append(c.readings, r)
	}
	return clockBase.Add(time.Duration(r))
}

func off(t time.Time) int64 { return int64(t.Sub(clockBase)) }

// recorder implements RunMetrics, FallbackMetrics and Metrics and logs what it is told.
type recorder struct {
	log []string
	fb  bool // fallback-side view (circuit.FallbackMetrics has the same method names)
}

type runRec struct{ r *recorder }
type fbRec struct{ r *recorder }

func (r runRec) ev(k string, t time.Time, d time.Duration) {
	r.r.log = append(r.r.log, fmt.Sprintf("run:%s@%d+%d", k, off(t), int64(d)))
}
func (r runRec) Success(_ context.Context, t time.Time, d time.Duration)    { r.ev("success", t, d) }
func (r runRec) ErrFailure(_ context.Context, t time.Time, d time.Duration) { r.ev("failure", t, d) }
func (r runRec) ErrTimeout(_ context.Context, t time.Time, d time.Duration) { r.ev("timeout", t, d) }
func (r runRec) ErrBadRequest(_ context.Context, t time.Time, d time.Duration) {
	r.ev("badrequest", t, d)
}
func (r runRec) ErrInterrupt(_ context.Context, t time.Time, d time.Duration) {
	r.ev("interrupt", t, d)
}
func (r runRec) ErrConcurrencyLimitReject(_ context.Context, t time.Time) { r.ev("reject", t, 0) }
func (r runRec) ErrShortCircuit(_ context.Context, t time.Time)           { r.ev("shortcircuit", t, 0) }
func (r runRec) Opened(_ context.Context, t time.Time) {
	r.r.log = append(r.r.log, fmt.Sprintf("opened@%d", off(t)))
}
func (r runRec) Closed(_ context.Context, t time.Time) {
	r.r.log = append(r.r.log, fmt.Sprintf("closed@%d", off(t)))
}
func (r fbRec) ev(k string, t time.Time, d time.Duration) {
	r.r.log = append(r.r.log, fmt.Sprintf("fb:%s@%d+%d", k, off(t), int64(d)))
}
func (r fbRec) Success(_ context.Context, t time.Time, d time.Duration)    { r.ev("success", t, d) }
func (r fbRec) ErrFailure(_ context.Context, t time.Time, d time.Duration) { r.ev("failure", t, d) }
func (r fbRec) ErrConcurrencyLimitReject(_ context.Context, t time.Time)   { r.ev("reject", t, 0) }

// scripted open/close logic: answers set per op, callbacks recorded.
type scriptedOpener struct {
	runRec
	shouldOpen, prevent bool
	told               int
	toldTo             time.Duration
}

// the scripted logic implements circuit.Configurable — the documented two-method interface — and remembers what it was told
func (s *scriptedOpener) SetConfigThreadSafe(c circuit.Config)    { s.told, s.toldTo = s.told+1, c.Execution.Timeout }
func (s *scriptedOpener) SetConfigNotThreadSafe(c circuit.Config) { s.told, s.toldTo = s.told+1, c.Execution.Timeout }
func (s *scriptedCloser) SetConfigThreadSafe(c circuit.Config)    { s.told, s.toldTo = s.told+1, c.Execution.Timeout }
func (s *scriptedCloser) SetConfigNotThreadSafe(c circuit.Config) { s.told, s.toldTo = s.told+1, c.Execution.Timeout }

func (s *scriptedOpener) ShouldOpen(_ context.Context, _ time.Time) bool { return s.shouldOpen }
func (s *scriptedOpener) Prevent(_ context.Context, _ time.Time) bool    { return s.prevent }

type scriptedCloser struct {
	runRec
	allow, shouldClose bool
	told               int
	toldTo             time.Duration
}

func (s *scriptedCloser) ShouldClose(_ context.Context, _ time.Time) bool { return s.shouldClose }
func (s *scriptedCloser) Allow(_ context.Context, _ time.Time) bool       { return s.allow }

// error shapes
type plainErr struct{ id int }

func (e *plainErr) Error() string { return "e" + strconv.Itoa(e.id) }

type notBad struct{ id int }

func (e *notBad) Error() string    { return "nbad" }
func (e *notBad) BadRequest() bool { return false }

type notBadWrap struct{ inner error }

func (e *notBadWrap) Error() string    { return "nwbad" }
func (e *notBadWrap) BadRequest() bool { return false }
func (e *notBadWrap) Unwrap() error    { return e.inner }

func makeErr(shape string, id int) error {
	p := &plainErr{id}
	switch shape {
	case "e":
		return p
	case "bad":
		return circuit.SimpleBadRequest{Err: p}
	case "wbad":
		return fmt.Errorf("w: %w", circuit.SimpleBadRequest{Err: p})
	case "nbad":
		return &notBad{id}
	case "nwbad":
		return &notBadWrap{inner: circuit.SimpleBadRequest{Err: p}}
	case "jbad":
		return errors.Join(p, circuit.SimpleBadRequest{Err: &plainErr{id}})
	}
	panic("bad shape " + shape)
}

type panicVal struct{ v int }

type ctxKey struct{}

type circuitSuite struct{}

func init() { register("circuit", circuitSuite{}) }

func kvs(f []string) map[string]string {
	m := map[string]string{}
	for _, t := range f {
		if i := strings.IndexByte(t, '='); i > 0 {
			m[t[:i]] = t[i+1:]
		}
	}
	return m
}

func getI(m map[string]string, k string, d int64) int64 {
	if v, ok := m[k]; ok {
		return atoi(v)
	}
	return d
}
func getB(m map[string]string, k string, d bool) bool {
	if v, ok := m[k]; ok {
		return v == "1"
	}
	return d
}

type cenv struct {
	clk       *fakeClock
	c         *circuit.Circuit
	base      circuit.Config
	recs      []*recorder
	so        *scriptedOpener
	sc        *scriptedCloser
	hopener   *hystrix.Opener
	viewing   bool // a diagnostic view is being read (see op `view`)
	ctorOnly  bool // every setting was given at construction: no live re-application (see direct=1)
	hcloser   *hystrix.Closer
	copener   *simplelogic.ConsecutiveErrOpener
	callbacks []func()
	ocfg      hystrix.ConfigureOpener
	ccfg      hystrix.ConfigureCloser
	passthru  bool             // a nil or zero-value circuit: nothing but Execute / Run / Go may be asked of it
	sib       *circuit.Circuit // a sibling built from the SAME config value (same factory function values), own clock
	dfltNote  string           // dflt=1: what a circuit built from an EMPTY config enforces, when that is not the documented 10 / 10
}

// probeDefaultLimits builds a circuit from an empty configuration and counts how many NESTED run functions, and how many
// nested fallbacks, it lets in: the documented defaults are 10 concurrent runs and 10 concurrent fallbacks.
func probeDefaultLimits() string {
	c := circuit.NewCircuitFromConfig("probe", circuit.Config{})
	ctx := context.Background()
	runs, fbs := 0, 0
	var nestRun func(d int)
	nestRun = func(d int) {
		if d == 0 {
			return
		}
		_ = c.Run(ctx, func(context.Context) error { runs++; nestRun(d - 1); return nil })
	}
	nestRun(13)
	var nestFb func(d int)
	nestFb = func(d int) {
		if d == 0 {
			return
		}
		_ = c.Execute(ctx, func(context.Context) error { return errBoomDefault }, func(context.Context, error) error { fbs++; nestFb(d - 1); return nil })
	}
	nestFb(13)
	if runs != 10 || fbs != 10 {
		return fmt.Sprintf("runs-admitted:%d,fallbacks-admitted:%d,documented:10/10", runs, fbs)
	}
	return ""
}

var errBoomDefault = errors.New("boom")

func applyCfg(cfg *circuit.Config, m map[string]string) {
	cfg.General.ForceOpen = getB(m, "fo", cfg.General.ForceOpen)
	cfg.General.ForcedClosed = getB(m, "fc", cfg.General.ForcedClosed)
	cfg.General.Disabled = getB(m, "dis", cfg.General.Disabled)
	cfg.Execution.Timeout = time.Duration(getI(m, "to", int64(cfg.Execution.Timeout)))
	cfg.Execution.MaxConcurrentRequests = getI(m, "mc", cfg.Execution.MaxConcurrentRequests)
	cfg.Execution.IgnoreInterrupts = getB(m, "ii", cfg.Execution.IgnoreInterrupts)
	cfg.Fallback.Disabled = getB(m, "fbd", cfg.Fallback.Disabled)
	cfg.Fallback.MaxConcurrentRequests = getI(m, "fbmc", cfg.Fallback.MaxConcurrentRequests)
	if v, ok := m["iei"]; ok {
		switch v {
		case "always":
			cfg.Execution.IsErrInterrupt = func(error) bool { return true }
		case "never":
			cfg.Execution.IsErrInterrupt = func(error) bool { return false }
		case "canceled":
			cfg.Execution.IsErrInterrupt = func(e error) bool { return e == context.Canceled }
		default:
			cfg.Execution.IsErrInterrupt = nil
		}
	}
}

func newCenv(h map[string]string) *cenv { return newCenvWith(h, nil) }

// newCenvWith builds the environment; with a manager the circuit is created through it (so that its default
// constructors — stat factory, SLO factory — are layered in).
func newCenvWith(h map[string]string, mgr *circuit.Manager) *cenv {
	e := &cenv{clk: &fakeClock{}}
	e.recs = []*recorder{{}, {}}
	cfg := circuit.Config{}
	cfg.General.TimeKeeper.Now = e.clk.Now
	cfg.General.TimeKeeper.AfterFunc = func(d time.Duration, f func()) *time.Timer { return nil }
	addRec := func(c *circuit.Config, r *recorder) {
		c.Metrics.Run = append(c.Metrics.Run, runRec{r})
		c.Metrics.Fallback = append(c.Metrics.Fallback, fbRec{r})
		c.Metrics.Circuit = append(c.Metrics.Circuit, runRec{r})
	}
	addRec(&cfg, e.recs[0])
	if mgr != nil {
		addRec(&cfg, e.recs[1])
	}
	switch h["opener"] {
	case "hystrix":
		e.ocfg = hystrix.ConfigureOpener{ErrorThresholdPercentage: getI(h, "o_pct", 50), RequestVolumeThreshold: getI(h, "o_vol", 20),
			// the opener's own clock: the construction instant, and — when its JSON view is read — what the circuit's
			// substitute clock shows right now (never the wall clock)
			Now: func() time.Time {
				if e.viewing {
					return clockBase.Add(time.Duration(e.clk.now + e.clk.offset))
				}
				return clockBase
			}, RollingDuration: time.Duration(getI(h, "o_dur", 10_000_000_000)), NumBuckets: int(getI(h, "o_n", 10))}
		// the opener's settings reach it through hystrix.Factory layering: thresholds factory-wide, the rest per circuit
		ohf := hystrix.Factory{
			// (likewise a rolling duration and a bucket count that must LOSE against the per-circuit constructor's)
			ConfigureOpener: hystrix.ConfigureOpener{ErrorThresholdPercentage: e.ocfg.ErrorThresholdPercentage, RequestVolumeThreshold: e.ocfg.RequestVolumeThreshold, RollingDuration: 9, NumBuckets: 9},
			CreateConfigureOpener: []func(string) hystrix.ConfigureOpener{func(string) hystrix.ConfigureOpener {
				return hystrix.ConfigureOpener{RollingDuration: 8, NumBuckets: 8}
			}, func(string) hystrix.ConfigureOpener {
				return hystrix.ConfigureOpener{Now: e.ocfg.Now, RollingDuration: e.ocfg.RollingDuration, NumBuckets: e.ocfg.NumBuckets}
			}},
		}
		f := ohf.Configure("c").General.ClosedToOpenFactory
		cfg.General.ClosedToOpenFactory = func() circuit.ClosedToOpen {
			o := f()
			if e.hopener == nil || e.sib != nil {
				e.hopener = o.(*hystrix.Opener)
			}
			return o
		}
	case "consec":
		f := simplelogic.ConsecutiveErrOpenerFactory(simplelogic.ConfigConsecutiveErrOpener{ErrorThreshold: getI(h, "thr", 10)})
		cfg.General.ClosedToOpenFactory = func() circuit.ClosedToOpen {
			o := f()
			if e.copener == nil || e.sib != nil {
				e.copener = o.(*simplelogic.ConsecutiveErrOpener)
			}
			return o
		}
	case "scripted":
		e.so = &scriptedOpener{runRec: runRec{&recorder{}}}
		cfg.General.ClosedToOpenFactory = func() circuit.ClosedToOpen { return e.so }
	}
	switch h["closer"] {
	case "hystrix":
		e.ccfg = hystrix.ConfigureCloser{SleepWindow: time.Duration(getI(h, "c_sleep", 5_000_000_000)), HalfOpenAttempts: getI(h, "c_half", 1),
			RequiredConcurrentSuccessful: getI(h, "c_req", 1),
			AfterFunc: func(d time.Duration, f func()) *time.Timer {
				e.callbacks = append(e.callbacks, f)
				return sleepingTimer()
			}}
		// likewise the closer: probe budget and required successes factory-wide, window and timer hook per circuit
		chf := hystrix.Factory{
			// (the factory-wide layer and a second per-circuit constructor also carry a sleep window — one that must LOSE:
			// per-circuit constructors win over the factory-wide value, the constructor appended LAST over earlier ones)
			ConfigureCloser: hystrix.ConfigureCloser{HalfOpenAttempts: e.ccfg.HalfOpenAttempts, RequiredConcurrentSuccessful: e.ccfg.RequiredConcurrentSuccessful, SleepWindow: 3},
			CreateConfigureCloser: []func(string) hystrix.ConfigureCloser{func(string) hystrix.ConfigureCloser {
				return hystrix.ConfigureCloser{SleepWindow: 7}
			}, func(string) hystrix.ConfigureCloser {
				return hystrix.ConfigureCloser{SleepWindow: e.ccfg.SleepWindow, AfterFunc: e.ccfg.AfterFunc}
			}},
		}
		f := chf.Configure("c").General.OpenToClosedFactory
		cfg.General.OpenToClosedFactory = func() circuit.OpenToClosed {
			c := f()
			if e.hcloser == nil || e.sib != nil {
				e.hcloser = c.(*hystrix.Closer)
			}
			return c
		}
	case "scripted":
		e.sc = &scriptedCloser{runRec: runRec{&recorder{}}}
		cfg.General.OpenToClosedFactory = func() circuit.OpenToClosed { return e.sc }
	}
	if mgr != nil {
		e.c = mgr.MustCreateCircuit("c", cfg)
	} else if h["direct"] == "1" {
		// DIRECT construction, and the SAME Config value — collector slices with spare capacity included — builds a
		// second circuit afterwards: nothing the second constructor does may reach into the first circuit (its
		// collector lists, its logic objects).  The sibling reports to the same recorders (logs are per op).
		spare := func() {
			cfg.Metrics.Run = append(make([]circuit.RunMetrics, 0, len(cfg.Metrics.Run)+6), cfg.Metrics.Run...)
			cfg.Metrics.Fallback = append(make([]circuit.FallbackMetrics, 0, len(cfg.Metrics.Fallback)+6), cfg.Metrics.Fallback...)
			cfg.Metrics.Circuit = append(make([]circuit.Metrics, 0, len(cfg.Metrics.Circuit)+6), cfg.Metrics.Circuit...)
		}
		addRec(&cfg, e.recs[1])
		spare()
		cfg.General.ForceOpen, cfg.General.ForcedClosed = getB(h, "fo", false), getB(h, "fc", false)
		cfg.Execution.IgnoreInterrupts = getB(h, "ii", false)
		applyCfg(&cfg, map[string]string{"iei": h["iei"]})
		// the numeric settings too are given AT CONSTRUCTION when they are not 0 (0 = "unset" there: the default applies);
		// if all three are, nothing is re-applied live afterwards — what was constructed is what runs
		ctorAll := true
		for _, k := range []string{"to", "mc", "fbmc"} {
			if v := getI(h, k, 0); v != 0 {
				applyCfg(&cfg, map[string]string{k: h[k]})
			} else if h["dflt"] != "1" { // dflt=1: the three are LEFT UNSET for good — the documented defaults must be what runs
				ctorAll = false
			}
		}
		e.ctorOnly = ctorAll && h["dis"] != "1" && h["fbd"] != "1"
		e.c = circuit.NewCircuitFromConfig("c", cfg)
		sibCfg := cfg // same slice headers, same factories
		sibNow := int64(0)
		sibCfg.General.TimeKeeper.Now = func() time.Time { sibNow++; return clockBase.Add(time.Duration(sibNow)) }
		sibCfg.General.ForceOpen, sibCfg.General.ForcedClosed = false, false
		e.sib = circuit.NewCircuitFromConfig("sib", sibCfg)
	} else {
		// the initial override flags arrive through LAYERED construction (ForceOpen in an explicit layer, ForcedClosed
		// in a default constructor of a manager): merging must keep both, so that clearing one later leaves the other
		// likewise IgnoreInterrupts (explicit layer) and the interrupt classifier (default constructor)
		lower := circuit.Config{General: circuit.GeneralConfig{ForcedClosed: getB(h, "fc", false)}}
		applyCfg(&lower, map[string]string{"iei": h["iei"]})
		lm := &circuit.Manager{DefaultCircuitProperties: []circuit.CommandPropertiesConstructor{func(string) circuit.Config { return lower }}}
		upper := circuit.Config{General: circuit.GeneralConfig{ForceOpen: getB(h, "fo", false)}, Execution: circuit.ExecutionConfig{IgnoreInterrupts: getB(h, "ii", false)}}
		if h["swap"] == "1" {
			// the other way round: the circuit's own layer pins ForcedClosed, the kill switch comes from the manager's default
			lower.General.ForcedClosed, upper.General.ForceOpen = false, false
			upper.General.ForcedClosed, lower.General.ForceOpen = getB(h, "fc", false), getB(h, "fo", false)
		}
		// collectors of all three kinds arrive from EVERY layer (explicit first, explicit second, default constructor):
		// each of them must be told everything (the fan-out check compares their logs)
		addRec(&upper, e.recs[1])
		e.recs = append(e.recs, &recorder{})
		addRec(&lower, e.recs[2])
		e.c = lm.MustCreateCircuit("c", upper, cfg)
		// the sibling shares every factory VALUE with the circuit under test; whatever it does must leave that one alone
		sibCfg := cfg
		sibNow := int64(0)
		sibCfg.General.TimeKeeper.Now = func() time.Time { sibNow++; return clockBase.Add(time.Duration(sibNow)) }
		sibCfg.Metrics = circuit.MetricsCollectors{}
		e.sib = circuit.NewCircuitFromConfig("sib", sibCfg)
	}
	e.base = e.c.Config() // merged with the library defaults (factories, time keeper)
	if mgr == nil && h["direct"] == "1" {
		// (the config the harness re-applies later keeps its own copies of the collector lists …)
		e.base.Metrics.Run = append([]circuit.RunMetrics(nil), e.base.Metrics.Run...)
		e.base.Metrics.Fallback = append([]circuit.FallbackMetrics(nil), e.base.Metrics.Fallback...)
		e.base.Metrics.Circuit = append([]circuit.Metrics(nil), e.base.Metrics.Circuit...)
		// … because the caller goes on using ITS OWN slices: it truncates them and appends something else.  The circuits
		// must have taken copies of what they deliver to: if a circuit's collector list aliases the caller's backing
		// array, its second collector is replaced by a stranger and the fan-out check (every recorder is told the same)
		// fails from now on
		junk := &recorder{}
		_ = append(cfg.Metrics.Run[:1], circuit.RunMetrics(runRec{junk}))
		_ = append(cfg.Metrics.Fallback[:1], circuit.FallbackMetrics(fbRec{junk}))
		_ = append(cfg.Metrics.Circuit[:1], circuit.Metrics(runRec{junk}))
	}
	if mgr != nil {
		applyCfg(&e.base, map[string]string{"fo": "0", "fc": "0", "dis": "0", "to": "0", "mc": "10", "ii": "0", "fbd": "0", "fbmc": "10"})
		applyCfg(&e.base, h)
	} else {
		// fo / fc stay as the layered construction merged them
		hh := map[string]string{"dis": "0", "to": "0", "mc": "10", "fbd": "0", "fbmc": "10"}
		if h["dflt"] == "1" {
			hh["to"] = "1000000000" // the documented defaults: 1 s, 10 concurrent runs, 10 concurrent fallbacks
		}
		for k, v := range h {
			if k != "fo" && k != "fc" && k != "ii" && k != "iei" {
				hh[k] = v
			}
		}
		applyCfg(&e.base, hh)
	}
	if !e.ctorOnly {
		e.c.SetConfigThreadSafe(e.base)
	}
	switch h["pt"] {
	case "nil":
		e.c, e.passthru = nil, true
	case "zero":
		e.c, e.passthru = &circuit.Circuit{}, true
	}
	e.clk.readings = nil
	return e
}

func (e *cenv) resetLogs() {
	for _, r := range e.recs {
		r.log = nil
	}
	if e.so != nil {
		e.so.r.log = nil
	}
	if e.sc != nil {
		e.sc.r.log = nil
	}
	e.clk.readings = nil
}

func noFb(l []string) []string {
	var out []string
	for _, s := range l {
		if !strings.HasPrefix(s, "fb:") {
			out = append(out, s)
		}
	}
	return out
}

func eqStr(a, b []string) bool {
	if len(a) != len(b) {
		return false
	}
	for i := range a {
		if a[i] != b[i] {
			return false
		}
	}
	return true
}

func (e *cenv) fanOk() bool {
	for _, r := range e.recs[1:] {
		if !eqStr(r.log, e.recs[0].log) {
			return false
		}
	}
	want := noFb(e.recs[0].log)
	if e.so != nil && !eqStr(e.so.r.log, want) {
		return false
	}
	if e.sc != nil && !eqStr(e.sc.r.log, want) {
		return false
	}
	return true
}

func listOr(l []string, sep string) string {
	if len(l) == 0 {
		return "-"
	}
	return strings.Join(l, sep)
}

func (e *cenv) readingsStr() string {
	l := make([]string, len(e.clk.readings))
	for i, r := range e.clk.readings {
		l[i] = strconv.FormatInt(r, 10)
	}
	return listOr(l, ",")
}

func b01(b bool) string {
	if b {
		return "1"
	}
	return "0"
}

func ctxErrStr(err error) string {
	switch err {
	case nil:
		return "nil"
	case context.Canceled:
		return "canceled"
	case context.DeadlineExceeded:
		return "deadline"
	}
	return "other"
}

type funcSpec struct {
	present bool
	shape   string // nil | ctxerr | panic | error shape
	id      int
	adv     int64
	cancel  bool
	err     error
	pv      interface{}
}

func parseFunc(s string, adv int64, cancel bool) funcSpec {
	f := funcSpec{present: true, adv: adv, cancel: cancel}
	switch {
	case s == "none":
		f.present = false
	case s == "nil", s == "ctxerr":
		f.shape = s
	case strings.HasPrefix(s, "panic"):
		f.shape = "panic"
		f.id = int(atoi(s[5:]))
		switch f.id {
		case 0:
			f.pv = &plainErr{0} // an error value
		case 9:
			f.pv = (*int)(nil) // typed nil
		default:
			f.pv = panicVal{f.id}
		}
	default:
		for _, sh := range []string{"nwbad", "wbad", "nbad", "jbad", "bad", "e"} {
			if strings.HasPrefix(s, sh) {
				f.shape = sh
				f.id = int(atoi(s[len(sh):]))
				f.err = makeErr(sh, f.id)
				break
			}
		}
	}
	return f
}

func (e *cenv) classify(err error, fs ...funcSpec) string {
	if err == nil {
		return "nil"
	}
	for _, f := range fs {
		if f.err != nil && sameErr(err, f.err) {
			return "e" + strconv.Itoa(f.id)
		}
	}
	if err == context.Canceled {
		return "ctx:canceled"
	}
	if err == context.DeadlineExceeded {
		return "ctx:deadline"
	}
	var ce circuit.Error
	if errors.As(err, &ce) {
		if ce.CircuitOpen() {
			return "open"
		}
		if ce.ConcurrencyLimitReached() {
			return "conc"
		}
	}
	return "other"
}

// sameErr: identity of error values (errors.Join results and SimpleBadRequest are compared by their parts)
func sameErr(a, b error) (eq bool) {
	defer func() {
		if recover() != nil {
			eq = false
		}
	}()
	return a == b
}

func (e *cenv) exec(m map[string]string) string {
	e.resetLogs()
	// caller context
	var parent context.Context = context.Background()
	spec := m["ctx"]
	if spec == "" {
		spec = "bg"
	}
	preCancel := false
	switch {
	case spec == "bg":
	case spec == "cancelled":
		preCancel = true
	case spec == "val":
		parent = context.WithValue(parent, ctxKey{}, 1)
	case strings.HasPrefix(spec, "expired"):
		var cf context.CancelFunc
		parent, cf = context.WithDeadline(parent, clockBase.Add(time.Duration(atoi(spec[7:]))))
		defer cf()
	case strings.HasPrefix(spec, "valdl"):
		parent = context.WithValue(parent, ctxKey{}, 1)
		var cf context.CancelFunc
		parent, cf = context.WithDeadline(parent, clockBase.Add(time.Duration(atoi(spec[5:]))))
		defer cf()
	case strings.HasPrefix(spec, "dl"):
		var cf context.CancelFunc
		parent, cf = context.WithDeadline(parent, clockBase.Add(time.Duration(atoi(spec[2:]))))
		defer cf()
	}
	caller, cancel := context.WithCancel(parent)
	defer cancel()
	if preCancel {
		cancel()
	}
	run := parseFunc(m["run"], getI(m, "radv", 0), getB(m, "rcancel", false))
	if _, ok := m["run"]; !ok {
		run.present = false
	}
	fb := parseFunc(m["fb"], getI(m, "fadv", 0), getB(m, "fcancel", false))
	if _, ok := m["fb"]; !ok {
		fb.present = false
	}
	ans := m["ans"] + "0000"
	if e.so != nil {
		e.so.shouldOpen, e.so.prevent = ans[0] == '1', ans[1] == '1'
	}
	if e.sc != nil {
		e.sc.allow, e.sc.shouldClose = ans[2] == '1', ans[3] == '1'
	}
	runCalls, fbCalls := 0, 0
	seen, after, fbarg, fbsame := "-", "-", "-", true
	var heldCtx context.Context
	act := func(f funcSpec, ctx context.Context) error {
		e.clk.now += f.adv
		if f.cancel {
			cancel()
		}
		switch f.shape {
		case "nil":
			return nil
		case "ctxerr":
			return ctx.Err()
		case "panic":
			panic(f.pv)
		}
		return f.err
	}
	var runFn func(context.Context) error
	if run.present {
		runFn = func(ctx context.Context) error {
			runCalls++
			heldCtx = ctx
			dl := "none"
			if d, ok := ctx.Deadline(); ok {
				dl = strconv.FormatInt(off(d), 10)
			}
			seen = fmt.Sprintf("%s,%s,%s,%s", dl, b01(ctx.Value(ctxKey{}) != nil), ctxErrStr(ctx.Err()), b01(ctx == caller))
			defer func() { after = ctxErrStr(ctx.Err()) }()
			if mid := m["mid"]; mid != "" && !e.passthru {
				// the operator changes a setting while this call is in flight
				changes := map[string]string{}
				for _, part := range strings.Split(mid, ",") {
					if kv := strings.SplitN(part, ":", 2); len(kv) == 2 {
						changes[kv[0]] = kv[1]
					}
				}
				if len(changes) > 0 { // ONE SetConfigThreadSafe carrying all the changes
					applyCfg(&e.base, changes)
					e.c.SetConfigThreadSafe(e.base)
				}
			}
			return act(run, ctx)
		}
	}
	var fbFn func(context.Context, error) error
	if fb.present {
		fbFn = func(ctx context.Context, err error) error {
			fbCalls++
			fbarg = e.classify(err, run)
			fbsame = ctx == caller
			return act(fb, ctx)
		}
	}
	res := func() (res string) {
		defer func() {
			if r := recover(); r != nil {
				res = "panic:other"
				for _, f := range []funcSpec{run, fb} {
					if f.shape == "panic" && r == f.pv {
						res = "panic:" + strconv.Itoa(f.id)
					}
				}
				if re, ok := r.(error); ok && strings.Contains(re.Error(), "nil pointer") && !run.present {
					res = "panic:nilfunc"
				}
			}
		}()
		if m["via"] == "run" && !fb.present {
			return e.classify(e.c.Run(caller, runFn), run, fb)
		}
		if m["via"] == "go" {
			return e.classify(e.c.Go(caller, runFn, fbFn), run, fb)
		}
		return e.classify(e.c.Execute(caller, runFn, fbFn), run, fb)
	}()
	if runCalls > 0 && run.cancel && after == "-" {
		after = "nil"
	}
	rel := "-"
	if heldCtx != nil && heldCtx != caller {
		rel = b01(heldCtx.Err() != nil)
	}
	var conc, concFb int64
	if !e.passthru {
		conc, concFb = e.c.ConcurrentCommands(), e.c.ConcurrentFallbacks()
	}
	return fmt.Sprintf("res=%s run=%d fb=%d seen=%s after=%s fbarg=%s fbsame=%s ev=%s rd=%s rel=%s open=%s conc=%d,%d fan=%s",
		res, runCalls, fbCalls, seen, after, fbarg, b01(fbsame), listOr(e.recs[0].log, ";"), e.readingsStr(), rel,
		b01(e.c.IsOpen()), conc, concFb, b01(e.fanOk()))
}

func (circuitSuite) Run(h map[string]string, ops []string) []string {
	if h["epoch"] == "2300" {
		// "under any substitute clock": one whose readings lie beyond what int64 nanoseconds since 1970 can express
		// (after 2262).  Still the real future, so no derived deadline fires for real.
		defer func(b time.Time) { clockBase = b }(clockBase)
		clockBase = time.Date(2300, 1, 1, 0, 0, 0, 0, time.UTC)
	}
	e := newCenv(h)
	if h["dflt"] == "1" {
		e.dfltNote = probeDefaultLimits()
	}
	out := make([]string, len(ops))
	defer func() {
		if e.dfltNote != "" && len(out) > 0 {
			out[0] += " dflt=" + e.dfltNote
		}
	}()
	for i, op := range ops {
		out[i] = func() (res string) {
			defer func() {
				if r := recover(); r != nil {
					res = fmt.Sprintf("harness-panic:%v", r)
				}
			}()
			f := strings.Fields(op)
			m := kvs(f[1:])
			switch f[0] {
			case "exec":
				return e.exec(m)
			case "open", "close":
				e.resetLogs()
				if f[0] == "open" {
					e.c.OpenCircuit(context.Background())
				} else {
					e.c.CloseCircuit(context.Background())
				}
				return fmt.Sprintf("ev=%s rd=%s open=%s fan=%s", listOr(e.recs[0].log, ";"), e.readingsStr(), b01(e.c.IsOpen()), b01(e.fanOk()))
			case "setcfg":
				applyCfg(&e.base, m)
				if m["partial"] == "1" {
					// a configuration that only names the settings being retuned: no TimeKeeper, factories or collectors
					var p circuit.Config
					p.General.ForceOpen, p.General.ForcedClosed, p.General.Disabled = e.base.General.ForceOpen, e.base.General.ForcedClosed, e.base.General.Disabled
					p.Execution.Timeout, p.Execution.MaxConcurrentRequests = e.base.Execution.Timeout, e.base.Execution.MaxConcurrentRequests
					p.Execution.IgnoreInterrupts, p.Execution.IsErrInterrupt = e.base.Execution.IgnoreInterrupts, e.base.Execution.IsErrInterrupt
					p.Fallback.Disabled, p.Fallback.MaxConcurrentRequests = e.base.Fallback.Disabled, e.base.Fallback.MaxConcurrentRequests
					e.c.SetConfigThreadSafe(p)
				} else {
					e.c.SetConfigThreadSafe(e.base)
				}
				// logic that implements circuit.Configurable must have been told THIS configuration by now
				told := "1"
				if e.so != nil && e.so.toldTo != e.c.Config().Execution.Timeout {
					told = "0"
				}
				if e.sc != nil && e.sc.toldTo != e.c.Config().Execution.Timeout {
					told = "0"
				}
				return "open=" + b01(e.c.IsOpen()) + " told=" + told
			case "rebuild":
				// reconfigure through SetConfigNotThreadSafe with another TimeKeeper: from now on every timestamp must
				// be a reading of THAT one
				e.clk.gen++
				e.clk.offset += 1_000_000_000_000
				gen, offs := e.clk.gen, e.clk.offset
				e.base.General.TimeKeeper.Now = func() time.Time { return e.clk.nowOf(gen, offs) }
				e.callbacks = nil
				e.c.SetConfigNotThreadSafe(e.base)
			case "view":
				// the circuit's expvar view (config, gauges, the opener's and the closer's JSON, the collectors' Var) read
				// while the substitute clocks show the current instant: a diagnostic read must change nothing
				e.clk.frozen, e.viewing = true, true
				_ = e.c.Var().String()
				if e.hopener != nil {
					_, _ = json.Marshal(e.hopener)
				}
				if e.hcloser != nil {
					_, _ = json.Marshal(e.hcloser)
				}
				e.clk.frozen, e.viewing = false, false
			case "sib":
				// k failing calls and one succeeding call on the sibling circuit (k stays below what would open it)
				if e.sib != nil {
					for k := int(atoi(f[1])); k > 0; k-- {
						_ = e.sib.Run(context.Background(), func(context.Context) error { return errors.New("sibling failure") })
					}
					_ = e.sib.Run(context.Background(), func(context.Context) error { return nil })
				}
			case "tick":
				e.clk.now += atoi(f[1])
			case "fire":
				k := int(atoi(f[1]))
				if k < len(e.callbacks) {
					e.callbacks[k]()
				}
			case "closercfg":
				if e.hcloser != nil {
					e.ccfg.SleepWindow = time.Duration(getI(m, "sleep", int64(e.ccfg.SleepWindow)))
					e.ccfg.HalfOpenAttempts = getI(m, "half", e.ccfg.HalfOpenAttempts)
					e.ccfg.RequiredConcurrentSuccessful = getI(m, "req", e.ccfg.RequiredConcurrentSuccessful)
					e.hcloser.SetConfigThreadSafe(e.ccfg)
				}
			case "openercfg":
				if e.hopener != nil {
					e.ocfg.ErrorThresholdPercentage = getI(m, "pct", e.ocfg.ErrorThresholdPercentage)
					e.ocfg.RequestVolumeThreshold = getI(m, "vol", e.ocfg.RequestVolumeThreshold)
					e.hopener.SetConfigThreadSafe(e.ocfg)
				}
				if e.copener != nil {
					if v, ok := m["thr"]; ok {
						e.copener.SetConfigThreadSafe(simplelogic.ConfigConsecutiveErrOpener{ErrorThreshold: atoi(v)})
					}
				}
			default:
				return "bad-op"
			}
			return "open=" + b01(e.c.IsOpen())
		}()
	}
	return out
}

// ---------------------------------------------------------------- generator

func pick(r *rand.Rand, xs ...string) string { return xs[r.Intn(len(xs))] }

func (circuitSuite) Gen(r *rand.Rand, i int) Case {
	opener := pick(r, "never", "hystrix", "consec", "scripted", "scripted")
	closer := pick(r, "never", "hystrix", "scripted", "scripted")
	tos := []int64{0, -1, 5, 50, 1000, 1_000_000_000}
	to := tos[r.Intn(len(tos))]
	lim := func() int64 { return []int64{-1, 0, 1, 2, 10, 10, 10}[r.Intn(7)] }
	on := 1 + r.Intn(5)
	owidth := []int64{10, 100, 1000}[r.Intn(3)]
	odur := int64(on) * owidth
	sleep := []int64{1, 20, 200, 5000}[r.Intn(4)]
	thrV := int64(1 + r.Intn(3))
	hdr := fmt.Sprintf("circuit opener=%s closer=%s o_n=%d o_dur=%d o_pct=%d o_vol=%d thr=%d c_sleep=%d c_half=%d c_req=%d to=%d mc=%d fbmc=%d ii=%d iei=%s",
		opener, closer, on, odur, 1+r.Intn(100), 1+r.Intn(4), thrV, sleep, 1+r.Intn(3), 1+r.Intn(3), to, lim(), lim(), r.Intn(2)*r.Intn(2),
		pick(r, "unset", "unset", "always", "never", "canceled"))
	if r.Intn(10) == 0 {
		// override flags present from the start (they reach the circuit through layered construction)
		hdr += fmt.Sprintf(" fo=%d fc=%d swap=%d", r.Intn(2), 1-r.Intn(2)*r.Intn(2), r.Intn(2))
	}
	epoch2300 := r.Intn(8) == 0
	pt := ""
	if r.Intn(16) == 0 {
		pt = pick(r, "nil", "zero") // C08: a nil circuit and a zero-value circuit run the function untouched
		hdr += " pt=" + pt
	}
	direct := pt == "" && r.Intn(6) == 0
	if direct {
		hdr += " direct=1"
		if r.Intn(2) == 0 {
			// timeout and both limits left unset at construction and never re-applied: the documented defaults run
			for _, k := range []string{"to", "mc", "fbmc"} {
				hdr = regexp.MustCompile(" "+k+"=-?[0-9]+").ReplaceAllString(hdr, "")
			}
			hdr += " dflt=1"
			to = 1_000_000_000
		}
	}
	sharedCfgProbe := false
	if direct && r.Intn(2) == 0 {
		// a second circuit is built from the SAME Config value afterwards: the first circuit's logic objects must still be
		// the ones that hear about ITS transitions — a closer that starts its sleep window on `Opened` shows it at once
		hdr = regexp.MustCompile(" closer=[a-z]+").ReplaceAllString(hdr, " closer=hystrix")
		closer = "hystrix"
		sharedCfgProbe = true
	}
	c := Case{Header: hdr}
	if sharedCfgProbe {
		// directed prelude: the circuit is opened, the very next call must be shed (the window has just begun)
		c.Ops = append(c.Ops, "open", "exec ctx=bg run=nil radv=0 rcancel=0 fb=none fadv=0 fcancel=0 ans=0000", "close")
	}
	tag := func(t string) { c.Tags = append(c.Tags, t) }
	if pt != "" {
		tag("passthru-" + pt)
	}
	if direct {
		tag("direct-construction-shared-config")
	}
	tag("opener-" + opener)
	tag("closer-" + closer)
	nops := 1 + r.Intn(40)
	if r.Intn(25) == 0 {
		nops = 200 + r.Intn(200) // a long history: state that only goes wrong after it accumulates
	}
	id := 1
	armed := 0
	if closer == "hystrix" && pt == "" && r.Intn(6) == 0 {
		// directed prelude: an override is switched on over an OPEN circuit whose sleep window has elapsed, a call
		// arrives under it, the override is cleared, the next calls must find the underlying state untouched
		flag := pick(r, "fo", "fo", "fc", "dis")
		c.Ops = append(c.Ops, "open", fmt.Sprintf("tick %d", sleep+int64(r.Intn(2))), "fire 0")
		armed = 1
		plain := func() string {
			id++
			return fmt.Sprintf("exec ctx=bg run=%s radv=0 rcancel=0 fb=none fadv=0 fcancel=0 ans=0000", pick(r, "nil", "nil", fmt.Sprintf("e%d", id)))
		}
		c.Ops = append(c.Ops, fmt.Sprintf("setcfg %s=1", flag), plain())
		if r.Intn(2) == 0 {
			c.Ops = append(c.Ops, plain())
		}
		c.Ops = append(c.Ops, fmt.Sprintf("setcfg %s=0", flag), plain(), plain())
		tag("override-over-elapsed-window")
		armed += 2
	}
	if closer == "hystrix" && pt == "" && armed == 0 && r.Intn(5) == 0 {
		// directed prelude: a TRAIN OF HALF-OPEN PROBES of mixed outcome kinds, each after a full sleep window (timer
		// fired): successes, plain failures, errors that IMPLEMENT BadRequest but answer false (failures all the same),
		// real bad requests (neutral), a caller whose context ended (interrupt: neutral).  The circuit must close exactly
		// when RequiredConcurrentSuccessful successes have completed with no failure between them.
		c.Ops = append(c.Ops, "open")
		probes := 3 + r.Intn(6)
		for k := 0; k < probes; k++ {
			c.Ops = append(c.Ops, fmt.Sprintf("tick %d", sleep+1))
			for j := 0; j <= k; j++ { // whichever arming is the current one: its callback has fired
				c.Ops = append(c.Ops, fmt.Sprintf("fire %d", j))
			}
			id++
			run := pick(r, "nil", "nil", "nil", fmt.Sprintf("e%d", id), fmt.Sprintf("nbad%d", id), fmt.Sprintf("nwbad%d", id), fmt.Sprintf("bad%d", id), fmt.Sprintf("jbad%d", id))
			ctx := "bg"
			if r.Intn(6) == 0 {
				ctx = "cancelled"
			}
			c.Ops = append(c.Ops, fmt.Sprintf("exec ctx=%s run=%s radv=0 rcancel=0 fb=none fadv=0 fcancel=0 ans=0000", ctx, run))
		}
		tag("probe-train")
		armed = probes
	}
	if (opener == "consec" || opener == "hystrix") && pt == "" && r.Intn(8) == 0 {
		// directed prelude: failures pile up, the circuit is rebuilt (the factories are asked for NEW logic), one more
		// failure — the fresh opener must start from nothing
		fails := 1 + r.Intn(3)
		for k := 0; k < fails; k++ {
			id++
			c.Ops = append(c.Ops, fmt.Sprintf("exec ctx=bg run=e%d radv=0 rcancel=0 fb=none fadv=0 fcancel=0 ans=0000", id))
		}
		c.Ops = append(c.Ops, "rebuild")
		for k := 0; k < 2; k++ {
			id++
			c.Ops = append(c.Ops, fmt.Sprintf("exec ctx=bg run=e%d radv=0 rcancel=0 fb=none fadv=0 fcancel=0 ans=0000", id))
		}
		tag("rebuild-after-failures")
		armed = 0
	}
	for j := 0; j < nops; j++ {
		x := r.Intn(100)
		if pt != "" {
			x = x % 70 // only calls
		}
		switch {
		case x < 70:
			ctx := pick(r, "bg", "bg", "bg", "cancelled", "val", fmt.Sprintf("dl%d", r.Int63n(3000)), fmt.Sprintf("valdl%d", r.Int63n(3000)), "expired-4000000000000000000")
			var run string
			switch y := r.Intn(100); {
			case y < 30:
				run = "nil"
			case y < 58:
				run = fmt.Sprintf("e%d", id)
			case y < 72:
				run = fmt.Sprintf("%s%d", pick(r, "bad", "wbad", "nbad", "nwbad", "jbad"), id)
				tag("bad-shape")
			case y < 84:
				run = "ctxerr"
			case y < 92:
				run = fmt.Sprintf("panic%d", []int{0, 1, 2, 9}[r.Intn(4)])
				tag("run-panic")
			default:
				run = "none"
				tag("nil-run")
			}
			id++
			radv := []int64{0, 0, 1, to - 3, to - 2, to - 1, to, to + 1, 7, 3000}[r.Intn(10)]
			if to <= 0 && r.Intn(8) == 0 {
				radv = 1_000_000_001 + int64(r.Intn(3)) // no timeout configured: a call longer than the library's DEFAULT timeout
			}
			if radv < 0 {
				radv = 0
			}
			if r.Intn(25) == 0 {
				radv = []int64{-5, -3000}[r.Intn(2)] // the substitute clock is set BACK while the function runs
				tag("clock-back-in-run")
			}
			if to > 0 && radv >= to-2 {
				tag("timeout-boundary")
			}
			fb := "none"
			switch y := r.Intn(100); {
			case y < 40:
			case y < 60:
				fb = "nil"
			case y < 80:
				fb = fmt.Sprintf("e%d", id)
			case y < 88:
				fb = "ctxerr"
			default:
				fb = fmt.Sprintf("panic%d", []int{0, 3, 9}[r.Intn(3)])
				tag("fb-panic")
			}
			id++
			if ctx != "bg" {
				tag("ctx-" + strings.TrimRight(ctx, "-0123456789"))
			}
			rc := r.Intn(6) == 0
			if rc {
				tag("cancel-during-run")
			}
			mid := ""
			if run != "none" && pt == "" && r.Intn(10) == 0 {
				// a reconfiguration that lands while the call is in flight (performed by the run function itself)
				k := pick(r, "to", "to", "fo", "fo", "fc", "ii", "fbd", "fbmc", "mc", "dis")
				v := fmt.Sprint(r.Intn(2))
				switch k {
				case "to":
					v = fmt.Sprint(tos[r.Intn(len(tos))])
				case "fbmc", "mc":
					v = fmt.Sprint(lim())
				}
				mid = fmt.Sprintf(" mid=%s:%s", k, v)
				if r.Intn(3) == 0 {
					// several settings in one reconfiguration: an override or the pass-through switch together with a limit
					k2 := pick(r, "fbmc", "mc", "fbd", "to")
					if k2 != k {
						v2 := fmt.Sprint(r.Intn(2))
						switch k2 {
						case "to":
							v2 = fmt.Sprint(tos[r.Intn(len(tos))])
						case "fbmc", "mc":
							v2 = fmt.Sprint(lim())
						}
						mid = fmt.Sprintf(" mid=%s:%s,%s:%s", pick(r, "dis", "dis", "fo", "fc"), fmt.Sprint(r.Intn(2)), k2, v2)
						tag("mid-call-multi-setting")
					}
				}
				tag("mid-call-reconfig")
			}
			via := ""
			fc := r.Intn(10) == 0
			if fb == "none" && r.Intn(2) == 0 {
				via = " via=run" // Run(ctx, f) must behave as Execute(ctx, f, nil): the model knows only the latter
				tag("via-run")
			} else if !rc && !fc && ctx != "cancelled" && !strings.HasPrefix(ctx, "expired") && r.Intn(3) == 0 {
				// Go(ctx, f, fb) must behave as Execute when the caller's context never ends during the call (when it
				// does, Go may return early: that is C18's subject and the gowrap suite's)
				via = " via=go"
				tag("via-go")
			}
			c.Ops = append(c.Ops, fmt.Sprintf("exec ctx=%s run=%s radv=%d rcancel=%s fb=%s fadv=%d fcancel=%s ans=%d%d%d%d%s",
				ctx, run, radv, b01(rc), fb, r.Int63n(5), b01(fc), r.Intn(2), r.Intn(2)*r.Intn(2)*r.Intn(2), r.Intn(2), r.Intn(2), via+mid))
		case x < 76:
			c.Ops = append(c.Ops, "open")
			tag("manual-open")
			armed++
		case x < 81:
			c.Ops = append(c.Ops, "close")
			tag("manual-close")
			armed++
		case x < 90:
			parts := []string{}
			for _, k := range []string{"fo", "fc", "dis", "ii", "fbd"} {
				if r.Intn(3) == 0 {
					parts = append(parts, fmt.Sprintf("%s=%d", k, r.Intn(2)))
				}
			}
			if r.Intn(3) == 0 {
				to = tos[r.Intn(len(tos))]
				parts = append(parts, fmt.Sprintf("to=%d", to))
			}
			if r.Intn(3) == 0 {
				parts = append(parts, fmt.Sprintf("mc=%d", lim()))
			}
			if r.Intn(3) == 0 {
				parts = append(parts, fmt.Sprintf("fbmc=%d", lim()))
			}
			if r.Intn(4) == 0 {
				parts = append(parts, "iei="+pick(r, "unset", "always", "never", "canceled"))
			}
			if r.Intn(3) == 0 {
				parts = append(parts, "partial=1")
				tag("partial-config")
			}
			c.Ops = append(c.Ops, strings.TrimSpace("setcfg "+strings.Join(parts, " ")))
			tag("setcfg")
		case x < 94:
			if r.Intn(4) == 0 && pt == "" {
				k := 0
				if opener == "consec" {
					k = r.Intn(int(thrV)) // fewer failures than the sibling's own threshold: it never opens
				}
				c.Ops = append(c.Ops, fmt.Sprintf("sib %d", k))
				tag("sibling-traffic")
			} else if r.Intn(7) == 0 && pt == "" {
				c.Ops = append(c.Ops, "view")
				tag("diagnostic-view")
			} else if r.Intn(6) == 0 {
				c.Ops = append(c.Ops, "rebuild")
				tag("rebuild-with-new-clock")
				armed = 0
			} else {
				c.Ops = append(c.Ops, fmt.Sprintf("tick %d", []int64{1, owidth - 1, owidth, odur - 1, odur, sleep - 1, sleep, sleep + 1, 3 * odur}[r.Intn(9)]))
				tag("tick")
			}
		case x < 98:
			k := r.Intn(armed + 2)
			if armed > 0 && r.Intn(2) == 0 {
				k = armed - 1
			}
			c.Ops = append(c.Ops, fmt.Sprintf("fire %d", k))
			tag("fire")
		case x < 99:
			c.Ops = append(c.Ops, fmt.Sprintf("closercfg sleep=%d half=%d req=%d", []int64{0, 1, 20, 200}[r.Intn(4)], r.Intn(4)-1, r.Intn(4)-1))
		default:
			c.Ops = append(c.Ops, fmt.Sprintf("openercfg pct=%d vol=%d thr=%d", r.Intn(101), r.Intn(4), r.Intn(4)))
		}
	}
	if epoch2300 {
		// not together with a caller context that must have REALLY expired: its deadline is placed before the substitute
		// clock's origin, which for this origin would still be the real future
		really := false
		for _, op := range c.Ops {
			if strings.Contains(op, "ctx=expired") {
				really = true
			}
		}
		if !really {
			c.Header += " epoch=2300"
		}
	}
	return c
}

func (circuitSuite) Nontrivial(tags map[string]int) bool {
	return tags["setcfg"]+tags["manual-open"]+tags["manual-close"] > 0 &&
		tags["bad-shape"]+tags["timeout-boundary"]+tags["cancel-during-run"]+tags["run-panic"]+tags["fb-panic"] > 0
}

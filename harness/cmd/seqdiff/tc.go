package main

import (
	"encoding/json"
	"fmt"
	"math/rand"
	"strconv"
	"strings"
	"time"

	"github.com/cep21/circuit/v4/faststats"
)

type tcSuite struct{}

func init() { register("tc", tcSuite{}) }

func (tcSuite) Gen(r *rand.Rand, i int) Case {
	c := Case{Header: "tc"}
	sleeps := []int64{0, 1, 60, 1000, 1_000_000}
	sleep := sleeps[r.Intn(len(sleeps))]
	allows := []int64{-3, 0, 1, 1, 2, 3, 5}
	allow := allows[r.Intn(len(allows))]
	c.Ops = append(c.Ops, fmt.Sprintf("sleep %d", sleep), fmt.Sprintf("allow %d", allow))
	cur := int64(r.Intn(100))
	nextOpen := int64(-1)
	armed := 0
	nops := 1 + r.Intn(40)
	if r.Intn(25) == 0 {
		nops = 200 + r.Intn(300) // a long history: state that only goes wrong after it accumulates
	}
	for j := 0; j < nops; j++ {
		switch x := r.Intn(100); {
		case x < 10:
			cur += r.Int63n(sleep/2 + 2)
			c.Ops = append(c.Ops, fmt.Sprintf("start %d", cur))
			nextOpen = cur + sleep
			armed++
			c.Tags = append(c.Tags, "start")
		case x < 70:
			// timestamps around nextOpen, behind, ahead
			var t int64
			var tag string
			switch y := r.Intn(10); {
			case y < 4 && nextOpen >= 0:
				t, tag = nextOpen+int64(r.Intn(3))-1, "at-next-open"
			case y < 6:
				t, tag = cur-r.Int63n(sleep+2), "behind"
			case y < 8:
				t, tag = cur+r.Int63n(sleep+2), "ahead"
			default:
				t, tag = cur+sleep+r.Int63n(3*sleep+2), "far-ahead"
			}
			if t > cur {
				cur = t
			}
			c.Ops = append(c.Ops, fmt.Sprintf("check %d", t))
			c.Tags = append(c.Tags, tag)
			// the generator does not track successes exactly; fire indices are drawn around a guess of armings
			if r.Intn(3) == 0 {
				armed++
			}
		case x < 88:
			k := 0
			if armed > 0 {
				k = armed - 1 - r.Intn(min(armed, 3))
			}
			if r.Intn(6) == 0 {
				k = r.Intn(armed + 2)
			}
			c.Ops = append(c.Ops, fmt.Sprintf("fire %d", k))
			c.Tags = append(c.Tags, "fire")
		case x < 92:
			sleep = sleeps[r.Intn(len(sleeps))]
			c.Ops = append(c.Ops, fmt.Sprintf("sleep %d", sleep))
			c.Tags = append(c.Tags, "live-sleep")
		case x < 96:
			allow = allows[r.Intn(len(allows))]
			c.Ops = append(c.Ops, fmt.Sprintf("allow %d", allow))
			c.Tags = append(c.Tags, "live-allow")
		default:
			if r.Intn(3) == 0 {
				c.Ops = append(c.Ops, "restore")
				c.Tags = append(c.Tags, "json-restore-into-fresh-object")
			} else {
				c.Ops = append(c.Ops, "dump")
			}
		}
	}
	return c
}

func (tcSuite) Nontrivial(tags map[string]int) bool {
	return tags["fire"] > 0 && tags["at-next-open"]+tags["behind"] > 0
}

func (tcSuite) Run(h map[string]string, ops []string) []string {
	tc := &faststats.TimedCheck{}
	var callbacks []func()
	tc.TimeAfterFunc = func(d time.Duration, f func()) *time.Timer {
		callbacks = append(callbacks, f)
		return sleepingTimer()
	}
	out := make([]string, len(ops))
	for i, op := range ops {
		out[i] = func() (res string) {
			defer func() {
				if r := recover(); r != nil {
					res = "panic"
				}
			}()
			f := strings.Fields(op)
			switch f[0] {
			case "start":
				tc.SleepStart(origin.Add(time.Duration(atoi(f[1]))))
				return "ok"
			case "check":
				if tc.Check(origin.Add(time.Duration(atoi(f[1])))) {
					return "1"
				}
				return "0"
			case "sleep":
				tc.SetSleepDuration(time.Duration(atoi(f[1])))
				return "ok"
			case "allow":
				tc.SetEventCountToAllow(atoi(f[1]))
				return "ok"
			case "fire":
				k := int(atoi(f[1]))
				if k >= 0 && k < len(callbacks) {
					callbacks[k]()
				}
				return "ok"
			case "restore":
				// the gate moves house: its JSON is loaded into a FRESH TimedCheck (same timer hook), used from now on
				b, err := json.Marshal(tc)
				if err != nil {
					return "json-error"
				}
				fresh := &faststats.TimedCheck{TimeAfterFunc: tc.TimeAfterFunc}
				if err := json.Unmarshal(b, fresh); err != nil {
					return "json-error"
				}
				tc = fresh
				return "ok"
			case "dump":
				b, err := json.Marshal(tc)
				if err != nil {
					return "json-error"
				}
				var m struct {
					SleepDuration              int64
					EventCountToAllow          int64
					NextOpenTime               time.Time
					CurrentlyAllowedEventCount int64
				}
				if err := json.Unmarshal(b, &m); err != nil {
					return "json-error"
				}
				// ... and the gate is restored from its own JSON: a round trip must change nothing
				if err := json.Unmarshal(b, tc); err != nil {
					return "json-error"
				}
				next := "zero"
				if !m.NextOpenTime.IsZero() {
					next = strconv.FormatInt(int64(m.NextOpenTime.Sub(origin)), 10)
				}
				return fmt.Sprintf("count=%d next=%s sleep=%d allow=%d", m.CurrentlyAllowedEventCount, next, m.SleepDuration, m.EventCountToAllow)
			}
			return "bad-op"
		}()
	}
	return out
}

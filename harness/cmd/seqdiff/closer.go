package main

import (
	"encoding/json"
	"context"
	"fmt"
	"math/rand"
	"strings"
	"time"

	"github.com/cep21/circuit/v4/closers/hystrix"
)

type closerSuite struct{}

func init() { register("closer", closerSuite{}) }

func (closerSuite) Gen(r *rand.Rand, i int) Case {
	sleep := []int64{1, 20, 60, 1000}[r.Intn(4)]
	half := int64(1 + r.Intn(3))
	req := int64(1 + r.Intn(3))
	hs, hh, hr := sleep, half, req
	var dtags []string
	if r.Intn(6) == 0 {
		// settings LEFT UNSET at construction (0): the documented defaults apply — a 5 s sleep window, 1 probe, 1 success
		dtags = append(dtags, "defaults")
		if u := r.Intn(4); u == 0 || u == 3 {
			hs, sleep = 0, 5_000_000_000
		}
		if u := r.Intn(3); u == 0 {
			hh, half = 0, 1
		}
		if u := r.Intn(3); u == 0 {
			hr, req = 0, 1
		}
	}
	_, _ = half, req
	c := Case{Header: fmt.Sprintf("closer sleep=%d half=%d req=%d", hs, hh, hr), Tags: dtags}
	t := int64(r.Intn(50))
	next := int64(-1)
	armed := 0
	nLong := 1 + r.Intn(40)
	if r.Intn(25) == 0 {
		nLong = 200 + r.Intn(300) // a long history
	}
	for j, n := 0, nLong; j < n; j++ {
		switch x := r.Intn(100); {
		case x < 10:
			t += r.Int63n(sleep + 2)
			c.Ops = append(c.Ops, fmt.Sprintf("%s %d", pick(r, "opened", "opened", "closed"), t))
			next = t + sleep
			armed++
			c.Tags = append(c.Tags, "transition")
		case x < 50:
			var at int64
			switch y := r.Intn(10); {
			case y < 4 && next >= 0:
				at = next + int64(r.Intn(3)) - 1
				c.Tags = append(c.Tags, "at-window-end")
			case y < 6:
				at = t - r.Int63n(sleep+2)
				c.Tags = append(c.Tags, "stale-reading")
			default:
				at = t + r.Int63n(2*sleep+2)
			}
			if at > t {
				t = at
			}
			c.Ops = append(c.Ops, fmt.Sprintf("allow %d", at))
			if r.Intn(3) == 0 {
				armed++
			}
		case x < 70:
			c.Ops = append(c.Ops, fmt.Sprintf("ev %s %d", pick(r, "success", "success", "failure", "timeout", "badrequest", "interrupt", "reject", "shortcircuit"), t))
		case x < 78:
			c.Ops = append(c.Ops, fmt.Sprintf("shouldclose %d", t))
		case x < 82:
			c.Ops = append(c.Ops, "view") // the JSON / expvar view: state-level comparison, and it must change nothing
			c.Tags = append(c.Tags, "view")
		case x < 95:
			k := 0
			if armed > 0 {
				k = armed - 1 - r.Intn(min(armed, 3))
			}
			c.Ops = append(c.Ops, fmt.Sprintf("fire %d", k))
			c.Tags = append(c.Tags, "fire")
		default:
			c.Ops = append(c.Ops, fmt.Sprintf("cfg sleep=%d half=%d req=%d", []int64{0, 1, 20, 60}[r.Intn(4)], r.Intn(5)-1, r.Intn(5)-1))
			c.Tags = append(c.Tags, "live-cfg")
		}
	}
	return c
}

func (closerSuite) Nontrivial(tags map[string]int) bool {
	return tags["fire"] > 0 && tags["transition"] > 0 && tags["at-window-end"]+tags["stale-reading"] > 0
}

func (closerSuite) Run(h map[string]string, ops []string) []string {
	var callbacks []func()
	cfg := hystrix.ConfigureCloser{SleepWindow: time.Duration(getI(h, "sleep", 5_000_000_000)), HalfOpenAttempts: getI(h, "half", 1),
		RequiredConcurrentSuccessful: getI(h, "req", 1),
		AfterFunc: func(d time.Duration, f func()) *time.Timer { callbacks = append(callbacks, f); return sleepingTimer() }}
	cl := hystrix.CloserFactory(cfg)().(*hystrix.Closer)
	ctx := context.Background()
	out := make([]string, len(ops))
	for i, op := range ops {
		out[i] = func() (res string) {
			defer func() {
				if r := recover(); r != nil {
					res = "panic"
				}
			}()
			f := strings.Fields(op)
			at := func(s string) time.Time { return clockBase.Add(time.Duration(atoi(s))) }
			switch f[0] {
			case "ev":
				t := at(f[2])
				switch f[1] {
				case "success":
					cl.Success(ctx, t, 0)
				case "failure":
					cl.ErrFailure(ctx, t, 0)
				case "timeout":
					cl.ErrTimeout(ctx, t, 0)
				case "badrequest":
					cl.ErrBadRequest(ctx, t, 0)
				case "interrupt":
					cl.ErrInterrupt(ctx, t, 0)
				case "reject":
					cl.ErrConcurrencyLimitReject(ctx, t)
				case "shortcircuit":
					cl.ErrShortCircuit(ctx, t)
				}
				return "ok"
			case "opened":
				cl.Opened(ctx, at(f[1]))
				return "ok"
			case "closed":
				cl.Closed(ctx, at(f[1]))
				return "ok"
			case "allow":
				return b01(cl.Allow(ctx, at(f[1])))
			case "shouldclose":
				return b01(cl.ShouldClose(ctx, at(f[1])))
			case "fire":
				if k := int(atoi(f[1])); k >= 0 && k < len(callbacks) {
					callbacks[k]()
				}
				return "ok"
			case "view":
				b, err := json.Marshal(cl)
				if err != nil {
					return "err"
				}
				var v struct {
					Config struct {
						SleepWindow                  int64
						HalfOpenAttempts             int64
						RequiredConcurrentSuccessful int64
					}
					ConcurrentSuccessfulAttempts int64
				}
				if err := json.Unmarshal(b, &v); err != nil {
					return "err"
				}
				return fmt.Sprintf("succ=%d sleep=%d half=%d req=%d", v.ConcurrentSuccessfulAttempts, v.Config.SleepWindow, v.Config.HalfOpenAttempts, v.Config.RequiredConcurrentSuccessful)
			case "cfg":
				m := kvs(f[1:])
				cfg.SleepWindow = time.Duration(getI(m, "sleep", 0))
				cfg.HalfOpenAttempts = getI(m, "half", 0)
				cfg.RequiredConcurrentSuccessful = getI(m, "req", 0)
				cl.SetConfigThreadSafe(cfg)
				return "ok"
			}
			return "bad-op"
		}()
	}
	return out
}

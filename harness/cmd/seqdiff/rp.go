package main

import (
	"encoding/json"
	"expvar"
	"fmt"
	"math"
	"math/rand"
	"sort"
	"strconv"
	"strings"
	"time"

	"github.com/cep21/circuit/v4/faststats"
)

type rpSuite struct{}
type sdSuite struct{}

func init() { register("rp", rpSuite{}); register("sd", sdSuite{}) }

func genDuration(r *rand.Rand) int64 {
	switch x := r.Intn(20); {
	case x < 10:
		return r.Int63n(1000)
	case x < 14:
		return r.Int63n(2_000_000_000)
	case x < 16:
		return -r.Int63n(1000)
	case x < 17:
		return 0
	default:
		return r.Int63n(1 << 40)
	}
}

func (rpSuite) Gen(r *rand.Rand, i int) Case {
	n := 1 + r.Intn(8)
	if r.Intn(40) == 0 {
		n = 0
	}
	sizes := []int{0, 1, 2, 3, 5}
	size := sizes[r.Intn(len(sizes))]
	ws := []int64{1, 7, 1_000_000, 1_000_000_000}
	w := ws[r.Intn(len(ws))]
	dense := n > 0 && r.Intn(10) == 0
	if dense {
		n, size = 1+r.Intn(3), 11+r.Intn(15) // many more live samples than 10 per bucket
	}
	wall := n > 0 && !dense && r.Intn(10) == 0
	extreme := n > 0 && !dense && !wall && r.Intn(15) == 0
	if extreme {
		w = 1 // 1 ns buckets: the absolute bucket index can come within NumBuckets of MaxInt64
	}
	if wall {
		w = 10_000_000_000 // 10 s buckets: the whole case runs inside bucket 0 of the wall clock
	}
	c := Case{Header: fmt.Sprintf("rp n=%d w=%d size=%d", n, w, size)}
	if wall {
		c.Header += " wall=1"
		c.Tags = append(c.Tags, "published-summary")
	}
	g := &timeGen{n: max(n, 1), w: w}
	if extreme {
		g.cur = math.MaxInt64 - r.Int63n(int64(3*n+2))
		c.Ops = append(c.Ops, fmt.Sprintf("snap %d", g.cur))
		c.Tags = append(c.Tags, "top-of-index-range")
	}
	perBucket := map[int64]int{}
	nops := 1 + r.Intn(40)
	if r.Intn(25) == 0 {
		nops = 200 + r.Intn(300) // a long history: state that only goes wrong after it accumulates
	}
	if dense {
		nops = 25*n + r.Intn(40*n)
		c.Tags = append(c.Tags, "dense")
	}
	for j := 0; j < nops; j++ {
		d, tag := g.next(r)
		if r.Intn(3) == 0 || (dense && r.Intn(20) != 0) { // cluster in the current bucket to overflow its capacity
			d, tag = g.cur, "same-time"
		}
		c.Tags = append(c.Tags, tag)
		x := r.Intn(100)
		if dense && x >= 92 {
			x = r.Intn(92) // no resets while the sample is being piled up
		}
		if wall && r.Intn(5) == 0 {
			c.Ops = append(c.Ops, "pub")
			continue
		}
		switch {
		case x < 62:
			c.Ops = append(c.Ops, fmt.Sprintf("add %d %d", genDuration(r), d))
			if d >= 0 {
				perBucket[d/w]++
				if perBucket[d/w] == size+1 {
					c.Tags = append(c.Tags, "bucket-overflow")
				}
			}
		case x < 92:
			c.Ops = append(c.Ops, fmt.Sprintf("snap %d", d))
		default:
			c.Ops = append(c.Ops, fmt.Sprintf("reset %d", d))
			c.Tags = append(c.Tags, "reset")
			perBucket = map[int64]int{}
		}
	}
	return c
}

func (rpSuite) Nontrivial(tags map[string]int) bool {
	return tags["ahead"]+tags["far-future"] > 0 && (tags["bucket-overflow"] > 0 || tags["window-back"]+tags["stale"]+tags["before-start"] > 0)
}

func (rpSuite) Run(h map[string]string, ops []string) []string {
	n, w, size := int(atoi(h["n"])), atoi(h["w"]), int(atoi(h["size"]))
	origin := origin
	if h["wall"] == "1" {
		origin = time.Now() // the timeline starts at the wall clock: Snapshot() / Var() (which read time.Now()) fall into bucket 0
	}
	rp := faststats.NewRollingPercentile(time.Duration(w), n, size, origin)
	held := rp.Var() // obtained ONCE, evaluated later (the expvar.Publish usage pattern)
	var prevSnap faststats.SortedDurations
	var prevText string
	out := make([]string, len(ops))
	for i, op := range ops {
		out[i] = func() (res string) {
			defer func() {
				if r := recover(); r != nil {
					res = "panic"
				}
			}()
			f := strings.Fields(op)
			switch f[0] {
			case "add":
				rp.AddDuration(time.Duration(atoi(f[1])), timeAt(origin, atoi(f[2])))
				return "ok"
			case "snap":
				s := rp.SnapshotAt(timeAt(origin, atoi(f[1])))
				l := make([]int64, len(s))
				for i, d := range s {
					l[i] = int64(d)
				}
				// a snapshot is a VALUE: the one returned before must still read as it did when it was returned,
				// whatever has been added, reset or snapshotted since
				if prevSnap != nil {
					pl := make([]int64, len(prevSnap))
					for i, d := range prevSnap {
						pl[i] = int64(d)
					}
					if now := fmtInts(pl); now != prevText {
						return "earlier-snapshot-changed:was=" + prevText + ",reads=" + now
					}
				}
				prevSnap, prevText = s, fmtInts(l)
				return fmtInts(l)
			case "reset":
				rp.Reset(timeAt(origin, atoi(f[1])))
				return "ok"
			case "pub":
				// the published summary, evaluated now through the Var obtained at the start, must label the sample
				// that Snapshot() returns now
				var got struct{ Snap map[string]string }
				if err := json.Unmarshal([]byte(held.String()), &got); err != nil {
					return "bad-json"
				}
				sn := rp.Snapshot()
				want := map[string]string{"min": sn.Min().String(), "p25": sn.Percentile(25).String(), "p50": sn.Percentile(50).String(),
					"p90": sn.Percentile(90).String(), "p99": sn.Percentile(99).String(), "max": sn.Max().String(), "mean": sn.Mean().String()}
				for k, v := range want {
					if got.Snap[k] != v {
						return fmt.Sprintf("mismatch:%s=%s,want=%s", k, got.Snap[k], v)
					}
				}
				return "ok"
			}
			return "bad-op"
		}()
	}
	return out
}

// ---- sd: SortedDurations summaries

func fmtList(l []int64) string {
	if len(l) == 0 {
		return "_"
	}
	parts := make([]string, len(l))
	for i, v := range l {
		parts[i] = strconv.FormatInt(v, 10)
	}
	return strings.Join(parts, ",")
}

func parseList(s string) faststats.SortedDurations {
	if s == "_" {
		return faststats.SortedDurations{}
	}
	parts := strings.Split(s, ",")
	out := make(faststats.SortedDurations, len(parts))
	for i, p := range parts {
		out[i] = time.Duration(atoi(p))
	}
	return out
}

func genSample(r *rand.Rand) ([]int64, string) {
	n := r.Intn(13)
	tag := "small"
	if r.Intn(12) == 0 {
		n = 13 + r.Intn(200)
		tag = "long"
	}
	l := make([]int64, n)
	mode := r.Intn(10)
	for i := range l {
		switch {
		case mode < 5:
			l[i] = r.Int63n(1000)
		case mode < 7:
			l[i] = r.Int63n(4_000_000_000) - 1_000_000
		case mode < 8:
			l[i] = int64(r.Intn(3)) // many duplicates
		case mode < 9:
			l[i] = r.Int63n(1<<53) - (1 << 52)
		default:
			l[i] = r.Int63() - (1 << 62) // magnitudes where int64 sums / differences can overflow
			tag = "huge"
		}
	}
	sort.Slice(l, func(i, j int) bool { return l[i] < l[j] })
	return l, tag
}

func genP(r *rand.Rand, n int) (float64, string) {
	fixed := []float64{0, 100, 25, 50, 75, 90, 95, 99, 99.5, .25, .5, .9, .99, 1, 33.3, 66.6}
	for {
		var p float64
		var tag string
		switch x := r.Intn(100); {
		case x < 25:
			p, tag = fixed[r.Intn(len(fixed))], "fixed-p"
		case x < 50:
			p, tag = r.Float64()*100, "uniform-p"
		case x < 70 && n > 1: // neighbours of values where p/100*(n-1) is integral
			k := r.Intn(n)
			p = float64(k) * 100 / float64(n-1)
			steps := r.Intn(5) - 2
			for s := 0; s < steps; s++ {
				p = math.Nextafter(p, 200)
			}
			for s := 0; s > steps; s-- {
				p = math.Nextafter(p, -200)
			}
			tag = "integral-index-neighbour"
		case x < 78:
			p, tag = -r.Float64()*10, "negative-p"
		case x < 86:
			p, tag = 100+r.Float64()*10, "above-100"
		case x < 90:
			p, tag = []float64{math.Inf(1), math.Inf(-1), math.SmallestNonzeroFloat64, 100 - 1e-13, math.Nextafter(100, 0), math.Nextafter(0, 1)}[r.Intn(6)], "extreme-p"
		default:
			p, tag = math.Float64frombits(r.Uint64()), "random-bits"
		}
		if !math.IsNaN(p) {
			return p, tag
		}
	}
}

func (sdSuite) Gen(r *rand.Rand, i int) Case {
	c := Case{Header: "sd"}
	nops := 1 + r.Intn(10)
	for j := 0; j < nops; j++ {
		l, ltag := genSample(r)
		c.Tags = append(c.Tags, ltag)
		switch x := r.Intn(100); {
		case x < 45:
			p, tag := genP(r, len(l))
			c.Tags = append(c.Tags, tag)
			c.Ops = append(c.Ops, fmt.Sprintf("pct %d %s", math.Float64bits(p), fmtList(l)))
		case x < 75:
			p, tag := genP(r, len(l))
			q, tag2 := genP(r, len(l))
			c.Tags = append(c.Tags, tag, tag2)
			if r.Intn(3) == 0 { // close pair
				q = math.Nextafter(p, 200)
			}
			c.Ops = append(c.Ops, fmt.Sprintf("pct2 %d %d %s", math.Float64bits(p), math.Float64bits(q), fmtList(l)))
		case x < 85:
			c.Ops = append(c.Ops, "mean "+fmtList(l))
		case x < 88:
			c.Ops = append(c.Ops, "min "+fmtList(l))
		case x < 91:
			c.Ops = append(c.Ops, "max "+fmtList(l))
		default:
			c.Ops = append(c.Ops, "var "+fmtList(l))
			c.Tags = append(c.Tags, "var")
		}
	}
	return c
}

func (sdSuite) Nontrivial(tags map[string]int) bool {
	return tags["integral-index-neighbour"]+tags["uniform-p"]+tags["random-bits"]+tags["var"] > 0
}

func durNs(s string) string {
	d, err := time.ParseDuration(s)
	if err != nil {
		return "unparsable(" + s + ")"
	}
	return strconv.FormatInt(int64(d), 10)
}

func (sdSuite) Run(h map[string]string, ops []string) []string {
	out := make([]string, len(ops))
	for i, op := range ops {
		out[i] = func() (res string) {
			defer func() {
				if r := recover(); r != nil {
					res = "panic"
				}
			}()
			f := strings.Fields(op)
			switch f[0] {
			case "pct":
				b, _ := strconv.ParseUint(f[1], 10, 64)
				return strconv.FormatInt(int64(parseList(f[2]).Percentile(math.Float64frombits(b))), 10)
			case "pct2":
				b1, _ := strconv.ParseUint(f[1], 10, 64)
				b2, _ := strconv.ParseUint(f[2], 10, 64)
				s := parseList(f[3])
				return fmt.Sprintf("%d %d", int64(s.Percentile(math.Float64frombits(b1))), int64(s.Percentile(math.Float64frombits(b2))))
			case "mean":
				return strconv.FormatInt(int64(parseList(f[1]).Mean()), 10)
			case "min":
				return strconv.FormatInt(int64(parseList(f[1]).Min()), 10)
			case "max":
				return strconv.FormatInt(int64(parseList(f[1]).Max()), 10)
			case "var":
				s := parseList(f[1])
				v := s.Var().(expvar.Func)
				var m map[string]string
				if err := json.Unmarshal([]byte(v.String()), &m); err != nil {
					return "json-error"
				}
				return fmt.Sprintf("min=%s p25=%s/%d p50=%s/%d p90=%s/%d p99=%s/%d max=%s mean=%s",
					durNs(m["min"]), durNs(m["p25"]), int64(s.Percentile(25)), durNs(m["p50"]), int64(s.Percentile(50)),
					durNs(m["p90"]), int64(s.Percentile(90)), durNs(m["p99"]), int64(s.Percentile(99)), durNs(m["max"]), durNs(m["mean"]))
			}
			return "bad-op"
		}()
	}
	return out
}

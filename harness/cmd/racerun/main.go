// racerun — built with -race: control-plane and diagnostic operations against Execute/Go traffic of every outcome
// kind, for a short while.  A data race makes the race detector print a report and the process exit with status 66;
// the report is the replay.  (C11 obligation 1: failing-input search for the lock-discipline proof.)
package main

import (
	"context"
	"errors"
	"flag"
	"fmt"
	"math/rand"
	"net/http"
	"net/http/httptest"
	"os"
	"sync"
	"sync/atomic"
	"time"

	circuit "github.com/cep21/circuit/v4"
	"github.com/cep21/circuit/v4/closers/hystrix"
	"github.com/cep21/circuit/v4/metriceventstream"
	"github.com/cep21/circuit/v4/metrics/responsetimeslo"
	"github.com/cep21/circuit/v4/metrics/rolling"
)

// discardFlusher is an http.ResponseWriter + http.Flusher that throws the stream away.
type discardFlusher struct{ h http.Header }

func (d *discardFlusher) Header() http.Header         { return d.h }
func (d *discardFlusher) Write(b []byte) (int, error) { return len(b), nil }
func (d *discardFlusher) WriteHeader(int)             {}
func (d *discardFlusher) Flush()                      {}

func main() {
	dur := flag.Duration("dur", 1500*time.Millisecond, "")
	seed := flag.Int64("seed", 1, "")
	minIter := flag.Int("miniter", 400, "every worker does at least this many rounds even when the machine is busy (bounded by 8 x dur)")
	flag.Parse()
	sf := &rolling.StatFactory{}
	slo := &responsetimeslo.Factory{}
	hf := &hystrix.Factory{ConfigureOpener: hystrix.ConfigureOpener{RequestVolumeThreshold: 3}, ConfigureCloser: hystrix.ConfigureCloser{SleepWindow: time.Millisecond}}
	m := &circuit.Manager{DefaultCircuitProperties: []circuit.CommandPropertiesConstructor{sf.CreateConfig, slo.CommandProperties, hf.Configure}}
	c := m.MustCreateCircuit("c", circuit.Config{Execution: circuit.ExecutionConfig{Timeout: 2 * time.Millisecond, IsErrInterrupt: func(error) bool { return true }}})
	stop := time.Now().Add(*dur)
	hardStop := time.Now().Add(8 * *dur)
	var wg sync.WaitGroup
	var libPanics atomic.Int64
	full := c.Config() // the complete configuration (time keeper, factories, collectors), to alternate with partial ones
	// the metrics event stream with one listener: its collector loop runs on a goroutine of the LIBRARY (a panic
	// there takes the process down) and snapshots the circuits every tick while they are being reconfigured
	es := &metriceventstream.MetricEventStream{Manager: m, TickDuration: 200 * time.Microsecond}
	go func() { _ = es.Start() }()
	lctx, lcancel := context.WithCancel(context.Background())
	ldone := make(chan struct{})
	go func() {
		defer close(ldone)
		es.ServeHTTP(&discardFlusher{h: http.Header{}}, httptest.NewRequest(http.MethodGet, "/hystrix.stream", nil).WithContext(lctx))
	}()
	worker := func(id int, f func(r *rand.Rand)) {
		wg.Add(1)
		go func() {
			defer wg.Done()
			r := rand.New(rand.NewSource(*seed*100 + int64(id)))
			for n := 0; time.Now().Before(stop) || (n < *minIter && time.Now().Before(hardStop)); n++ {
				func() {
					defer func() {
						// the only panic a worker may see is the one its own run function raises ("p")
						if p := recover(); p != nil && p != "p" {
							if libPanics.Add(1) == 1 {
								fmt.Printf("library panic on worker %d: %v\n", id, p)
							}
						}
					}()
					f(r)
				}()
			}
		}()
	}
	boom := errors.New("boom")
	traffic := func(r *rand.Rand) {
		ctx, cancel := context.WithCancel(context.Background())
		defer cancel()
		if r.Intn(5) == 0 {
			cancel()
		}
		kind, rare := r.Intn(6), r.Intn(20) == 0 // drawn here: the run function may execute on another goroutine (Go)
		run := func(ctx context.Context) error {
			switch kind {
			case 0:
				return boom
			case 1:
				return circuit.SimpleBadRequest{Err: boom}
			case 2:
				time.Sleep(3 * time.Millisecond)
				return nil
			case 3:
				return ctx.Err()
			case 4:
				if rare {
					panic("p")
				}
			}
			return nil
		}
		fb := func(context.Context, error) error { return nil }
		if r.Intn(2) == 0 {
			_ = c.Execute(ctx, run, fb)
		} else {
			_ = c.Go(ctx, run, fb)
		}
	}
	for i := 0; i < 4; i++ {
		worker(i, traffic)
	}
	worker(10, func(r *rand.Rand) { // live reconfiguration of the circuit, full and partial configs
		cfg := full
		if r.Intn(2) == 0 {
			cfg = circuit.Config{}
			verdict := r.Intn(2) == 0
			cfg.Execution.IsErrInterrupt = func(error) bool { return verdict }
		}
		cfg.Execution.MaxConcurrentRequests = int64(r.Intn(4) - 1)
		cfg.Execution.Timeout = time.Duration(r.Intn(3)) * time.Millisecond
		cfg.General.ForceOpen = r.Intn(8) == 0
		cfg.General.ForcedClosed = r.Intn(8) == 0
		c.SetConfigThreadSafe(cfg)
		time.Sleep(50 * time.Microsecond)
	})
	worker(11, func(r *rand.Rand) { // built-in logic and tracker reconfiguration
		if o, ok := c.ClosedToOpen.(*hystrix.Opener); ok {
			o.SetConfigThreadSafe(hystrix.ConfigureOpener{ErrorThresholdPercentage: int64(r.Intn(100)), RequestVolumeThreshold: int64(r.Intn(5))})
		}
		if cl, ok := c.OpenToClose.(*hystrix.Closer); ok {
			cl.SetConfigThreadSafe(hystrix.ConfigureCloser{SleepWindow: time.Duration(r.Intn(3)) * time.Millisecond, HalfOpenAttempts: int64(r.Intn(3)), RequiredConcurrentSuccessful: int64(r.Intn(3)),
				AfterFunc: func(d time.Duration, f func()) *time.Timer { return time.AfterFunc(d, f) }})
		}
		for _, rm := range c.CmdMetricCollector {
			if t, ok := rm.(*responsetimeslo.Tracker); ok {
				t.SetConfigThreadSafe(responsetimeslo.Config{MaximumHealthyTime: time.Duration(r.Intn(5)) * time.Millisecond})
			}
		}
		time.Sleep(50 * time.Microsecond)
	})
	worker(12, func(r *rand.Rand) { // manual transitions
		if r.Intn(2) == 0 {
			c.OpenCircuit(context.Background())
		} else {
			c.CloseCircuit(context.Background())
		}
		time.Sleep(100 * time.Microsecond)
	})
	worker(13, func(r *rand.Rand) { // read-side diagnostics
		_ = c.Config()
		_ = c.IsOpen()
		_ = c.ConcurrentCommands() + c.ConcurrentFallbacks()
		_ = c.Var().String()
		_ = m.Var().String()
		if rs := sf.RunStats("c"); rs != nil {
			_ = rs.ErrorPercentage()
			_ = rs.Latencies.Snapshot().Mean()
			_ = rs.Var().String()
		}
		_ = m.AllCircuits()
	})
	wg.Wait()
	lcancel()
	<-ldone
	_ = es.Close()
	if n := libPanics.Load(); n > 0 {
		fmt.Printf("racerun: %d library panics were recovered by the workers\n", n)
		os.Exit(3)
	}
	fmt.Println("racerun finished without a race report")
}

module verifharness

go 1.21

require github.com/cep21/circuit/v4 v4.0.0

replace github.com/cep21/circuit/v4 => /repo

// Package vatomic mirrors the part of sync/atomic the library uses (typed values) and makes every operation a
// scheduling point of vsched.  Outside a scheduled run it behaves exactly like sync/atomic.
package vatomic

import (
	"sync/atomic"
	"unsafe"

	"github.com/cep21/circuit/v4/vsched"
)

// Int64 mirrors atomic.Int64.
type Int64 struct{ v atomic.Int64 }

func (x *Int64) name() string { return vsched.NameOf(uintptr(unsafe.Pointer(x))) }

func (x *Int64) Load() int64 {
	vsched.Yield("load " + x.name())
	r := x.v.Load()
	vsched.Note("-> %d", r)
	return r
}
func (x *Int64) Store(v int64) {
	vsched.Yield("store " + x.name())
	x.v.Store(v)
	vsched.Note("%d", v)
}
func (x *Int64) Add(d int64) int64 {
	vsched.Yield("add " + x.name())
	r := x.v.Add(d)
	vsched.Note("%d -> %d", d, r)
	return r
}
func (x *Int64) Swap(v int64) int64 {
	vsched.Yield("swap " + x.name())
	r := x.v.Swap(v)
	vsched.Note("%d -> %d", v, r)
	return r
}
func (x *Int64) CompareAndSwap(old, new int64) bool {
	vsched.Yield("cas " + x.name())
	r := x.v.CompareAndSwap(old, new)
	vsched.Note("%d %d -> %t", old, new, r)
	return r
}

// Bool mirrors atomic.Bool.
type Bool struct{ v atomic.Bool }

func (x *Bool) name() string { return vsched.NameOf(uintptr(unsafe.Pointer(x))) }

func (x *Bool) Load() bool {
	vsched.Yield("load " + x.name())
	r := x.v.Load()
	vsched.Note("-> %t", r)
	return r
}
func (x *Bool) Store(v bool) {
	vsched.Yield("store " + x.name())
	x.v.Store(v)
	vsched.Note("%t", v)
}
func (x *Bool) Swap(v bool) bool {
	vsched.Yield("swap " + x.name())
	r := x.v.Swap(v)
	vsched.Note("%t -> %t", v, r)
	return r
}
func (x *Bool) CompareAndSwap(old, new bool) bool {
	vsched.Yield("cas " + x.name())
	r := x.v.CompareAndSwap(old, new)
	vsched.Note("%t %t -> %t", old, new, r)
	return r
}

// the remaining typed values and the function API, passed through unscheduled (not used by the library today; present
// so that a change which starts using them still builds — their operations are then not scheduling points)
type (
	Int32   = atomic.Int32
	Uint32  = atomic.Uint32
	Uint64  = atomic.Uint64
	Uintptr = atomic.Uintptr
	Value   = atomic.Value
)

func AddInt64(addr *int64, delta int64) int64 {
	vsched.Yield("add raw")
	return atomic.AddInt64(addr, delta)
}
func LoadInt64(addr *int64) int64 {
	vsched.Yield("load raw")
	return atomic.LoadInt64(addr)
}
func StoreInt64(addr *int64, v int64) {
	vsched.Yield("store raw")
	atomic.StoreInt64(addr, v)
}
func SwapInt64(addr *int64, v int64) int64 {
	vsched.Yield("swap raw")
	return atomic.SwapInt64(addr, v)
}
func CompareAndSwapInt64(addr *int64, old, new int64) bool {
	vsched.Yield("cas raw")
	return atomic.CompareAndSwapInt64(addr, old, new)
}
func AddInt32(addr *int32, delta int32) int32            { vsched.Yield("add raw"); return atomic.AddInt32(addr, delta) }
func LoadInt32(addr *int32) int32                        { vsched.Yield("load raw"); return atomic.LoadInt32(addr) }
func StoreInt32(addr *int32, v int32)                    { vsched.Yield("store raw"); atomic.StoreInt32(addr, v) }
func CompareAndSwapInt32(addr *int32, o, n int32) bool   { vsched.Yield("cas raw"); return atomic.CompareAndSwapInt32(addr, o, n) }
func LoadUint32(addr *uint32) uint32                     { vsched.Yield("load raw"); return atomic.LoadUint32(addr) }
func StoreUint32(addr *uint32, v uint32)                 { vsched.Yield("store raw"); atomic.StoreUint32(addr, v) }
func CompareAndSwapUint32(addr *uint32, o, n uint32) bool { vsched.Yield("cas raw"); return atomic.CompareAndSwapUint32(addr, o, n) }

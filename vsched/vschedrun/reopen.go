package main

import (
	"context"
	"fmt"
	"math/rand"
	"time"

	circuit "github.com/cep21/circuit/v4"
	"github.com/cep21/circuit/v4/closers/hystrix"
	"github.com/cep21/circuit/v4/vsched"
)

// reopen (C02, C09): a circuit with the REAL hystrix opener is open, and failing half-open probes have piled up more
// failures in the opener's window than its volume threshold.  Then ONE CloseCircuit races k calls (failing / succeeding).
// Whatever the interleaving, once everything has returned the circuit is closed unless at least RequestVolumeThreshold
// calls FAILED AFTER the closing was notified (the opener counts "since the last transition": `Closed` wipes its
// window) — with fewer failing callers than the threshold it must simply be closed.  A closing that makes the flag
// visible before the opener was told lets one late failure re-open the circuit on the stale counts.
type reopenScenario struct{}

func init() { scenarios["reopen"] = reopenScenario{} }

func (reopenScenario) Config(r *rand.Rand, small bool) string {
	k := 1 + r.Intn(2)
	if small {
		k = 1
	}
	ops := make([]byte, k)
	for i := range ops {
		ops[i] = "FFS"[r.Intn(3)]
	}
	ops[0] = 'F'
	return fmt.Sprintf("vol=%d stale=%d ops=%s", 3+r.Intn(2), 3+r.Intn(4), ops)
}

// allowAll: a closer that admits every probe and never closes on its own (the race is about CloseCircuit)
type allowAll struct{ yesNothing }
type yesNothing struct{}

func (yesNothing) Success(context.Context, time.Time, time.Duration)       {}
func (yesNothing) ErrFailure(context.Context, time.Time, time.Duration)    {}
func (yesNothing) ErrTimeout(context.Context, time.Time, time.Duration)    {}
func (yesNothing) ErrBadRequest(context.Context, time.Time, time.Duration) {}
func (yesNothing) ErrInterrupt(context.Context, time.Time, time.Duration)  {}
func (yesNothing) ErrConcurrencyLimitReject(context.Context, time.Time)    {}
func (yesNothing) ErrShortCircuit(context.Context, time.Time)              {}
func (yesNothing) Opened(context.Context, time.Time)                       {}
func (yesNothing) Closed(context.Context, time.Time)                       {}
func (allowAll) Allow(context.Context, time.Time) bool                    { return true }
func (allowAll) ShouldClose(context.Context, time.Time) bool              { return false }

func (reopenScenario) Build(cfg string) ([]func(), func(*vsched.Sched) []string) {
	now := time.Date(2100, 1, 1, 0, 0, 0, 0, time.UTC)
	vol := int64(cfgInt(cfg, "vol"))
	ops := cfgStr(cfg, "ops")
	notif := &notifRec{}
	c := circuit.NewCircuitFromConfig("r", circuit.Config{
		General: circuit.GeneralConfig{
			TimeKeeper: circuit.TimeKeeper{Now: func() time.Time { return now }},
			ClosedToOpenFactory: hystrix.OpenerFactory(hystrix.ConfigureOpener{
				RequestVolumeThreshold: vol, ErrorThresholdPercentage: 50, Now: func() time.Time { return now },
				RollingDuration: time.Hour, NumBuckets: 4}),
			OpenToClosedFactory: func() circuit.OpenToClosed { return allowAll{} },
		},
		Execution: circuit.ExecutionConfig{MaxConcurrentRequests: -1},
		Metrics:   circuit.MetricsCollectors{Circuit: []circuit.Metrics{notif}},
	})
	ctx := context.Background()
	c.OpenCircuit(ctx)
	for i := 0; i < cfgInt(cfg, "stale"); i++ { // failing probes: counted by the opener, the circuit stays open
		_ = c.Run(ctx, func(context.Context) error { return errBoom })
	}
	nameVars(c, "c")
	failing := 0
	bodies := []func(){func() { c.CloseCircuit(ctx) }}
	for _, op := range ops {
		fail := op == 'F'
		if fail {
			failing++
		}
		bodies = append(bodies, func() {
			_ = c.Run(ctx, func(context.Context) error {
				if fail {
					return errBoom
				}
				return nil
			})
		})
	}
	monitor := func(s *vsched.Sched) []string {
		if !c.IsOpen() || int64(failing) >= vol {
			return nil
		}
		msg := fmt.Sprintf("a circuit closed by CloseCircuit is open again although only %d call(s) failed since that transition (RequestVolumeThreshold %d): the opener tripped on counts from before the closing (notifications: %v)", failing, vol, notif.log)
		return []string{"C02: " + msg, "C09: the closing made the flag visible before the opener and the collectors were told Closed"}
	}
	return bodies, monitor
}

package main

import (
	"context"
	"fmt"
	"math/rand"
	"time"

	circuit "github.com/cep21/circuit/v4"
	"github.com/cep21/circuit/v4/vsched"
)

// cfg2 (C04, C07, C08, C11): TWO overlapping SetConfigThreadSafe calls with different settings.  Whatever the
// interleaving, once both have returned the circuit must be configured by ONE of them, consistently: what Config()
// reports is what is enforced (override flags, execution timeout, both concurrency limits).
type cfg2Scenario struct{}

func init() { scenarios["cfg2"] = cfg2Scenario{} }

func (cfg2Scenario) Config(r *rand.Rand, small bool) string {
	// each setter: fo fc timeout(0|1s) mc(-1|0) fbmc(-1|0)
	bits := func() string { return fmt.Sprintf("%d%d%d%d%d", r.Intn(2), r.Intn(2), r.Intn(2), r.Intn(2), r.Intn(2)) }
	a, b := bits(), bits()
	for a == b {
		b = bits()
	}
	return fmt.Sprintf("a=%s b=%s readers=%d", a, b, r.Intn(2))
}

func cfg2Apply(base circuit.Config, bits string) circuit.Config {
	base.General.ForceOpen = bits[0] == '1'
	base.General.ForcedClosed = bits[1] == '1'
	base.Execution.Timeout = map[byte]time.Duration{'0': -1, '1': time.Second}[bits[2]]
	base.Execution.MaxConcurrentRequests = map[byte]int64{'0': -1, '1': 0}[bits[3]]
	base.Fallback.MaxConcurrentRequests = map[byte]int64{'0': -1, '1': 0}[bits[4]]
	return base
}

func (cfg2Scenario) Build(cfg string) ([]func(), func(*vsched.Sched) []string) {
	now := time.Date(2100, 1, 1, 0, 0, 0, 0, time.UTC)
	c := circuit.NewCircuitFromConfig("k", circuit.Config{General: circuit.GeneralConfig{TimeKeeper: circuit.TimeKeeper{Now: func() time.Time { return now }}}})
	base := c.Config()
	ca, cb := cfg2Apply(base, cfgStr(cfg, "a")), cfg2Apply(base, cfgStr(cfg, "b"))
	nameVars(c, "c")
	bodies := []func(){
		func() { c.SetConfigThreadSafe(ca) },
		func() { c.SetConfigThreadSafe(cb) },
	}
	if cfgInt(cfg, "readers") == 1 {
		bodies = append(bodies, func() { _ = c.Config(); _ = c.IsOpen() })
	}
	monitor := func(s *vsched.Sched) []string {
		var problems []string
		got := c.Config()
		// what is ENFORCED, observed through behaviour
		wantOpen := got.General.ForceOpen
		if c.IsOpen() != wantOpen {
			problems = append(problems, fmt.Sprintf("C08: after two overlapping reconfigurations Config() reports ForceOpen=%t ForcedClosed=%t but IsOpen()=%t", got.General.ForceOpen, got.General.ForcedClosed, c.IsOpen()),
				"C09: the override flags in force are not the ones Config() reports (IsOpen disagrees with a quiescent, 'not overridden' circuit's state)")
		}
		// probe call on a copy of the flags that admits it: clear the overrides through a further, sequential, call
		probeCfg := got
		probeCfg.General.ForceOpen, probeCfg.General.ForcedClosed = false, false
		hasDeadline, ran, fbRan := false, false, false
		_ = ran
		// (the probe must not disturb what we observe: run it BEFORE clearing anything, with the flags as they are)
		err := c.Execute(context.Background(), func(ctx context.Context) error {
			ran = true
			_, hasDeadline = ctx.Deadline()
			return errBoom
		}, func(context.Context, error) error { fbRan = true; return nil })
		if got.General.ForceOpen && ran {
			problems = append(problems, "C01: Config() reports ForceOpen, yet a call that started after both reconfigurations had returned invoked its run function", "C09: the override flags in force are not the ones Config() reports")
		}
		if !got.General.ForceOpen {
			wantRun := got.Execution.MaxConcurrentRequests != 0
			if ran != wantRun {
				problems = append(problems, fmt.Sprintf("C04: Config() reports Execution.MaxConcurrentRequests=%d but a lone call was admitted=%t", got.Execution.MaxConcurrentRequests, ran))
			}
			if ran && hasDeadline != (got.Execution.Timeout > 0) {
				problems = append(problems, fmt.Sprintf("C07: Config() reports Execution.Timeout=%v but the run function's context has a deadline: %t", got.Execution.Timeout, hasDeadline))
			}
		}
		// every outcome above hands an error to the fallback (failure, rejection or short-circuit)
		wantFb := got.Fallback.MaxConcurrentRequests != 0
		if fbRan != wantFb {
			problems = append(problems, fmt.Sprintf("C04: Config() reports Fallback.MaxConcurrentRequests=%d but a lone fallback was admitted=%t (err=%v)", got.Fallback.MaxConcurrentRequests, fbRan, err))
		}
		if len(problems) > 0 {
			problems = append(problems, "C11: two overlapping SetConfigThreadSafe calls left the circuit configured by a mix of both")
		}
		return problems
	}
	return bodies, monitor
}

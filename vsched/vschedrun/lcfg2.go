package main

import (
	"context"
	"fmt"
	"math/rand"
	"time"

	"github.com/cep21/circuit/v4/closers/hystrix"
	"github.com/cep21/circuit/v4/metrics/responsetimeslo"
	"github.com/cep21/circuit/v4/vsched"
)

// lcfg2 (C11, C03/C16 through the closer, C02 through the opener, C20 through the tracker): TWO overlapping
// SetConfigThreadSafe calls on one built-in closer / opener / SLO tracker.  Once both have returned, the object must be
// configured by ONE of them, consistently: what Config() reports is what is enforced.
type lcfg2Scenario struct{}

func init() { scenarios["lcfg2"] = lcfg2Scenario{} }

func (lcfg2Scenario) Config(r *rand.Rand, small bool) string {
	if r.Intn(5) == 0 {
		// ONE callback delivered to the tracker races ONE reconfiguration of its healthy time (old = 100(a+1), new = 100(b+1))
		return fmt.Sprintf("obj=tracker1 a=%d b=%d ev=%s d=%d", r.Intn(6), r.Intn(6), []string{"success", "interrupt"}[r.Intn(2)], 50+100*r.Intn(7))
	}
	return fmt.Sprintf("obj=%s a=%d b=%d", []string{"closer", "closer", "opener", "tracker"}[r.Intn(4)], r.Intn(3), 3+r.Intn(3))
}

func (lcfg2Scenario) Build(cfg string) ([]func(), func(*vsched.Sched) []string) {
	base := time.Date(2100, 1, 1, 0, 0, 0, 0, time.UTC)
	ctx := context.Background()
	a, b := int64(cfgInt(cfg, "a")), int64(cfgInt(cfg, "b"))
	switch cfgStr(cfg, "obj") {
	case "closer":
		var callbacks []func()
		af := func(d time.Duration, f func()) *time.Timer { callbacks = append(callbacks, f); return nil }
		mk := func(k int64) hystrix.ConfigureCloser {
			return hystrix.ConfigureCloser{SleepWindow: time.Duration(100 * (k + 1)), HalfOpenAttempts: k + 1, RequiredConcurrentSuccessful: k + 1, AfterFunc: af}
		}
		cl := hystrix.CloserFactory(mk(9))().(*hystrix.Closer)
		nameVars(cl, "cl")
		bodies := []func(){func() { cl.SetConfigThreadSafe(mk(a)) }, func() { cl.SetConfigThreadSafe(mk(b)) }}
		monitor := func(s *vsched.Sched) []string {
			var problems []string
			got := cl.Config()
			cl.Opened(ctx, base)
			sleep := got.SleepWindow
			if cl.Allow(ctx, base.Add(sleep-1)) {
				problems = append(problems, fmt.Sprintf("C03: Config() reports SleepWindow=%v but a probe was admitted 1ns before it elapsed", sleep))
			}
			for _, f := range callbacks {
				f()
			}
			n := 0
			for i := 0; i < 12 && cl.Allow(ctx, base.Add(sleep)); i++ {
				n++
				for _, f := range callbacks {
					f()
				}
				if int64(n) >= got.HalfOpenAttempts+3 {
					break
				}
			}
			if int64(n) != got.HalfOpenAttempts {
				problems = append(problems, fmt.Sprintf("C03: Config() reports SleepWindow=%v HalfOpenAttempts=%d but %d probes were admitted at the end of that window", sleep, got.HalfOpenAttempts, n))
			}
			k := int64(0)
			for ; k < 12 && !cl.ShouldClose(ctx, base); k++ {
				cl.Success(ctx, base, 0)
			}
			if k != got.RequiredConcurrentSuccessful {
				problems = append(problems, fmt.Sprintf("C03: Config() reports RequiredConcurrentSuccessful=%d but ShouldClose turned true after %d successes", got.RequiredConcurrentSuccessful, k))
			}
			if len(problems) > 0 {
				problems = append(problems, "C11: two overlapping SetConfigThreadSafe calls on the closer left it configured by a mix of both", "C16: the gate's sleep / budget are not the ones the closer publishes")
			}
			return problems
		}
		return bodies, monitor
	case "opener":
		mk := func(k int64) hystrix.ConfigureOpener {
			return hystrix.ConfigureOpener{ErrorThresholdPercentage: 10 * (k + 1), RequestVolumeThreshold: k + 1, Now: func() time.Time { return base }, RollingDuration: time.Second, NumBuckets: 10}
		}
		op := hystrix.OpenerFactory(mk(9))().(*hystrix.Opener)
		nameVars(op, "op")
		bodies := []func(){func() { op.SetConfigThreadSafe(mk(a)) }, func() { op.SetConfigThreadSafe(mk(b)) }}
		monitor := func(s *vsched.Sched) []string {
			var problems []string
			got := op.Config()
			k := int64(0)
			for ; k < 12 && !op.ShouldOpen(ctx, base); k++ {
				op.ErrFailure(ctx, base, 0)
			}
			if k != got.RequestVolumeThreshold {
				problems = append(problems, fmt.Sprintf("C02: Config() reports RequestVolumeThreshold=%d but the opener tripped after %d failures", got.RequestVolumeThreshold, k), "C11: two overlapping SetConfigThreadSafe calls on the opener left it configured by a mix of both")
			}
			return problems
		}
		return bodies, monitor
	case "tracker1":
		tr := &responsetimeslo.Tracker{}
		nameVars(tr, "tr")
		mk := func(k int64) responsetimeslo.Config { return responsetimeslo.Config{MaximumHealthyTime: time.Duration(100 * (k + 1))} }
		tr.SetConfigThreadSafe(mk(a))
		d := time.Duration(cfgInt(cfg, "d"))
		ev := cfgStr(cfg, "ev")
		bodies := []func(){func() {
			if ev == "success" {
				tr.Success(ctx, base, d)
			} else {
				tr.ErrInterrupt(ctx, base, d)
			}
		}, func() { tr.SetConfigThreadSafe(mk(b)) }}
		monitor := func(s *vsched.Sched) []string {
			pass, fail := tr.MeetsSLOCount.Get(), tr.FailsSLOCount.Get()
			// what the old / the new healthy time makes of this one callback: (pass, fail)
			verdict := func(k int64) [2]int64 {
				h := mk(k).MaximumHealthyTime
				switch {
				case ev == "success" && d <= h:
					return [2]int64{1, 0}
				case d > h:
					return [2]int64{0, 1}
				}
				return [2]int64{0, 0} // an interrupt within the healthy time counts as nothing
			}
			got := [2]int64{pass, fail}
			if got != verdict(a) && got != verdict(b) {
				return []string{fmt.Sprintf("C20: one %s of %v racing a change of MaximumHealthyTime %v->%v was counted as pass=%d fail=%d: neither the old verdict %v nor the new one %v",
					ev, d, mk(a).MaximumHealthyTime, mk(b).MaximumHealthyTime, pass, fail, verdict(a), verdict(b)),
					"C11: a callback racing a live reconfiguration of the SLO tracker observed a mix of the old and the new setting"}
			}
			return nil
		}
		return bodies, monitor
	default:
		tr := &responsetimeslo.Tracker{}
		nameVars(tr, "tr")
		mk := func(k int64) responsetimeslo.Config { return responsetimeslo.Config{MaximumHealthyTime: time.Duration(100 * (k + 1))} }
		tr.SetConfigThreadSafe(mk(9))
		bodies := []func(){func() { tr.SetConfigThreadSafe(mk(a)) }, func() { tr.SetConfigThreadSafe(mk(b)) }}
		monitor := func(s *vsched.Sched) []string {
			got := tr.Config()
			before := tr.MeetsSLOCount.Get()
			tr.Success(ctx, base, got.MaximumHealthyTime)
			okAt := tr.MeetsSLOCount.Get() == before+1
			before = tr.MeetsSLOCount.Get()
			tr.Success(ctx, base, got.MaximumHealthyTime+1)
			okAbove := tr.MeetsSLOCount.Get() == before+1
			if !okAt || okAbove {
				return []string{fmt.Sprintf("C20: Config() reports MaximumHealthyTime=%v but a success of exactly that duration passes=%t and one 1ns longer passes=%t", got.MaximumHealthyTime, okAt, okAbove),
					"C11: two overlapping SetConfigThreadSafe calls on the SLO tracker left it configured by a mix of both"}
			}
			return nil
		}
		return bodies, monitor
	}
}

package main

import (
	"context"
	"errors"
	"fmt"
	"math/rand"
	"strings"
	"time"

	circuit "github.com/cep21/circuit/v4"
	"github.com/cep21/circuit/v4/vsched"
)

// gauge (C04): k callers race on one circuit with run / fallback limits; the run and fallback functions keep an
// independent in-flight count (the monitor) and yield while in flight.
type gaugeScenario struct{}

func init() { scenarios["gauge"] = gaugeScenario{} }

// config: "k=<callers> mc=<run limit> fbmc=<fallback limit> acts=<per caller: s|f|p|F|P>"  s success, f failure (fallback ok),
// p run panics, F failure + failing fallback, P failure + panicking fallback
func (gaugeScenario) Config(r *rand.Rand, small bool) string {
	k := 2 + r.Intn(4)
	if small {
		k = 2
	}
	lims := []int{-1, 0, 1, 2, 3}
	acts := make([]byte, k)
	for i := range acts {
		acts[i] = "sffpFP"[r.Intn(6)]
	}
	pr := 0
	if r.Intn(5) == 0 {
		pr = 1 // a collector that PANICS when it is told about a rejection (run side and fallback side)
	}
	dis := 0
	if r.Intn(10) == 0 {
		dis = 1 // the kill switch: Execute is the run function called directly — no limits, no gauges, no fallback
	}
	return fmt.Sprintf("k=%d mc=%d fbmc=%d acts=%s pr=%d dis=%d", k, lims[r.Intn(5)], lims[r.Intn(5)], acts, pr, dis)
}

type countRec struct {
	runRejects, fbRejects, runEvents, fbEvents int
	panicOnReject                              bool
}

func (c *countRec) Success(context.Context, time.Time, time.Duration)       { c.runEvents++ }
func (c *countRec) ErrFailure(context.Context, time.Time, time.Duration)    { c.runEvents++ }
func (c *countRec) ErrTimeout(context.Context, time.Time, time.Duration)    { c.runEvents++ }
func (c *countRec) ErrBadRequest(context.Context, time.Time, time.Duration) { c.runEvents++ }
func (c *countRec) ErrInterrupt(context.Context, time.Time, time.Duration)  { c.runEvents++ }
func (c *countRec) ErrConcurrencyLimitReject(context.Context, time.Time) {
	c.runEvents++
	c.runRejects++
	if c.panicOnReject {
		panic("collector panic on rejection")
	}
}
func (c *countRec) ErrShortCircuit(context.Context, time.Time)              { c.runEvents++ }

type fbCountRec struct{ c *countRec }

func (f fbCountRec) Success(context.Context, time.Time, time.Duration)    { f.c.fbEvents++ }
func (f fbCountRec) ErrFailure(context.Context, time.Time, time.Duration) { f.c.fbEvents++ }
func (f fbCountRec) ErrConcurrencyLimitReject(context.Context, time.Time) {
	f.c.fbEvents++
	f.c.fbRejects++
	if f.c.panicOnReject {
		panic("collector panic on rejection")
	}
}

func cfgInt(cfg, key string) int {
	for _, f := range strings.Fields(cfg) {
		if strings.HasPrefix(f, key+"=") {
			var v int
			fmt.Sscanf(f[len(key)+1:], "%d", &v)
			return v
		}
	}
	return 0
}
func cfgStr(cfg, key string) string {
	for _, f := range strings.Fields(cfg) {
		if strings.HasPrefix(f, key+"=") {
			return f[len(key)+1:]
		}
	}
	return ""
}

var errBoom = errors.New("boom")

func (gaugeScenario) Build(cfg string) ([]func(), func(*vsched.Sched) []string) {
	k, mc, fbmc, acts := cfgInt(cfg, "k"), cfgInt(cfg, "mc"), cfgInt(cfg, "fbmc"), cfgStr(cfg, "acts")
	rec := &countRec{panicOnReject: cfgInt(cfg, "pr") == 1}
	now := time.Unix(4_000_000_000, 0)
	c := circuit.NewCircuitFromConfig("g", circuit.Config{
		General: circuit.GeneralConfig{TimeKeeper: circuit.TimeKeeper{Now: func() time.Time { return now }}},
		Metrics: circuit.MetricsCollectors{Run: []circuit.RunMetrics{rec}, Fallback: []circuit.FallbackMetrics{fbCountRec{rec}}},
	})
	conf := c.Config()
	conf.Execution.MaxConcurrentRequests = int64(mc)
	conf.Fallback.MaxConcurrentRequests = int64(fbmc)
	conf.Execution.Timeout = 0
	disabled := cfgInt(cfg, "dis") == 1
	conf.General.Disabled = disabled
	c.SetConfigThreadSafe(conf)
	nameVars(c, "c")
	var problems []string
	inRun, inFb := 0, 0
	runInvoked, fbInvoked := 0, 0
	type outcome struct {
		err      error
		panicked bool
		panicVal interface{}
		ran      bool
		fbRan    bool
	}
	outs := make([]outcome, k)
	bodies := make([]func(), k)
	for i := 0; i < k; i++ {
		i := i
		act := acts[i]
		bodies[i] = func() {
			defer func() {
				if r := recover(); r != nil {
					outs[i].panicked = true
					outs[i].panicVal = r
				}
			}()
			outs[i].err = c.Execute(context.Background(), func(context.Context) error {
				outs[i].ran = true
				runInvoked++
				inRun++
				if g := c.ConcurrentCommands(); !disabled && int64(inRun) > g {
					problems = append(problems, fmt.Sprintf("C04: %d run functions in flight but ConcurrentCommands reads %d", inRun, g))
				}
				if !disabled && mc >= 0 && inRun > mc {
					problems = append(problems, fmt.Sprintf("%d run functions in flight with MaxConcurrentRequests=%d", inRun, mc))
				}
				vsched.Yield("in-run")
				inRun--
				switch act {
				case 's':
					return nil
				case 'p':
					panic("run panic")
				}
				return errBoom
			}, func(context.Context, error) error {
				outs[i].fbRan = true
				fbInvoked++
				inFb++
				if g := c.ConcurrentFallbacks(); int64(inFb) > g {
					problems = append(problems, fmt.Sprintf("C04: %d fallbacks in flight but ConcurrentFallbacks reads %d", inFb, g))
				}
				if fbmc >= 0 && inFb > fbmc {
					problems = append(problems, fmt.Sprintf("%d fallbacks in flight with Fallback.MaxConcurrentRequests=%d", inFb, fbmc))
				}
				vsched.Yield("in-fallback")
				inFb--
				switch act {
				case 'F':
					return errBoom
				case 'P':
					panic("fallback panic")
				}
				return nil
			})
		}
	}
	monitor := func(s *vsched.Sched) []string {
		if g := c.ConcurrentCommands(); g != 0 {
			problems = append(problems, fmt.Sprintf("C04: ConcurrentCommands reads %d once all calls have returned (by return or by panic, a collector's panic on a rejection included)", g))
		}
		if g := c.ConcurrentFallbacks(); g != 0 {
			problems = append(problems, fmt.Sprintf("C04: ConcurrentFallbacks reads %d once all calls have returned (by return or by panic, a collector's panic on a rejection included)", g))
		}
		if disabled {
			// C08: the kill switch makes Execute a plain call of the run function — every one ran, no fallback did, nothing
			// was recorded, the error or panic is the run function's own
			for i, o := range outs {
				if !o.ran || o.fbRan {
					problems = append(problems, fmt.Sprintf("C08: Disabled circuit: caller %d ran=%t fallback=%t (must be true / false)", i, o.ran, o.fbRan))
				}
				if acts[i] == 's' && (o.err != nil || o.panicked) || acts[i] == 'p' && !o.panicked || strings.ContainsRune("fFP", rune(acts[i])) && o.err != errBoom {
					problems = append(problems, fmt.Sprintf("C08: Disabled circuit: caller %d (act %c) got err=%v panicked=%t instead of its run function's own outcome", i, acts[i], o.err, o.panicked))
				}
			}
			if rec.runEvents+rec.fbEvents+rec.runRejects+rec.fbRejects != 0 {
				problems = append(problems, "C08: a Disabled circuit recorded events")
			}
		}
		runRejected := 0
		for i, o := range outs {
			var ce circuit.Error
			isConc := o.err != nil && errors.As(o.err, &ce) && ce.ConcurrencyLimitReached()
			if !o.ran {
				// refused before running: must report the concurrency limit (possibly the fallback's) or be the fallback's result
				runRejected++
				if !o.panicked && !o.fbRan && !isConc {
					problems = append(problems, fmt.Sprintf("caller %d: refused call did not return a ConcurrencyLimitReached error", i))
				}
			}
		}
		if rec.runRejects != runRejected {
			problems = append(problems, fmt.Sprintf("%d calls refused without running but %d rejection events", runRejected, rec.runRejects))
		}
		// C10 under schedules: a panic in one call reaches ITS caller with its value, and the gauges are restored
		// whatever the other callers were doing meanwhile
		if strings.ContainsAny(acts, "pP") {
			if c.ConcurrentCommands() != 0 || c.ConcurrentFallbacks() != 0 {
				problems = append(problems, fmt.Sprintf("C10: gauges read %d/%d after panicking calls returned among concurrent callers", c.ConcurrentCommands(), c.ConcurrentFallbacks()))
			}
			for i, o := range outs {
				want := map[byte]string{'p': "run panic", 'P': "fallback panic"}[acts[i]]
				reached := (acts[i] == 'p' && o.ran) || (acts[i] == 'P' && o.fbRan)
				if reached && (!o.panicked || (o.panicVal != want && o.panicVal != "collector panic on rejection")) {
					problems = append(problems, fmt.Sprintf("C10: caller %d's function panicked with %q but the caller saw panicked=%t value=%v", i, want, o.panicked, o.panicVal))
				}
				if !reached && o.panicked && o.panicVal != "collector panic on rejection" {
					problems = append(problems, fmt.Sprintf("C10: caller %d saw a panic (%v) although its own functions raised none", i, o.panicVal))
				}
			}
		}
		if mc < 0 && runRejected > 0 {
			problems = append(problems, "negative limit rejected a call")
		}
		return problems
	}
	return bodies, monitor
}

package main

import (
	"context"
	"fmt"
	"math/rand"
	"strings"
	"time"

	circuit "github.com/cep21/circuit/v4"
	"github.com/cep21/circuit/v4/closers/hystrix"
	"github.com/cep21/circuit/v4/vsched"
)

// shed (C01, C03): callers race each other, OpenCircuit and the opening transition their own failures trigger, on a
// circuit with the REAL hystrix closer whose sleep window never elapses (frozen clock, timer never fires) and which
// needs more successes to close than there are callers — so once open the circuit stays open and admits nobody.
//   C01: a call that starts after an opening completed (OpenCircuit / the failing call returned, or initially open)
//        never invokes its run function and returns the circuit-open error; every shed call records exactly one
//        short-circuit event and nothing else.
//   C03: a call whose own reading of the circuit said "open" never runs inside the sleep window.
type shedScenario struct{}

func init() { scenarios["shed"] = shedScenario{} }

func (shedScenario) Config(r *rand.Rand, small bool) string {
	k := 2 + r.Intn(3)
	if small {
		k = 2
	}
	ops := make([]byte, k)
	for i := range ops {
		ops[i] = "OFSSS"[r.Intn(5)] // OpenCircuit, Failing call (the opener says open), Succeeding call
	}
	if !strings.ContainsAny(string(ops), "OF") {
		ops[0] = "OF"[r.Intn(2)]
	}
	if !strings.Contains(string(ops), "S") {
		ops[k-1] = 'S'
	}
	return fmt.Sprintf("init=%d ops=%s", r.Intn(4)/3, ops)
}

type shedRec struct{ run, short int }

func (k *shedRec) Success(context.Context, time.Time, time.Duration)       { k.run++ }
func (k *shedRec) ErrFailure(context.Context, time.Time, time.Duration)    { k.run++ }
func (k *shedRec) ErrTimeout(context.Context, time.Time, time.Duration)    { k.run++ }
func (k *shedRec) ErrBadRequest(context.Context, time.Time, time.Duration) { k.run++ }
func (k *shedRec) ErrInterrupt(context.Context, time.Time, time.Duration)  { k.run++ }
func (k *shedRec) ErrConcurrencyLimitReject(context.Context, time.Time)    { k.run++ }
func (k *shedRec) ErrShortCircuit(context.Context, time.Time)              { k.short++ }

func (shedScenario) Build(cfg string) ([]func(), func(*vsched.Sched) []string) {
	now := time.Date(2100, 1, 1, 0, 0, 0, 0, time.UTC)
	rec := &shedRec{}
	ops := cfgStr(cfg, "ops")
	c := circuit.NewCircuitFromConfig("s", circuit.Config{
		General: circuit.GeneralConfig{
			TimeKeeper:          circuit.TimeKeeper{Now: func() time.Time { return now }},
			ClosedToOpenFactory: func() circuit.ClosedToOpen { return yesOpener{} },
			OpenToClosedFactory: hystrix.CloserFactory(hystrix.ConfigureCloser{
				SleepWindow: time.Hour, HalfOpenAttempts: 1, RequiredConcurrentSuccessful: 100,
				AfterFunc: func(time.Duration, func()) *time.Timer { return nil }, // the window never elapses
			}),
		},
		Execution: circuit.ExecutionConfig{MaxConcurrentRequests: -1},
		Metrics:   circuit.MetricsCollectors{Run: []circuit.RunMetrics{rec}, Circuit: []circuit.Metrics{&notifRec{}}},
	})
	initOpen := cfgInt(cfg, "init") == 1
	if initOpen {
		c.OpenCircuit(context.Background())
	}
	nameVars(c, "c")
	type res struct {
		invoked bool
		err     error
	}
	results := make([]res, len(ops))
	var bodies []func()
	for i, op := range ops {
		i := i
		switch op {
		case 'O':
			bodies = append(bodies, func() { c.OpenCircuit(context.Background()) })
		case 'F', 'S':
			fail := op == 'F'
			bodies = append(bodies, func() {
				results[i].err = c.Run(context.Background(), func(context.Context) error {
					vsched.Yield("run-invoked")
					results[i].invoked = true
					if fail {
						return errBoom
					}
					return nil
				})
			})
		}
	}
	monitor := func(s *vsched.Sched) []string {
		var problems []string
		first := map[int]int{}
		last := map[int]int{}
		sawOpen := map[int]bool{} // the thread's most recent load of the flag returned true
		for idx, line := range s.Trace {
			var tid int
			if _, err := fmt.Sscan(line, &tid); err != nil {
				continue
			}
			if _, ok := first[tid]; !ok {
				first[tid] = idx
			}
			last[tid] = idx
			if strings.Contains(line, "load c.isOpen -> ") {
				sawOpen[tid] = strings.HasSuffix(line, "true")
			}
			if strings.HasSuffix(line, "run-invoked") && sawOpen[tid] {
				problems = append(problems, fmt.Sprintf("C03: thread %d read the circuit as open and its run function was invoked inside the sleep window", tid))
			}
		}
		openedAt := len(s.Trace) + 1
		if initOpen {
			openedAt = -1
		}
		for i, op := range ops {
			if op == 'O' || (op == 'F' && results[i].invoked) {
				if l, ok := last[i]; ok && l < openedAt {
					openedAt = l
				}
			}
		}
		shed := 0
		for i, op := range ops {
			if op != 'F' && op != 'S' {
				continue
			}
			var co interface{ CircuitOpen() bool }
			isShed := false
			if e, ok := results[i].err.(interface{ CircuitOpen() bool }); ok && e.CircuitOpen() {
				co, isShed = e, true
				shed++
			}
			_ = co
			if isShed && results[i].invoked {
				problems = append(problems, fmt.Sprintf("C01: thread %d was refused as circuit-open but its run function was invoked", i))
			}
			if f, ok := first[i]; ok && f > openedAt {
				if results[i].invoked {
					problems = append(problems, fmt.Sprintf("C01: thread %d started (step %d) after the circuit had opened (step %d) and nothing could close it, yet its run function was invoked", i, f, openedAt))
				} else if !isShed {
					problems = append(problems, fmt.Sprintf("C01: thread %d started after the circuit had opened but did not receive the circuit-open error: %v", i, results[i].err))
				}
			}
			s.Trace = append(s.Trace, fmt.Sprintf("R %d %s", i, map[bool]string{true: "ran", false: "shed"}[results[i].invoked]))
		}
		if rec.short != shed {
			problems = append(problems, fmt.Sprintf("C01: %d calls were shed but %d short-circuit events were recorded", shed, rec.short))
		}
		if !c.IsOpen() && (initOpen || openedAt <= len(s.Trace)) {
			problems = append(problems, "C01: the circuit was opened and nothing could close it, yet it reads closed at quiescence")
		}
		return problems
	}
	return bodies, monitor
}

package main

import (
	"context"
	"errors"
	"fmt"
	"math/rand"
	"strings"
	"time"

	circuit "github.com/cep21/circuit/v4"
	"github.com/cep21/circuit/v4/vsched"
)

// cfg (C11 obligation 3): ONE call races ONE SetConfigThreadSafe that changes exactly one setting.  The call's
// observable outcome must be the outcome it has under the old configuration or under the new one (both computed by
// running the same call alone).
type cfgScenario struct{}

func init() { scenarios["cfg"] = cfgScenario{} }

var cfgChanges = []string{
	"mc:5:-1", "mc:-1:0", "mc:0:1", "mc:1:0", "mc:0:-1",
	"to:1000000000:0", "to:0:1000000000", "to:1000000000:-5", "to:1000000000:2000000000",
	"fbmc:5:-1", "fbmc:-1:0", "fbmc:0:1", "fbmc:0:-1",
	"fo:0:1", "fo:1:0", "fc:0:1", "fc:1:0", "dis:0:1", "dis:1:0", "fbd:0:1", "fbd:1:0", "ii:0:1", "ii:1:0",
	// the interrupt classifier: 0 = unset (nil), 1 = "always an interrupt", 2 = "never an interrupt"
	"iei:1:0", "iei:0:2", "iei:2:0", "iei:2:1", "iei:1:2",
}

func (cfgScenario) Config(r *rand.Rand, small bool) string {
	ch := cfgChanges[r.Intn(len(cfgChanges))]
	if strings.HasPrefix(ch, "iei:") || strings.HasPrefix(ch, "ii:") {
		// the classifier is consulted only for an error returned while the caller's context is done
		return fmt.Sprintf("change=%s act=%c open=0 ctx=c", ch, "fc"[r.Intn(2)])
	}
	return fmt.Sprintf("change=%s act=%c open=%d ctx=%c", ch, "sfc"[r.Intn(3)], r.Intn(2)*r.Intn(2), "bc"[r.Intn(2)])
}

type kindRec struct{ log []string }

func (k *kindRec) add(s string)                                                 { k.log = append(k.log, s) }
func (k *kindRec) Success(context.Context, time.Time, time.Duration)            { k.add("success") }
func (k *kindRec) ErrFailure(context.Context, time.Time, time.Duration)         { k.add("failure") }
func (k *kindRec) ErrTimeout(context.Context, time.Time, time.Duration)         { k.add("timeout") }
func (k *kindRec) ErrBadRequest(context.Context, time.Time, time.Duration)      { k.add("badrequest") }
func (k *kindRec) ErrInterrupt(context.Context, time.Time, time.Duration)       { k.add("interrupt") }
func (k *kindRec) ErrConcurrencyLimitReject(context.Context, time.Time)         { k.add("reject") }
func (k *kindRec) ErrShortCircuit(context.Context, time.Time)                   { k.add("shortcircuit") }

type fbKindRec struct{ k *kindRec }

func (f fbKindRec) Success(context.Context, time.Time, time.Duration)    { f.k.add("fb-success") }
func (f fbKindRec) ErrFailure(context.Context, time.Time, time.Duration) { f.k.add("fb-failure") }
func (f fbKindRec) ErrConcurrencyLimitReject(context.Context, time.Time) { f.k.add("fb-reject") }

func applyChange(conf *circuit.Config, name string, v int64) {
	switch name {
	case "mc":
		conf.Execution.MaxConcurrentRequests = v
	case "to":
		conf.Execution.Timeout = time.Duration(v)
	case "fbmc":
		conf.Fallback.MaxConcurrentRequests = v
	case "fo":
		conf.General.ForceOpen = v == 1
	case "fc":
		conf.General.ForcedClosed = v == 1
	case "dis":
		conf.General.Disabled = v == 1
	case "fbd":
		conf.Fallback.Disabled = v == 1
	case "ii":
		conf.Execution.IgnoreInterrupts = v == 1
	case "iei":
		switch v {
		case 0:
			conf.Execution.IsErrInterrupt = nil
		case 1:
			conf.Execution.IsErrInterrupt = func(error) bool { return true }
		default:
			conf.Execution.IsErrInterrupt = func(error) bool { return false }
		}
	}
}

type cfgCase struct {
	c    *circuit.Circuit
	rec  *kindRec
	conf circuit.Config
}

var cfgNow = time.Date(2100, 1, 1, 0, 0, 0, 0, time.UTC)

func newCfgCase(name string, v int64, open bool) *cfgCase {
	rec := &kindRec{}
	c := circuit.NewCircuitFromConfig("c", circuit.Config{
		General: circuit.GeneralConfig{TimeKeeper: circuit.TimeKeeper{Now: func() time.Time { return cfgNow }}},
		Metrics: circuit.MetricsCollectors{Run: []circuit.RunMetrics{rec}, Fallback: []circuit.FallbackMetrics{fbKindRec{rec}}},
	})
	conf := c.Config()
	conf.Execution.Timeout = 0
	applyChange(&conf, name, v)
	c.SetConfigThreadSafe(conf)
	if open {
		c.OpenCircuit(context.Background())
	}
	return &cfgCase{c: c, rec: rec, conf: conf}
}

func (cc *cfgCase) call(act byte, ctxKind byte) string {
	ctx, cancel := context.WithCancel(context.Background())
	defer cancel()
	if ctxKind == 'c' {
		cancel()
	}
	ran, dl := false, "none"
	err := cc.c.Execute(ctx, func(ctx context.Context) error {
		ran = true
		if d, ok := ctx.Deadline(); ok {
			dl = fmt.Sprint(int64(d.Sub(cfgNow)))
		}
		switch act {
		case 's':
			return nil
		case 'c':
			return ctx.Err()
		}
		return errBoom
	}, func(context.Context, error) error { return nil })
	cls := "nil"
	var ce circuit.Error
	switch {
	case err == nil:
	case errors.As(err, &ce) && ce.CircuitOpen():
		cls = "open"
	case errors.As(err, &ce) && ce.ConcurrencyLimitReached():
		cls = "conc"
	case err == errBoom:
		cls = "boom"
	default:
		cls = "other:" + err.Error()
	}
	return fmt.Sprintf("err=%s ran=%t deadline=%s events=%s", cls, ran, dl, strings.Join(cc.rec.log, ","))
}

func (cfgScenario) Build(cfg string) ([]func(), func(*vsched.Sched) []string) {
	parts := strings.Split(cfgStr(cfg, "change"), ":")
	name := parts[0]
	var oldV, newV int64
	fmt.Sscanf(parts[1], "%d", &oldV)
	fmt.Sscanf(parts[2], "%d", &newV)
	act := cfgStr(cfg, "act")[0]
	ctxKind := cfgStr(cfg, "ctx")[0]
	open := cfgInt(cfg, "open") == 1
	underOld := newCfgCase(name, oldV, open).call(act, ctxKind)
	// "under the new configuration": same set-up under the old one, the change applied BEFORE the call starts
	nc := newCfgCase(name, oldV, open)
	ncConf := nc.conf
	applyChange(&ncConf, name, newV)
	nc.c.SetConfigThreadSafe(ncConf)
	underNew := nc.call(act, ctxKind)
	cc := newCfgCase(name, oldV, open)
	newConf := cc.conf
	applyChange(&newConf, name, newV)
	var got string
	bodies := []func(){
		func() { got = cc.call(act, ctxKind) },
		func() { cc.c.SetConfigThreadSafe(newConf) },
	}
	monitor := func(s *vsched.Sched) []string {
		if got != underOld && got != underNew {
			problems := []string{fmt.Sprintf("C11: call racing %s %d->%d observed {%s}; under old config {%s}; under new config {%s}", name, oldV, newV, got, underOld, underNew)}
			field := func(s, k string) string {
				for _, f := range strings.Fields(s) {
					if strings.HasPrefix(f, k+"=") {
						return f
					}
				}
				return ""
			}
			if name == "to" && field(got, "ran") == "ran=true" && field(got, "deadline") != field(underOld, "deadline") && field(got, "deadline") != field(underNew, "deadline") {
				problems = append(problems, fmt.Sprintf("C07: the run function of a call racing a Timeout change %d->%d saw %s: neither start+old nor start+new (old: %s, new: %s)", oldV, newV, field(got, "deadline"), field(underOld, "deadline"), field(underNew, "deadline")))
			}
			if field(got, "events") != field(underOld, "events") && field(got, "events") != field(underNew, "events") {
				problems = append(problems, fmt.Sprintf("C05: a call racing %s %d->%d was reported as {%s}: neither what the old configuration yields {%s} nor the new one {%s}", name, oldV, newV, field(got, "events"), field(underOld, "events"), field(underNew, "events")))
			}
			return problems
		}
		return nil
	}
	return bodies, monitor
}

package main

import (
	"context"
	"fmt"
	"math/rand"
	"strings"
	"time"

	circuit "github.com/cep21/circuit/v4"
	"github.com/cep21/circuit/v4/vsched"
)

// trans (C09): 2-4 threads among OpenCircuit, CloseCircuit, a failing call (the opener says ShouldOpen) and a succeeding
// probe (the closer admits and says ShouldClose) race on the same transition.  At quiescence the notifications must
// strictly alternate (starting with Opened from a closed circuit) and IsOpen must agree with the last one.
type transScenario struct{}

func init() { scenarios["trans"] = transScenario{} }

func (transScenario) Config(r *rand.Rand, small bool) string {
	k := 2 + r.Intn(3)
	if small {
		k = 2
	}
	ops := make([]byte, k)
	for i := range ops {
		ops[i] = "OCFS"[r.Intn(4)] // OpenCircuit, CloseCircuit, Failing call, Succeeding call
	}
	fo0, fc0 := 0, 0
	if !small && r.Intn(3) == 0 {
		// an operator override switched while calls are in flight: ForceOpen on ('X'), ForcedClosed on ('Y'), or — with the
		// kill switch ON when the race starts — both overrides off ('Z').  An override makes IsOpen() answer without any
		// transition, so no notification may result from the switch itself, and a transition racing it must behave as
		// under the old or under the new setting: in particular it never announces Opened for an open circuit or Closed
		// for a closed one (such configurations have no K2 model: flags are static there)
		switch r.Intn(5) {
		case 0:
			ops[r.Intn(k)] = 'X'
		case 1:
			ops[r.Intn(k)] = 'Y'
		case 2:
			ops[r.Intn(k)] = 'W'
		case 3:
			ops[r.Intn(k)] = 'V'
			fc0, fo0 = 1, r.Intn(2)
		default:
			ops[r.Intn(k)] = 'Z'
			fo0, fc0 = 1, r.Intn(2)
		}
	}
	return fmt.Sprintf("init=%d fo0=%d fc0=%d ops=%s", r.Intn(2), fo0, fc0, ops)
}

type yesOpener struct{ log *[]string }

func (y yesOpener) Success(context.Context, time.Time, time.Duration)       {}
func (y yesOpener) ErrFailure(context.Context, time.Time, time.Duration)    {}
func (y yesOpener) ErrTimeout(context.Context, time.Time, time.Duration)    {}
func (y yesOpener) ErrBadRequest(context.Context, time.Time, time.Duration) {}
func (y yesOpener) ErrInterrupt(context.Context, time.Time, time.Duration)  {}
func (y yesOpener) ErrConcurrencyLimitReject(context.Context, time.Time)    {}
func (y yesOpener) ErrShortCircuit(context.Context, time.Time)              {}
func (y yesOpener) Opened(context.Context, time.Time)                       {}
func (y yesOpener) Closed(context.Context, time.Time)                       {}
func (y yesOpener) ShouldOpen(context.Context, time.Time) bool              { return true }
func (y yesOpener) Prevent(context.Context, time.Time) bool                 { return false }

type yesCloser struct{ yesOpener }

func (y yesCloser) ShouldClose(context.Context, time.Time) bool { return true }
func (y yesCloser) Allow(context.Context, time.Time) bool       { return true }

type notifRec struct{ log []string }

// a collector is arbitrary user code: being called is a scheduling point, so the delivery of a notification can be
// delayed relative to other threads' transitions
func (n *notifRec) Opened(context.Context, time.Time) { vsched.Yield("deliver-opened"); n.log = append(n.log, "O") }
func (n *notifRec) Closed(context.Context, time.Time) { vsched.Yield("deliver-closed"); n.log = append(n.log, "C") }

func (transScenario) Build(cfg string) ([]func(), func(*vsched.Sched) []string) {
	rec := &notifRec{}
	now := time.Date(2100, 1, 1, 0, 0, 0, 0, time.UTC)
	c := circuit.NewCircuitFromConfig("t", circuit.Config{
		General: circuit.GeneralConfig{
			TimeKeeper:          circuit.TimeKeeper{Now: func() time.Time { return now }},
			ClosedToOpenFactory: func() circuit.ClosedToOpen { return yesOpener{} },
			OpenToClosedFactory: func() circuit.OpenToClosed { return yesCloser{} },
		},
		Execution: circuit.ExecutionConfig{MaxConcurrentRequests: -1},
		Metrics:   circuit.MetricsCollectors{Circuit: []circuit.Metrics{rec}},
	})
	initOpen := cfgInt(cfg, "init") == 1
	if initOpen {
		c.OpenCircuit(context.Background())
		rec.log = nil
	}
	if cfgInt(cfg, "fo0") == 1 || cfgInt(cfg, "fc0") == 1 { // overrides in force when the race starts (somebody may switch them off: 'Z', 'V')
		conf := c.Config()
		conf.General.ForceOpen, conf.General.ForcedClosed = cfgInt(cfg, "fo0") == 1, cfgInt(cfg, "fc0") == 1
		c.SetConfigThreadSafe(conf)
	}
	nameVars(c, "c")
	var bodies []func()
	for _, op := range cfgStr(cfg, "ops") {
		switch op {
		case 'O':
			bodies = append(bodies, func() { c.OpenCircuit(context.Background()) })
		case 'C':
			bodies = append(bodies, func() { c.CloseCircuit(context.Background()) })
		case 'F':
			bodies = append(bodies, func() { _ = c.Run(context.Background(), func(context.Context) error { return errBoom }) })
		case 'S':
			bodies = append(bodies, func() { _ = c.Run(context.Background(), func(context.Context) error { return nil }) })
		case 'X':
			bodies = append(bodies, func() {
				conf := c.Config()
				conf.General.ForceOpen = true
				c.SetConfigThreadSafe(conf)
			})
		case 'Z':
			bodies = append(bodies, func() {
				conf := c.Config()
				conf.General.ForceOpen, conf.General.ForcedClosed = false, false
				c.SetConfigThreadSafe(conf)
			})
		case 'V': // ForcedClosed off, ForceOpen as it is
			bodies = append(bodies, func() {
				conf := c.Config()
				conf.General.ForcedClosed = false
				c.SetConfigThreadSafe(conf)
			})
		case 'W': // both overrides on (ForceOpen wins)
			bodies = append(bodies, func() {
				conf := c.Config()
				conf.General.ForceOpen, conf.General.ForcedClosed = true, true
				c.SetConfigThreadSafe(conf)
			})
		case 'Y':
			bodies = append(bodies, func() {
				conf := c.Config()
				conf.General.ForcedClosed = true
				c.SetConfigThreadSafe(conf)
			})
		}
	}
	monitor := func(s *vsched.Sched) []string {
		var problems []string
		prev := "C"
		if initOpen {
			prev = "O"
		}
		for i, n := range rec.log {
			if n == prev {
				problems = append(problems, fmt.Sprintf("notifications do not alternate: %s (index %d repeats) from initial %v", strings.Join(rec.log, ""), i, initOpen))
				if strings.ContainsAny(cfgStr(cfg, "ops"), "XYZVW") {
					problems = append(problems, "C11: a transition racing a live change of an override announced what neither the old nor the new setting allows (it saw both values of one flag)")
				}
				break
			}
			prev = n
		}
		// C08: once an operator's SetConfigThreadSafe has RETURNED, the override is in force for every transition that
		// STARTS afterwards: it announces no Opened under ForcedClosed, no Closed under ForceOpen (nobody clearing the
		// override in this run).  (A first version also bound transitions that were already under way — more than the
		// property says: it alarmed on the unchanged tree and was corrected.)
		opsStr := cfgStr(cfg, "ops")
		if !strings.ContainsAny(opsStr, "ZV") {
			for ti, op := range opsStr {
				if op != 'X' && op != 'Y' && op != 'W' {
					continue
				}
				returned := -1
				for idx, line := range s.Trace {
					var tid int
					if _, err := fmt.Sscan(line, &tid); err == nil && tid == ti {
						returned = idx
					}
				}
				if returned < 0 {
					continue
				}
				firstStep := map[int]int{}
				for idx, line := range s.Trace {
					var tid int
					if _, err := fmt.Sscan(line, &tid); err == nil {
						if _, seen := firstStep[tid]; !seen {
							firstStep[tid] = idx
						}
					}
				}
				for idx := returned + 1; idx < len(s.Trace); idx++ {
					// only a transition that STARTED after the operator's call had returned is bound by it (C08's last sentence)
					var tid int
					if _, err := fmt.Sscan(s.Trace[idx], &tid); err != nil || firstStep[tid] <= returned {
						continue
					}
					if (op == 'Y') && strings.HasSuffix(s.Trace[idx], "deliver-opened") {
						problems = append(problems, "C08: Opened was announced after SetConfigThreadSafe(ForcedClosed=true) had returned: ForcedClosed did not keep the circuit from opening")
					}
					if (op == 'X' || op == 'W') && strings.HasSuffix(s.Trace[idx], "deliver-closed") {
						problems = append(problems, "C08: Closed was announced after SetConfigThreadSafe(ForceOpen=true) had returned")
					}
				}
			}
		}
		last := initOpen
		if len(rec.log) > 0 {
			last = rec.log[len(rec.log)-1] == "O"
		}
		if strings.ContainsAny(cfgStr(cfg, "ops"), "XYZVW") || cfgInt(cfg, "fo0") == 1 || cfgInt(cfg, "fc0") == 1 { // judge the underlying state: clear the override first
			conf := c.Config()
			conf.General.ForceOpen, conf.General.ForcedClosed = false, false
			c.SetConfigThreadSafe(conf)
		}
		if c.IsOpen() != last {
			problems = append(problems, fmt.Sprintf("quiescent IsOpen()=%t but notifications %q from initial open=%t", c.IsOpen(), strings.Join(rec.log, ""), initOpen))
		}
		return problems
	}
	return bodies, monitor
}

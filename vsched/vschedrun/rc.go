package main

import (
	"encoding/json"
	"fmt"
	"math/rand"
	"strings"
	"time"

	"github.com/cep21/circuit/v4/faststats"
	"github.com/cep21/circuit/v4/vsched"
)

// rc (C14): 2-4 threads, one operation each (or two), on one RollingCounter; timestamps in the same bucket, in adjacent
// buckets (racing roll-over) or a whole window apart.  Quiescent-state monitor.
type rcScenario struct{}

func init() { scenarios["rc"] = rcScenario{} }

// config: "n=<buckets> ops=<op>@<bucket>[+<op>@<bucket>]/..." one slash-separated program per thread; op in i(nc) s(um) b(uckets) r(eset)
func (rcScenario) Config(r *rand.Rand, small bool) string {
	n := 1 + r.Intn(4)
	k := 2 + r.Intn(3)
	if small {
		k = 2
		n = 1 + r.Intn(2)
	}
	mode := r.Intn(4)
	progs := make([]string, k)
	for i := range progs {
		m := 1
		if !small && r.Intn(3) == 0 {
			m = 2
		}
		var ops []string
		for j := 0; j < m; j++ {
			var b int
			switch mode {
			case 0:
				b = 0 // nobody rolls
			case 1:
				b = r.Intn(2) // same / adjacent
			case 2:
				b = r.Intn(3) * n // a window apart
			default:
				b = r.Intn(2*n + 2)
			}
			op := "iiiisbr"[r.Intn(7)]
			if mode == 0 && op == 'r' {
				op = 'i'
			}
			ops = append(ops, fmt.Sprintf("%c@%d", op, b))
		}
		progs[i] = strings.Join(ops, "+")
	}
	pre := 0
	if !small && r.Intn(4) == 0 {
		pre = 1 + r.Intn(3) // the counter the threads use was restored from JSON: total and rolling sum differed at snapshot time
	}
	return fmt.Sprintf("n=%d ops=%s pre=%d", n, strings.Join(progs, "/"), pre)
}

func (rcScenario) Build(cfg string) ([]func(), func(*vsched.Sched) []string) {
	n := cfgInt(cfg, "n")
	start := time.Unix(4_000_000_000, 0)
	width := time.Second
	ctr := faststats.NewRollingCounter(width, n, start)
	pre := cfgInt(cfg, "pre")
	if pre > 0 {
		// `pre` events stamped before the start count in TotalSum only; then the counter goes through its own JSON
		orig := faststats.NewRollingCounter(width, n, start)
		for i := 0; i < pre; i++ {
			orig.Inc(start.Add(-time.Hour))
		}
		if b, err := json.Marshal(&orig); err != nil || json.Unmarshal(b, &ctr) != nil {
			panic("rc scenario: JSON round trip failed")
		}
	}
	nameVars(&ctr, "rc")
	var rb *faststats.RollingBuckets
	_ = rb
	progs := strings.Split(cfgStr(cfg, "ops"), "/")
	incs, maxB, resets, incBuckets, validReqs := 0, 0, 0, []int{}, 0
	var bodies []func()
	for _, p := range progs {
		type step struct {
			op byte
			b  int
		}
		var steps []step
		for _, o := range strings.Split(p, "+") {
			var op byte
			var b int
			fmt.Sscanf(o, "%c@%d", &op, &b)
			steps = append(steps, step{op, b})
			validReqs++
			if b > maxB {
				maxB = b
			}
			if op == 'i' {
				incs++
				incBuckets = append(incBuckets, b)
			}
			if op == 'r' {
				resets++
			}
		}
		bodies = append(bodies, func() {
			for _, st := range steps {
				t := start.Add(time.Duration(st.b)*width + width/2)
				switch st.op {
				case 'i':
					ctr.Inc(t)
				case 's':
					ctr.RollingSumAt(t)
				case 'b':
					ctr.GetBuckets(t)
				case 'r':
					ctr.Reset(t)
				}
			}
		})
	}
	monitor := func(s *vsched.Sched) []string {
		var problems []string
		if got := ctr.TotalSum(); got != int64(incs+pre) {
			problems = append(problems, fmt.Sprintf("TotalSum=%d after %d Inc calls on a counter restored with total %d", got, incs, pre))
		}
		// newest index of the ring, read through the JSON encoding (which does not move the window)
		if b, err := json.Marshal(&ctr); err == nil {
			var m struct{ RollingBucket struct{ LastAbsIndex int64 } }
			if json.Unmarshal(b, &m) == nil && validReqs > 0 && m.RollingBucket.LastAbsIndex != int64(maxB) {
				problems = append(problems, fmt.Sprintf("newest index %d after all operations returned, largest index requested %d", m.RollingBucket.LastAbsIndex, maxB))
			}
		}
		// read the quiescent state WITHOUT moving the window: newest index is maxB, present exactly that time
		tq := start.Add(time.Duration(maxB)*width + width/2)
		sum := ctr.RollingSumAt(tq)
		bk := ctr.GetBuckets(tq)
		var bsum int64
		for _, v := range bk {
			bsum += v
			if v < 0 {
				problems = append(problems, fmt.Sprintf("negative bucket %v", bk))
			}
		}
		if sum != bsum {
			problems = append(problems, fmt.Sprintf("rolling sum %d != sum of buckets %d (%v)", sum, bsum, bk))
		}
		if sum < 0 || sum > int64(incs) {
			problems = append(problems, fmt.Sprintf("rolling sum %d outside [0,%d]", sum, incs))
		}
		if maxB == 0 && resets == 0 && sum != int64(incs) {
			problems = append(problems, fmt.Sprintf("no roll and no reset: rolling sum %d but %d in-window Inc calls", sum, incs))
		}
		return problems
	}
	return bodies, monitor
}

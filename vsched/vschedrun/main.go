// vschedrun — runs scenarios of the REAL library code under the cooperative scheduler (H2).  It lives inside a
// scratch copy of the repository in which sync/atomic and sync have been substituted by vatomic / vsync.
//
//	vschedrun -scenario gauge -seed 7 -runs 3000            random schedules
//	vschedrun -scenario gauge -replay "cfg;0,1,1,0,..."     one recorded run
//	vschedrun -scenario gauge -exhaustive -limit 20000      DFS over all schedules of the smallest configurations
//
// One JSON line per failing run (plus a summary line): configuration, schedule, trace, monitor verdicts.
package main

import (
	"encoding/json"
	"flag"
	"fmt"
	"math/rand"
	"os"
	"strconv"
	"strings"

	"github.com/cep21/circuit/v4/vsched"
)

// Scenario builds, from a configuration string, the thread bodies and a monitor evaluated at quiescence.
type Scenario interface {
	// Configs draws a configuration string from the PRNG (small ones first when exhaustive).
	Config(r *rand.Rand, small bool) string
	// Build returns thread bodies and the end-of-run monitor for a configuration.
	Build(cfg string) (bodies []func(), monitor func(s *vsched.Sched) []string)
}

var scenarios = map[string]Scenario{}

type runResult struct {
	Scenario string   `json:"scenario"`
	Config   string   `json:"config"`
	Choices  []int    `json:"choices"`
	Trace    []string `json:"trace,omitempty"`
	Problems []string `json:"problems"`
}

func runOnce(name string, sc Scenario, cfg string, seed int64, replay []int, pick func(int, []int) int, keepTrace bool) runResult {
	vsched.ResetNames()
	bodies, monitor := sc.Build(cfg)
	s := vsched.Run(seed, replay, pick, bodies...)
	var problems []string
	if s.Deadlock {
		problems = append(problems, "deadlock: no runnable thread")
	}
	if s.Panic != nil {
		problems = append(problems, fmt.Sprintf("panic: %v", s.Panic))
	}
	problems = append(problems, monitor(s)...)
	res := runResult{Scenario: name, Config: cfg, Choices: s.Choices, Problems: problems}
	if keepTrace || len(problems) > 0 {
		res.Trace = s.Trace
	}
	return res
}

func parseChoices(s string) []int {
	var out []int
	for _, p := range strings.Split(s, ",") {
		if p == "" {
			continue
		}
		v, _ := strconv.Atoi(p)
		out = append(out, v)
	}
	return out
}

func main() {
	name := flag.String("scenario", "", "")
	seed := flag.Int64("seed", 1, "")
	runs := flag.Int("runs", 1000, "")
	replay := flag.String("replay", "", "cfg;c0,c1,...")
	exhaustive := flag.Bool("exhaustive", false, "")
	limit := flag.Int("limit", 20000, "max schedules in exhaustive mode")
	sample := flag.Int("sample", 2, "number of passing runs to print with their trace")
	traces := flag.Int("traces", 0, "number of passing runs whose full trace is exported for model conformance (K2)")
	pb1 := flag.Int("pb1", 0, "single-preemption exploration: for this many configurations, every schedule `first runs k steps, then second runs as long as it can, then the rest` for all ordered pairs of threads and all k")
	fixed := flag.String("config", "", "explore this configuration only (with -runs or -pb1)")
	only := flag.String("only", "", "a scenario shared by several properties prefixes its problems \"Cnn:\"; keep this property's (and unprefixed ones)")
	flag.Parse()
	sc, ok := scenarios[*name]
	if !ok {
		fmt.Fprintln(os.Stderr, "unknown scenario", *name)
		os.Exit(2)
	}
	enc := json.NewEncoder(os.Stdout)
	if *replay != "" {
		i := strings.LastIndex(*replay, ";")
		res := runOnce(*name, sc, (*replay)[:i], 0, parseChoices((*replay)[i+1:]), nil, true)
		enc.Encode(res)
		return
	}
	r := rand.New(rand.NewSource(*seed))
	total, failing, steps := 0, 0, 0
	distinct := map[string]bool{}
	cfgs := map[string]int{}
	record := func(res runResult) {
		if *only != "" {
			var kept []string
			for _, p := range res.Problems {
				prefixed := len(p) > 3 && p[0] == 'C' && p[3] == ':'
				if !prefixed || strings.HasPrefix(p, *only) {
					kept = append(kept, p)
				}
			}
			res.Problems = kept
		}
		total++
		steps += len(res.Choices)
		key := res.Config + ";" + fmt.Sprint(res.Choices)
		distinct[key] = true
		cfgs[res.Config]++
		if len(res.Problems) > 0 {
			failing++
			if failing <= 5 {
				enc.Encode(res)
			}
		} else if *sample > 0 && total%37 == 5 {
			*sample--
			res2 := res
			enc.Encode(map[string]interface{}{"sample": true, "config": res2.Config, "choices": res2.Choices, "trace": res2.Trace})
		} else if *traces > 0 && total%3 == 1 {
			*traces--
			enc.Encode(map[string]interface{}{"trace_export": true, "config": res.Config, "trace": res.Trace})
		}
	}
	exhaustedCfgs := 0
	if *exhaustive {
		// stateless DFS with replay: enumerate all schedules of a few small configurations
		for c := 0; c < 6 && total < *limit; c++ {
			cfg := sc.Config(r, true)
			var prefix []int
			type frame struct{ alts []int }
			var stack []frame
			complete := true
			for {
				depth := 0
				var frames []frame
				pick := func(step int, runnable []int) int {
					depth = step
					if step < len(prefix) {
						frames = append(frames, frame{})
						return prefix[step]
					}
					frames = append(frames, frame{alts: append([]int(nil), runnable[1:]...)})
					return runnable[0]
				}
				res := runOnce(*name, sc, cfg, 0, nil, pick, true)
				_ = depth
				record(res)
				// merge the alternatives discovered beyond the prefix into the stack
				for i := len(prefix); i < len(frames); i++ {
					stack = append(stack, frames[i])
				}
				// backtrack
				choices := res.Choices
				for len(stack) > 0 && len(stack[len(stack)-1].alts) == 0 {
					stack = stack[:len(stack)-1]
				}
				if len(stack) == 0 {
					break
				}
				top := &stack[len(stack)-1]
				next := top.alts[0]
				top.alts = top.alts[1:]
				if len(stack)-1 > len(choices) {
					break
				}
				prefix = append(append([]int(nil), choices[:len(stack)-1]...), next)
				// the frame at this depth now stands for the new choice; alternatives already recorded
				if total >= *limit {
					complete = false
					break
				}
			}
			if complete {
				exhaustedCfgs++
			}
		}
	} else if *pb1 > 0 {
		// systematic, linear in the length of the run: what a WHOLE operation of one goroutine landing between two
		// adjacent steps of another one does (uniform random scheduling finds such a schedule with probability 2^-k)
		seen := map[string]bool{}
		for c, tries := 0, 0; c < *pb1 && tries < 20**pb1 && total < *limit; tries++ {
			cfg := sc.Config(r, false)
			if *fixed != "" {
				cfg = *fixed
			}
			if seen[cfg] {
				continue
			}
			seen[cfg] = true
			c++
			bodies, _ := sc.Build(cfg)
			n := len(bodies)
			policy := func(first, second, k int) func(int, []int) int {
				taken := 0
				return func(step int, runnable []int) int {
					has := func(x int) bool {
						for _, v := range runnable {
							if v == x {
								return true
							}
						}
						return false
					}
					if taken < k && has(first) {
						taken++
						return first
					}
					if has(second) {
						return second
					}
					return runnable[0]
				}
			}
			for first := 0; first < n && total < *limit; first++ {
				// how many steps does `first` take when it runs first, uninterrupted?
				base := runOnce(*name, sc, cfg, 0, nil, policy(first, first, 1<<30), true)
				record(base)
				cnt := 0
				for _, ch := range base.Choices {
					if ch == first {
						cnt++
					}
				}
				for second := 0; second < n; second++ {
					if second == first {
						continue
					}
					for k := 0; k <= cnt && total < *limit; k++ {
						record(runOnce(*name, sc, cfg, 0, nil, policy(first, second, k), true))
					}
				}
			}
		}
	} else {
		for i := 0; i < *runs; i++ {
			cfg := sc.Config(r, false)
			if *fixed != "" {
				cfg = *fixed
			}
			record(runOnce(*name, sc, cfg, r.Int63(), nil, nil, true))
		}
	}
	enc.Encode(map[string]interface{}{"summary": true, "scenario": *name, "runs": total, "failing": failing, "steps": steps,
		"distinct_schedules": len(distinct), "configs": len(cfgs), "exhausted_configs": exhaustedCfgs})
}

package main

import (
	"fmt"
	"math/rand"
	"time"

	"github.com/cep21/circuit/v4/faststats"
	"github.com/cep21/circuit/v4/vsched"
)

// tc (C16): concurrent Check callers + a timer thread that fires armed callbacks at arbitrary moments (+ optionally a
// SleepStart).  Configurations are chosen so that the property gives a schedule-independent bound:
//   mode=period : every caller's timestamp lies in one sleep period [100, 100+D) and is eligible at the start, so
//                 whatever the interleaving and whenever callbacks fire at most max(1,budget) checks may succeed;
//   mode=asleep : the gate was armed so that nextOpen lies after every caller's timestamp: no check may succeed,
//                 whenever the callback fires.
type tcScenario struct{}

func init() { scenarios["tc"] = tcScenario{} }

func (tcScenario) Config(r *rand.Rand, small bool) string {
	k := 2 + r.Intn(3)
	if small {
		k = 2
	}
	return fmt.Sprintf("k=%d budget=%d mode=%s armed=%d restart=%d", k, []int{-1, 0, 1, 1, 2, 3}[r.Intn(6)], []string{"period", "period", "asleep"}[r.Intn(3)], r.Intn(2), r.Intn(2)*r.Intn(2))
}

func (tcScenario) Build(cfg string) ([]func(), func(*vsched.Sched) []string) {
	k, budget, mode, armed, restart := cfgInt(cfg, "k"), cfgInt(cfg, "budget"), cfgStr(cfg, "mode"), cfgInt(cfg, "armed") == 1, cfgInt(cfg, "restart") == 1
	base := time.Date(2100, 1, 1, 0, 0, 0, 0, time.UTC)
	at := func(ns int64) time.Time { return base.Add(time.Duration(ns)) }
	const D = 1000
	tc := &faststats.TimedCheck{}
	var callbacks []func()
	tc.TimeAfterFunc = func(d time.Duration, f func()) *time.Timer { callbacks = append(callbacks, f); return nil }
	tc.SetSleepDuration(D)
	tc.SetEventCountToAllow(int64(budget))
	fired := 0
	nameVars(tc, "tc")
	if mode == "asleep" {
		tc.SleepStart(at(100)) // nextOpen = 1100 > every timestamp below
		if armed {             // its callback may already have fired
			callbacks[0]()
			fired = 1
		}
	} else if armed {
		tc.SleepStart(at(-2000)) // nextOpen = -1000: eligible; callback fired
		callbacks[0]()
		fired = 1
	}
	results := make([]bool, k)
	var bodies []func()
	for i := 0; i < k; i++ {
		i := i
		ts := int64(100 + 37*i) // all inside [100, 100+D)
		bodies = append(bodies, func() { results[i] = tc.Check(at(ts)) })
	}
	// timer thread: fires whatever is armed, at arbitrary moments
	bodies = append(bodies, func() {
		for j := 0; j < 6; j++ {
			vsched.Yield("timer")
			if fired < len(callbacks) {
				callbacks[fired]()
				fired++
			}
		}
	})
	restarted := false
	if restart && mode == "asleep" {
		bodies = append(bodies, func() { tc.SleepStart(at(150)); restarted = true })
	}
	monitor := func(s *vsched.Sched) []string {
		succ := 0
		for _, r := range results {
			if r {
				succ++
			}
		}
		_ = restarted
		var problems []string
		if mode == "asleep" && succ > 0 {
			problems = append(problems, fmt.Sprintf("%d checks succeeded although every timestamp is before nextOpen (sleep period not respected)", succ))
		}
		limit := budget
		if limit < 1 {
			limit = 1
		}
		if mode == "period" && succ > limit {
			problems = append(problems, fmt.Sprintf("%d checks with timestamps inside one sleep period succeeded, budget max(1,%d)", succ, budget))
		}
		if mode == "period" && succ == 0 {
			problems = append(problems, "no eligible check succeeded although the gate was open (callback fired or never armed)")
		}
		// liveness at quiescence: once every armed callback has fired and the period is long over, an eligible check
		// succeeds — whatever happened during the race (a callback that ran inside the arming call included)
		for fired < len(callbacks) {
			callbacks[fired]()
			fired++
		}
		// ... and EXACTLY as many as the current arming still owes: max(1,budget), minus what it already let through when
		// the race ended before the budget was used up (period mode with too few callers); then the gate re-arms
		want := limit
		if mode == "period" && succ < limit {
			want = limit - succ
		}
		late := 0
		for i := 0; i < want+1; i++ {
			if tc.Check(at(10_000_000)) {
				late++
			}
			for fired < len(callbacks) { // the re-arming check arms a new callback: it plays no role at this timestamp
				fired++
			}
		}
		switch {
		case late == 0:
			problems = append(problems, "after all callbacks fired, a check long after the sleep period is still refused (the gate is stuck)")
		case late != want:
			problems = append(problems, fmt.Sprintf("after the race and all callbacks, %d eligible checks succeeded in the current arming; exactly %d are owed (max(1,budget)=%d, %d already let through)", late, want, limit, map[bool]int{true: succ, false: 0}[mode == "period" && succ < limit]))
		}
		return problems
	}
	return bodies, monitor
}

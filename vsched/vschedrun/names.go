package main

import (
	"fmt"
	"reflect"
	"unsafe"

	"github.com/cep21/circuit/v4/vsched"
)

// nameVars registers readable names for every instrumented atomic / mutex reachable from the struct p points to
// (unexported fields included), so that trace steps name the variable they touch: "prefix.field", "prefix.field[i]".
func nameVars(p interface{}, prefix string) {
	v := reflect.ValueOf(p)
	if v.Kind() != reflect.Ptr || v.IsNil() {
		return
	}
	walkNames(v.Elem(), prefix, 0)
}

func walkNames(v reflect.Value, path string, depth int) {
	if depth > 6 || !v.CanAddr() {
		return
	}
	t := v.Type()
	switch t.PkgPath() + "." + t.Name() {
	case "github.com/cep21/circuit/v4/vsched/vatomic.Int64", "github.com/cep21/circuit/v4/vsched/vatomic.Bool",
		"github.com/cep21/circuit/v4/vsched/vsync.Mutex", "github.com/cep21/circuit/v4/vsched/vsync.RWMutex":
		vsched.Name(v.UnsafeAddr(), path)
		return
	}
	switch v.Kind() {
	case reflect.Struct:
		for i := 0; i < v.NumField(); i++ {
			f := t.Field(i)
			name := f.Name
			if f.Anonymous { // embedded atomic.Int64 inside faststats.AtomicInt64: keep the outer name
				walkNames(v.Field(i), path, depth+1)
				continue
			}
			sub := name
			if path != "" {
				sub = path + "." + name
			}
			walkNames(v.Field(i), sub, depth+1)
		}
	case reflect.Slice:
		for i := 0; i < v.Len() && i < 64; i++ {
			walkNames(v.Index(i), fmt.Sprintf("%s[%d]", path, i), depth+1)
		}
	}
	_ = unsafe.Pointer(nil)
}

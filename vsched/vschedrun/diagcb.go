package main

import (
	"context"
	"fmt"
	"math/rand"
	"time"

	circuit "github.com/cep21/circuit/v4"
	"github.com/cep21/circuit/v4/vsched"
)

// diag (C11): collectors — run, fallback AND transition observers — and the interrupt classifier are user code that may use the read-side diagnostics (Config,
// IsOpen, Name, gauges, Var) from INSIDE their callbacks — e.g. to tag a metric with a setting — while another
// goroutine reconfigures the circuit or reads Var.  The only thing monitored here is liveness: the scheduler reports
// a deadlock when no thread can run (a callback invoked while a library mutex is held that the diagnostic needs).
type diagScenario struct{}

func init() { scenarios["diag"] = diagScenario{} }

func (diagScenario) Config(r *rand.Rand, small bool) string {
	return fmt.Sprintf("act=%c ctx=%c other=%c open=%d", "sfcbt"[r.Intn(5)], "bc"[r.Intn(2)], "svonbb"[r.Intn(6)], r.Intn(2)*r.Intn(2))
}

type diagRec struct{ c **circuit.Circuit }

func (d diagRec) poke() {
	c := *d.c
	_ = c.Config()
	_ = c.IsOpen()
	_ = c.Name()
	_ = c.ConcurrentCommands() + c.ConcurrentFallbacks()
}
func (d diagRec) Opened(context.Context, time.Time) { d.transition() }
func (d diagRec) Closed(context.Context, time.Time) { d.transition() }
func (d diagRec) transition() {
	vsched.Yield("deliver-transition")
	d.poke()
}
func (d diagRec) Success(context.Context, time.Time, time.Duration)       { d.poke() }
func (d diagRec) ErrFailure(context.Context, time.Time, time.Duration)    { d.poke() }
func (d diagRec) ErrTimeout(context.Context, time.Time, time.Duration)    { d.poke() }
func (d diagRec) ErrBadRequest(context.Context, time.Time, time.Duration) { d.poke() }
func (d diagRec) ErrInterrupt(context.Context, time.Time, time.Duration)  { d.poke() }
func (d diagRec) ErrConcurrencyLimitReject(context.Context, time.Time)    { d.poke() }
func (d diagRec) ErrShortCircuit(context.Context, time.Time)              { d.poke() }

func (diagScenario) Build(cfg string) ([]func(), func(*vsched.Sched) []string) {
	var c *circuit.Circuit
	rec := diagRec{&c}
	now := cfgNow
	conf := circuit.Config{
		General:   circuit.GeneralConfig{TimeKeeper: circuit.TimeKeeper{Now: func() time.Time { now = now.Add(time.Millisecond); return now }}},
		Execution: circuit.ExecutionConfig{Timeout: 5 * time.Millisecond, IsErrInterrupt: func(error) bool { _ = c.Config(); return true }},
		Metrics:   circuit.MetricsCollectors{Run: []circuit.RunMetrics{rec}, Fallback: []circuit.FallbackMetrics{rec}, Circuit: []circuit.Metrics{rec}},
	}
	c = circuit.NewCircuitFromConfig("d", conf)
	if cfgInt(cfg, "open") == 1 {
		c.OpenCircuit(context.Background())
	}
	act, ctxKind, other := cfgStr(cfg, "act")[0], cfgStr(cfg, "ctx")[0], cfgStr(cfg, "other")[0]
	bodies := []func(){func() {
		ctx, cancel := context.WithCancel(context.Background())
		defer cancel()
		if ctxKind == 'c' {
			cancel()
		}
		_ = c.Execute(ctx, func(ctx context.Context) error {
			switch act {
			case 's':
				return nil
			case 'c':
				return ctx.Err()
			case 'b':
				return circuit.SimpleBadRequest{Err: errBoom}
			case 't':
				now = now.Add(time.Second)
				return nil
			}
			return errBoom
		}, func(context.Context, error) error { return nil })
	}}
	switch other {
	case 's':
		bodies = append(bodies, func() { nc := c.Config(); nc.Execution.MaxConcurrentRequests = 3; c.SetConfigThreadSafe(nc) })
	case 'v':
		bodies = append(bodies, func() { _ = c.Var().String() })
	case 'o':
		bodies = append(bodies, func() { c.OpenCircuit(context.Background()); c.CloseCircuit(context.Background()) })
	case 'b':
		bodies = append(bodies, func() { c.OpenCircuit(context.Background()); c.CloseCircuit(context.Background()) })
		bodies = append(bodies, func() { nc := c.Config(); nc.Execution.MaxConcurrentRequests = 3; c.SetConfigThreadSafe(nc) })
	}
	return bodies, func(*vsched.Sched) []string { return nil }
}

package main

import (
	"fmt"
	"math/rand"
	"sort"
	"strings"

	circuit "github.com/cep21/circuit/v4"
	"github.com/cep21/circuit/v4/metrics/rolling"
	"github.com/cep21/circuit/v4/vsched"
)

// mgr (C17): concurrent CreateCircuit with one name (plus other names), GetCircuit, AllCircuits and Var on one Manager.
type mgrScenario struct{}

func init() { scenarios["mgr"] = mgrScenario{} }

func (mgrScenario) Config(r *rand.Rand, small bool) string {
	k := 2 + r.Intn(3)
	if small {
		k = 2
	}
	ops := make([]byte, k)
	for i := range ops {
		ops[i] = "cccgavo"[r.Intn(7)] // create x, get x, all, var, create other
	}
	ops[0], ops[1] = 'c', 'c'
	return fmt.Sprintf("ops=%s sf=%d", ops, r.Intn(2))
}

func (mgrScenario) Build(cfg string) ([]func(), func(*vsched.Sched) []string) {
	m := &circuit.Manager{}
	var sf *rolling.StatFactory
	if cfgInt(cfg, "sf") == 1 {
		sf = &rolling.StatFactory{}
		m.DefaultCircuitProperties = append(m.DefaultCircuitProperties, sf.CreateConfig)
	}
	nameVars(m, "mgr")
	ops := cfgStr(cfg, "ops")
	type res struct {
		c   *circuit.Circuit
		err error
		all []*circuit.Circuit
	}
	results := make([]res, len(ops))
	var bodies []func()
	for i, op := range ops {
		i := i
		switch op {
		case 'c':
			bodies = append(bodies, func() { results[i].c, results[i].err = m.CreateCircuit("x") })
		case 'o':
			bodies = append(bodies, func() { results[i].c, results[i].err = m.CreateCircuit(fmt.Sprintf("other%d", i)) })
		case 'g':
			bodies = append(bodies, func() { results[i].c = m.GetCircuit("x") })
		case 'a':
			bodies = append(bodies, func() { results[i].all = m.AllCircuits() })
		default:
			bodies = append(bodies, func() { _ = m.Var().String() })
		}
	}
	monitor := func(s *vsched.Sched) []string {
		var problems []string
		var winner *circuit.Circuit
		wins, created := 0, 0
		for i, op := range ops {
			if op == 'c' && results[i].err == nil {
				wins++
				winner = results[i].c
			}
			if (op == 'c' || op == 'o') && results[i].err == nil {
				created++
			}
		}
		if wins != 1 {
			problems = append(problems, fmt.Sprintf("%d CreateCircuit calls for one name succeeded", wins))
		}
		for i, op := range ops {
			if op == 'g' && results[i].c != nil && results[i].c != winner {
				problems = append(problems, "GetCircuit returned a circuit that is not the created one")
			}
			if op == 'a' {
				for _, c := range results[i].all {
					if c == nil {
						problems = append(problems, "AllCircuits returned nil entry")
					}
				}
			}
		}
		if m.GetCircuit("x") != winner {
			problems = append(problems, "after quiescence GetCircuit does not return the winner's circuit")
		}
		if n := len(m.AllCircuits()); n != created {
			problems = append(problems, fmt.Sprintf("AllCircuits has %d entries, %d creations succeeded", n, created))
		}
		// results, appended to the trace for the model conformance (K2): a circuit is identified by the index of the
		// thread whose CreateCircuit returned it
		creator := func(c *circuit.Circuit) string {
			if c == nil {
				return "nil"
			}
			for j, o := range ops {
				if (o == 'c' || o == 'o') && results[j].err == nil && results[j].c == c {
					return fmt.Sprint(j)
				}
			}
			return "unknown"
		}
		for i, op := range ops {
			switch op {
			case 'c', 'o':
				if results[i].err == nil {
					s.Trace = append(s.Trace, fmt.Sprintf("R %d created", i))
				} else {
					s.Trace = append(s.Trace, fmt.Sprintf("R %d exists", i))
				}
			case 'g':
				s.Trace = append(s.Trace, fmt.Sprintf("R %d got %s", i, creator(results[i].c)))
			case 'a':
				ids := []int{}
				for _, c := range results[i].all {
					var k int
					if _, err := fmt.Sscan(creator(c), &k); err == nil {
						ids = append(ids, k)
					} else {
						ids = append(ids, -1)
					}
				}
				sort.Ints(ids)
				s.Trace = append(s.Trace, fmt.Sprintf("R %d all %s", i, strings.Trim(strings.Replace(fmt.Sprint(ids), " ", ",", -1), "[]")))
			}
		}
		if sf != nil && winner != nil && sf.RunStats("x") != rolling.FindCommandMetrics(winner) {
			problems = append(problems, "the stat factory's stats for the name are not the ones attached to the live circuit")
		}
		return problems
	}
	return bodies, monitor
}

// Package vsync mirrors the part of sync the library uses.  Mutex and RWMutex are scheduling points of vsched with
// real blocking semantics (a waiting thread is not runnable, so deadlock is observable); Once and WaitGroup are the
// originals.  Outside a scheduled run the locks fall back to real sync primitives.
package vsync

import (
	"sync"
	"unsafe"

	"github.com/cep21/circuit/v4/vsched"
)

type (
	Once      = sync.Once
	WaitGroup = sync.WaitGroup
	Locker    = sync.Locker
	Pool      = sync.Pool
	Map       = sync.Map
	Cond      = sync.Cond
)

func NewCond(l Locker) *Cond { return sync.NewCond(l) }

// Mutex mirrors sync.Mutex.
type Mutex struct {
	real   sync.Mutex
	held   bool
	holder int
}

func (m *Mutex) name() string { return vsched.NameOf(uintptr(unsafe.Pointer(m))) }

func (m *Mutex) Lock() {
	if !vsched.Active() || vsched.Tid() < 0 {
		m.real.Lock()
		return
	}
	vsched.YieldWhen("lock "+m.name(), func() bool { return !m.held })
	m.held = true
	m.holder = vsched.Tid()
}

func (m *Mutex) TryLock() bool {
	if !vsched.Active() || vsched.Tid() < 0 {
		return m.real.TryLock()
	}
	vsched.Yield("trylock " + m.name())
	if m.held {
		return false
	}
	m.held = true
	m.holder = vsched.Tid()
	return true
}

func (m *Mutex) Unlock() {
	if !vsched.Active() || vsched.Tid() < 0 {
		m.real.Unlock()
		return
	}
	vsched.Yield("unlock " + m.name())
	m.held = false
}

// RWMutex mirrors sync.RWMutex (no writer preference: any admissible waiter may be chosen next).
type RWMutex struct {
	real    sync.RWMutex
	writer  bool
	readers int
}

func (m *RWMutex) name() string { return vsched.NameOf(uintptr(unsafe.Pointer(m))) }

func (m *RWMutex) Lock() {
	if !vsched.Active() || vsched.Tid() < 0 {
		m.real.Lock()
		return
	}
	vsched.YieldWhen("lock "+m.name(), func() bool { return !m.writer && m.readers == 0 })
	m.writer = true
}

func (m *RWMutex) Unlock() {
	if !vsched.Active() || vsched.Tid() < 0 {
		m.real.Unlock()
		return
	}
	vsched.Yield("unlock " + m.name())
	m.writer = false
}

func (m *RWMutex) RLock() {
	if !vsched.Active() || vsched.Tid() < 0 {
		m.real.RLock()
		return
	}
	vsched.YieldWhen("rlock "+m.name(), func() bool { return !m.writer })
	m.readers++
}

func (m *RWMutex) RUnlock() {
	if !vsched.Active() || vsched.Tid() < 0 {
		m.real.RUnlock()
		return
	}
	vsched.Yield("runlock " + m.name())
	m.readers--
}

func (m *RWMutex) RLocker() Locker { return (*rlocker)(m) }

type rlocker RWMutex

func (r *rlocker) Lock()   { (*RWMutex)(r).RLock() }
func (r *rlocker) Unlock() { (*RWMutex)(r).RUnlock() }

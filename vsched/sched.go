// Package vsched is a cooperative scheduler for exploring interleavings of the library's atomic and lock
// operations.  It is dropped into a scratch copy of the repository; the instrumented packages vatomic and vsync
// (substituted for sync/atomic and sync by import path) call Yield / Acquire before every shared-memory operation.
// Exactly one registered thread runs at a time; the next one is chosen from a PRNG, from a recorded schedule
// (replay) or by an exhaustive DFS driver.  Code running outside Run (set-up, quiescent checks) is not scheduled.
package vsched

import (
	"fmt"
	"math/rand"
	"runtime"
	"sync"
)

type thread struct {
	id      int
	resume  chan struct{}
	done    bool
	guard   func() bool // the pending step is enabled only when guard() holds (nil: always)
	pending string      // label of the step it is about to take
}

// Sched is one exploration run.
type Sched struct {
	threads  []*thread
	cur      *thread
	yielded  chan struct{}
	rng      *rand.Rand
	replay   []int
	Choices  []int    // thread id chosen at every scheduling point
	Trace    []string // "tid label" of every step taken, plus results appended by Note
	Deadlock bool
	Panic    interface{}
	maxSteps int
	// Pick, if set, chooses among the runnable thread ids (exhaustive exploration)
	Pick func(step int, runnable []int) int
	// random exploration comes in three flavours, drawn per run from the seed: uniform at every step, or "sticky" (the
	// thread that ran last keeps running with probability 1-1/stick): long uninterrupted stretches of one thread are what
	// puts a WHOLE operation of one goroutine between two adjacent steps of another
	stick int
	last  int
}

var (
	active *Sched
	gmu    sync.Mutex
)

// Active reports whether the calling code runs under the scheduler.
func Active() bool { return active != nil }

// Tid is the id of the running thread (-1 outside Run).
func Tid() int {
	if active == nil || active.cur == nil {
		return -1
	}
	return active.cur.id
}

// Yield is a scheduling point: the calling thread is about to perform the step described by label.
func Yield(label string) {
	s := active
	if s == nil || s.cur == nil {
		return
	}
	t := s.cur
	t.pending = label
	s.yielded <- struct{}{}
	<-t.resume
}

// Note appends an observation (e.g. the value an operation returned) to the last trace entry.
func Note(format string, a ...interface{}) {
	s := active
	if s == nil || len(s.Trace) == 0 {
		return
	}
	s.Trace[len(s.Trace)-1] += " " + fmt.Sprintf(format, a...)
}

// YieldWhen is a scheduling point whose step is enabled only while guard() holds (lock acquisition): a thread whose
// guard is false is not runnable, so a failed attempt is never a trace step and deadlock is observable.
func YieldWhen(label string, guard func() bool) {
	s := active
	if s == nil || s.cur == nil {
		return
	}
	t := s.cur
	t.pending = label
	t.guard = guard
	s.yielded <- struct{}{}
	<-t.resume
}

// Run executes the bodies as threads 0..n-1 under the scheduler until all have finished (or deadlock / step limit).
func Run(seed int64, replay []int, pick func(step int, runnable []int) int, bodies ...func()) *Sched {
	gmu.Lock()
	defer gmu.Unlock()
	s := &Sched{yielded: make(chan struct{}), rng: rand.New(rand.NewSource(seed)), replay: replay, maxSteps: 20000, Pick: pick, last: -1}
	switch s.rng.Intn(3) {
	case 1:
		s.stick = 6
	case 2:
		s.stick = 24
	}
	for i, b := range bodies {
		t := &thread{id: i, resume: make(chan struct{})}
		s.threads = append(s.threads, t)
		body := b
		go func() {
			<-t.resume
			defer func() {
				if r := recover(); r != nil {
					if s.Panic == nil {
						s.Panic = fmt.Sprintf("thread %d: %v", t.id, r)
					}
				}
				t.done = true
				t.pending = ""
				s.yielded <- struct{}{}
			}()
			body()
		}()
	}
	active = s
	defer func() { active = nil }()
	for step := 0; ; step++ {
		var runnable []int
		alive := 0
		for _, t := range s.threads {
			if !t.done {
				alive++
				if t.guard == nil || t.guard() {
					runnable = append(runnable, t.id)
				}
			}
		}
		if alive == 0 {
			break
		}
		if len(runnable) == 0 {
			s.Deadlock = true
			break
		}
		if step > s.maxSteps {
			s.Panic = "step limit"
			break
		}
		var c int
		switch {
		case step < len(s.replay) && contains(runnable, s.replay[step]):
			c = s.replay[step]
		case s.Pick != nil:
			c = s.Pick(step, runnable)
		case s.stick > 0 && s.last >= 0 && contains(runnable, s.last) && s.rng.Intn(s.stick) != 0:
			c = s.last
		default:
			c = runnable[s.rng.Intn(len(runnable))]
		}
		s.last = c
		s.Choices = append(s.Choices, c)
		t := s.threads[c]
		s.cur = t
		if t.pending != "" {
			s.Trace = append(s.Trace, fmt.Sprintf("%d %s", t.id, t.pending))
			t.pending = ""
		}
		t.guard = nil
		t.resume <- struct{}{}
		<-s.yielded
		s.cur = nil
	}
	runtime.Gosched()
	return s
}

func contains(l []int, x int) bool {
	for _, v := range l {
		if v == x {
			return true
		}
	}
	return false
}

// names of instrumented variables, registered by the harness (address -> name)
var names = map[uintptr]string{}

// Name registers a human-readable name for the variable at addr.
func Name(addr uintptr, name string) { names[addr] = name }

// ResetNames forgets all names.
func ResetNames() { names = map[uintptr]string{} }

// NameOf returns the registered name of addr, or its hex address.
func NameOf(addr uintptr) string {
	if n, ok := names[addr]; ok {
		return n
	}
	return fmt.Sprintf("@%x", addr)
}

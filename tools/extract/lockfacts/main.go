// lockfacts — regenerates lean/Generated/LockFacts.lean from the Go source: for every struct type that owns a
// sync.Mutex / sync.RWMutex (or is reached from one through a struct-typed field), every access to a NON-atomic,
// non-mutex field from the methods of the owning types, with: access kind, enclosing function, whether that
// function belongs to the construction phase, and the set of mutexes definitely held (a forward, syntactic
// must-analysis: Lock()/defer Unlock() pairs, straight-line Lock … Unlock regions; callee entry sets are the
// intersection over the intra-type call sites; closures start with nothing held).  Also the acquired-while-holding
// edges for the lock-order check.  What the analysis does not understand it reports with the empty lock set, which
// can only make the verified checker fail — never pass.
//
//	lockfacts REPO > LockFacts.lean
package main

import (
	"fmt"
	"go/ast"
	"go/parser"
	"go/token"
	"os"
	"path/filepath"
	"sort"
	"strings"
)

var fset = token.NewFileSet()

type structInfo struct {
	pkg     string
	name    string
	fields  map[string]string // field -> short type name (for struct-typed fields), "" otherwise
	mutexes map[string]string // mutex field -> "M" or "RW"
	atomic  map[string]bool
}

type funcInfo struct {
	recvType string // "" for plain functions
	recvName string
	name     string
	body     *ast.BlockStmt
	pkg      string
}

var structs = map[string]*structInfo{}
var funcs []*funcInfo

func shortType(e ast.Expr) string {
	switch t := e.(type) {
	case *ast.Ident:
		return t.Name
	case *ast.SelectorExpr:
		return t.Sel.Name
	case *ast.StarExpr:
		return shortType(t.X)
	}
	return ""
}

func qualType(e ast.Expr) string {
	if s, ok := e.(*ast.SelectorExpr); ok {
		if id, ok := s.X.(*ast.Ident); ok {
			return id.Name + "." + s.Sel.Name
		}
	}
	return shortType(e)
}

func load(repo string) {
	filepath.Walk(repo, func(p string, fi os.FileInfo, err error) error {
		if err != nil || !fi.IsDir() {
			return nil
		}
		if (strings.HasPrefix(fi.Name(), ".") && p != repo) || fi.Name() == "example" || fi.Name() == "benchmarking" || fi.Name() == "testhelp" || fi.Name() == "clock" {
			return filepath.SkipDir
		}
		pkgs, err := parser.ParseDir(fset, p, func(fi os.FileInfo) bool { return !strings.HasSuffix(fi.Name(), "_test.go") }, 0)
		if err != nil {
			return nil
		}
		for _, pk := range pkgs {
			for _, f := range pk.Files {
				for _, d := range f.Decls {
					switch d := d.(type) {
					case *ast.GenDecl:
						for _, s := range d.Specs {
							ts, ok := s.(*ast.TypeSpec)
							if !ok {
								continue
							}
							st, ok := ts.Type.(*ast.StructType)
							if !ok {
								continue
							}
							si := &structInfo{pkg: pk.Name, name: ts.Name.Name, fields: map[string]string{}, mutexes: map[string]string{}, atomic: map[string]bool{}}
							for _, fl := range st.Fields.List {
								qt := qualType(fl.Type)
								for _, n := range fl.Names {
									switch {
									case qt == "sync.Mutex":
										si.mutexes[n.Name] = "M"
									case qt == "sync.RWMutex":
										si.mutexes[n.Name] = "RW"
									case strings.HasPrefix(qt, "faststats.Atomic") || strings.HasPrefix(qt, "Atomic") || strings.HasPrefix(qt, "atomic.") || qt == "sync.Once" || qt == "sync.WaitGroup" || qt == "atomicCircuitConfig":
										si.atomic[n.Name] = true
									default:
										if _, isArr := fl.Type.(*ast.ArrayType); isArr && strings.Contains(qualType(fl.Type.(*ast.ArrayType).Elt), "Atomic") {
											si.fields[n.Name] = "" // slice header of atomics: the header itself is a plain field
										} else {
											si.fields[n.Name] = shortType(fl.Type)
										}
									}
								}
							}
							structs[si.name] = si
						}
					case *ast.FuncDecl:
						if d.Body == nil {
							continue
						}
						fi := &funcInfo{name: d.Name.Name, body: d.Body, pkg: pk.Name}
						if d.Recv != nil && len(d.Recv.List) == 1 {
							fi.recvType = shortType(d.Recv.List[0].Type)
							if len(d.Recv.List[0].Names) == 1 {
								fi.recvName = d.Recv.List[0].Names[0].Name
							}
						}
						funcs = append(funcs, fi)
					}
				}
			}
		}
		return nil
	})
}

type access struct {
	field string // Type.field
	write bool
	fn    string
	held  []string // "Type.mu:W" / "Type.mu:R"
}

// locks a method acquires directly in its body (summary used for cross-type calls)
var acquires = map[string][]string{}

func computeAcquires() {
	for _, fn := range funcs {
		if fn.recvType == "" || structs[fn.recvType] == nil {
			continue
		}
		ast.Inspect(fn.body, func(n ast.Node) bool {
			call, ok := n.(*ast.CallExpr)
			if !ok {
				return true
			}
			sel, ok := call.Fun.(*ast.SelectorExpr)
			if !ok || (sel.Sel.Name != "Lock" && sel.Sel.Name != "RLock") {
				return true
			}
			if owner, field, ok := resolve(sel.X, fn.recvName, fn.recvType); ok && structs[owner] != nil && structs[owner].mutexes[field] != "" {
				acquires[qualFn(fn)] = append(acquires[qualFn(fn)], owner+"."+field)
			}
			return true
		})
	}
}

type analysis struct {
	accesses []access
	edges    map[string]bool            // "A>B": B acquired while A held
	calls    map[string][]map[string]string // callee "Type.m" -> held sets at call sites
}

func constructionPhase(fn *funcInfo) bool {
	n := fn.name
	return strings.HasPrefix(n, "New") || n == "SetConfigNotThreadSafe" || n == "doOnce" || n == "UnmarshalJSON" || strings.HasSuffix(n, "Factory") || n == "CreateConfig" && false
}

// path resolves recv.a.b… to (ownerType, field) of the LAST selector when every prefix is a struct-typed field
func resolve(e ast.Expr, recvName, recvType string) (owner, field string, ok bool) {
	sel, isSel := e.(*ast.SelectorExpr)
	if !isSel {
		return "", "", false
	}
	if id, isId := sel.X.(*ast.Ident); isId && id.Name == recvName {
		return recvType, sel.Sel.Name, true
	}
	o, f, ok2 := resolve(sel.X, recvName, recvType)
	if !ok2 {
		return "", "", false
	}
	si := structs[o]
	if si == nil {
		return "", "", false
	}
	t := si.fields[f]
	if structs[t] == nil {
		return "", "", false
	}
	return t, sel.Sel.Name, true
}

func copyHeld(h map[string]string) map[string]string {
	c := map[string]string{}
	for k, v := range h {
		c[k] = v
	}
	return c
}

func heldList(h map[string]string) []string {
	var l []string
	for k, v := range h {
		l = append(l, k+":"+v)
	}
	sort.Strings(l)
	return l
}

func (a *analysis) walkFunc(fn *funcInfo, entry map[string]string) {
	a.walkBlock(fn, fn.body.List, copyHeld(entry))
}

func (a *analysis) lockCall(fn *funcInfo, call *ast.CallExpr) (lock, op string, ok bool) {
	sel, isSel := call.Fun.(*ast.SelectorExpr)
	if !isSel {
		return "", "", false
	}
	switch sel.Sel.Name {
	case "Lock", "Unlock", "RLock", "RUnlock":
	default:
		return "", "", false
	}
	owner, field, ok2 := resolve(sel.X, fn.recvName, fn.recvType)
	if !ok2 || structs[owner] == nil || structs[owner].mutexes[field] == "" {
		return "", "", false
	}
	return owner + "." + field, sel.Sel.Name, true
}

func (a *analysis) walkBlock(fn *funcInfo, stmts []ast.Stmt, held map[string]string) {
	for _, st := range stmts {
		a.walkStmt(fn, st, held)
	}
}

func (a *analysis) walkStmt(fn *funcInfo, st ast.Stmt, held map[string]string) {
	switch s := st.(type) {
	case *ast.ExprStmt:
		if call, ok := s.X.(*ast.CallExpr); ok {
			if lock, op, ok := a.lockCall(fn, call); ok {
				switch op {
				case "Lock", "RLock":
					for h := range held {
						if h != lock {
							a.edges[h+">"+lock] = true
						}
					}
					if op == "Lock" {
						held[lock] = "W"
					} else {
						held[lock] = "R"
					}
				default:
					delete(held, lock)
				}
				return
			}
		}
		a.walkExpr(fn, s.X, held, false)
	case *ast.DeferStmt:
		if _, _, ok := a.lockCall(fn, s.Call); ok {
			return // deferred unlock: held until the function returns
		}
		a.walkExpr(fn, s.Call, map[string]string{}, false)
	case *ast.AssignStmt:
		for _, l := range s.Lhs {
			a.walkExpr(fn, l, held, true)
		}
		for _, r := range s.Rhs {
			a.walkExpr(fn, r, held, false)
		}
	case *ast.IncDecStmt:
		a.walkExpr(fn, s.X, held, true)
	case *ast.IfStmt:
		if s.Init != nil {
			a.walkStmt(fn, s.Init, held)
		}
		a.walkExpr(fn, s.Cond, held, false)
		a.walkBlock(fn, s.Body.List, copyHeld(held))
		if s.Else != nil {
			a.walkStmt(fn, s.Else, copyHeld(held))
		}
	case *ast.BlockStmt:
		a.walkBlock(fn, s.List, held)
	case *ast.ForStmt:
		if s.Init != nil {
			a.walkStmt(fn, s.Init, held)
		}
		if s.Cond != nil {
			a.walkExpr(fn, s.Cond, held, false)
		}
		a.walkBlock(fn, s.Body.List, copyHeld(held))
	case *ast.RangeStmt:
		a.walkExpr(fn, s.X, held, false)
		a.walkBlock(fn, s.Body.List, copyHeld(held))
	case *ast.ReturnStmt:
		for _, r := range s.Results {
			a.walkExpr(fn, r, held, false)
		}
	case *ast.SwitchStmt:
		if s.Tag != nil {
			a.walkExpr(fn, s.Tag, held, false)
		}
		for _, c := range s.Body.List {
			a.walkBlock(fn, c.(*ast.CaseClause).Body, copyHeld(held))
		}
	case *ast.SelectStmt:
		for _, c := range s.Body.List {
			cc := c.(*ast.CommClause)
			if cc.Comm != nil {
				a.walkStmt(fn, cc.Comm, copyHeld(held))
			}
			a.walkBlock(fn, cc.Body, copyHeld(held))
		}
	case *ast.GoStmt:
		a.walkExpr(fn, s.Call, map[string]string{}, false)
	case *ast.DeclStmt, *ast.SendStmt, *ast.BranchStmt, *ast.EmptyStmt, *ast.LabeledStmt:
		ast.Inspect(st, func(n ast.Node) bool {
			if e, ok := n.(ast.Expr); ok {
				a.walkExpr(fn, e, held, false)
				return false
			}
			return true
		})
	}
}

func (a *analysis) walkExpr(fn *funcInfo, e ast.Expr, held map[string]string, write bool) {
	if e == nil {
		return
	}
	switch x := e.(type) {
	case *ast.FuncLit:
		a.walkBlock(fn, x.Body.List, map[string]string{}) // runs later: nothing held
		return
	case *ast.SelectorExpr:
		if owner, field, ok := resolve(x, fn.recvName, fn.recvType); ok {
			si := structs[owner]
			if si != nil {
				if _, plain := si.fields[field]; plain {
					a.accesses = append(a.accesses, access{field: owner + "." + field, write: write, fn: qualFn(fn), held: heldList(held)})
				}
			}
			// the prefix path is read
			a.walkExpr(fn, x.X, held, false)
			return
		}
		a.walkExpr(fn, x.X, held, false)
		return
	case *ast.CallExpr:
		// a closure handed to a call made WHILE locks are held may be run by the callee right away (a timer hook that
		// fires a zero-delay callback inline, a collector invoked synchronously …): every lock the closure takes is then
		// taken under the held ones — including the very same lock (a self-edge: re-entrancy on a non-reentrant mutex)
		if len(held) > 0 {
			for _, arg := range x.Args {
				if lit, ok := arg.(*ast.FuncLit); ok {
					ast.Inspect(lit.Body, func(n ast.Node) bool {
						if c, ok := n.(*ast.CallExpr); ok {
							if lock, op, ok := a.lockCall(fn, c); ok && (op == "Lock" || op == "RLock") {
								for h := range held {
									a.edges[h+">"+lock] = true
								}
							}
						}
						return true
					})
				}
			}
		}
		// intra-type call: record the held set for the callee's entry
		if sel, ok := x.Fun.(*ast.SelectorExpr); ok {
			if id, ok := sel.X.(*ast.Ident); ok && id.Name == fn.recvName && fn.recvType != "" {
				a.calls[fn.recvType+"."+sel.Sel.Name] = append(a.calls[fn.recvType+"."+sel.Sel.Name], copyHeld(held))
			} else {
				// a method of another synchronised type reached through a field path: the locks it takes are taken
				// while the current ones are held
				if owner, field, ok := resolve(sel.X, fn.recvName, fn.recvType); ok && structs[owner] != nil {
					if t := structs[owner].fields[field]; structs[t] != nil {
						for _, l := range acquires[t+"."+sel.Sel.Name] {
							for h := range held {
								if h != l {
									a.edges[h+">"+l] = true
								}
							}
						}
					}
				}
				a.walkExpr(fn, sel.X, held, false)
			}
		} else {
			a.walkExpr(fn, x.Fun, held, false)
		}
		for _, arg := range x.Args {
			a.walkExpr(fn, arg, held, false)
		}
		return
	case *ast.UnaryExpr:
		if x.Op == token.AND {
			// taking the address of a plain field: assume it may be written through the pointer; a field whose type is
			// itself a synchronised struct (atomics / own mutex) is only READ by taking its address
			if owner, field, ok := resolve(x.X, fn.recvName, fn.recvType); ok && structs[owner] != nil && structs[structs[owner].fields[field]] != nil {
				a.walkExpr(fn, x.X, held, false)
				return
			}
			a.walkExpr(fn, x.X, held, true)
			return
		}
		a.walkExpr(fn, x.X, held, write)
		return
	case *ast.StarExpr:
		a.walkExpr(fn, x.X, held, write)
		return
	case *ast.IndexExpr:
		a.walkExpr(fn, x.X, held, false) // element access reads the header/map variable; map writes are handled below
		if write {
			if owner, field, ok := resolve(x.X, fn.recvName, fn.recvType); ok {
				if si := structs[owner]; si != nil {
					if _, plain := si.fields[field]; plain {
						a.accesses = append(a.accesses, access{field: owner + "." + field, write: true, fn: qualFn(fn), held: heldList(held)})
					}
				}
			}
		}
		a.walkExpr(fn, x.Index, held, false)
		return
	case *ast.BinaryExpr:
		a.walkExpr(fn, x.X, held, false)
		a.walkExpr(fn, x.Y, held, false)
		return
	case *ast.ParenExpr:
		a.walkExpr(fn, x.X, held, write)
		return
	case *ast.CompositeLit:
		for _, el := range x.Elts {
			if kv, ok := el.(*ast.KeyValueExpr); ok {
				a.walkExpr(fn, kv.Value, held, false)
			} else {
				a.walkExpr(fn, el, held, false)
			}
		}
		return
	case *ast.TypeAssertExpr:
		a.walkExpr(fn, x.X, held, false)
		return
	case *ast.SliceExpr:
		a.walkExpr(fn, x.X, held, false)
		return
	case *ast.KeyValueExpr:
		a.walkExpr(fn, x.Value, held, false)
		return
	}
}

func qualFn(fn *funcInfo) string {
	if fn.recvType != "" {
		return fn.recvType + "." + fn.name
	}
	return fn.pkg + "." + fn.name
}

func lean(s string) string { return `"` + s + `"` }

func main() {
	load(os.Args[1])
	computeAcquires()
	// entry sets by fixpoint: start with "everything" for called methods, intersect over call sites
	entry := map[string]map[string]string{}
	var final *analysis
	for iter := 0; iter < 6; iter++ {
		a := &analysis{edges: map[string]bool{}, calls: map[string][]map[string]string{}}
		for _, fn := range funcs {
			if fn.recvType == "" || structs[fn.recvType] == nil {
				continue
			}
			e := entry[qualFn(fn)]
			if e == nil {
				e = map[string]string{}
			}
			a.walkFunc(fn, e)
		}
		next := map[string]map[string]string{}
		for callee, sites := range a.calls {
			// only unexported methods can rely on their callers (exported ones are API entry points)
			parts := strings.SplitN(callee, ".", 2)
			if len(parts) != 2 || ast.IsExported(parts[1]) {
				continue
			}
			inter := copyHeld(sites[0])
			for _, s := range sites[1:] {
				for k, v := range inter {
					if s[k] == "" {
						delete(inter, k)
					} else if s[k] != v {
						inter[k] = "R"
					}
				}
			}
			next[callee] = inter
		}
		final = a
		same := len(next) == len(entry)
		if same {
			for k, v := range next {
				if fmt.Sprint(heldList(v)) != fmt.Sprint(heldList(entry[k])) {
					same = false
				}
			}
		}
		entry = next
		if same {
			break
		}
	}
	cons := map[string]bool{}
	for _, fn := range funcs {
		if constructionPhase(fn) {
			cons[qualFn(fn)] = true
		}
	}
	// group accesses by field
	byField := map[string][]access{}
	for _, ac := range final.accesses {
		byField[ac.field] = append(byField[ac.field], ac)
	}
	var fields []string
	for f := range byField {
		// only state that lives in a type owning a mutex is shared, mutable and lock-protected by design; config
		// structs and pure-atomic helpers are values or atomics
		owner := strings.SplitN(f, ".", 2)[0]
		if si := structs[owner]; si == nil || len(si.mutexes) == 0 {
			continue
		}
		fields = append(fields, f)
	}
	sort.Strings(fields)
	fmt.Println("/- GENERATED by tools/extract/lockfacts from the Go source — do not edit; regenerated on every run -/")
	fmt.Println("import CircuitModel.LockLang")
	fmt.Println("namespace CM.Generated")
	fmt.Println("open CM.Lock")
	fmt.Println("def lockFacts : List FieldFacts := [")
	var items []string
	for _, f := range fields {
		var accs []string
		seen := map[string]bool{}
		for _, ac := range byField[f] {
			var hs []string
			for _, h := range ac.held {
				p := strings.SplitN(h, ":", 2)
				hs = append(hs, fmt.Sprintf("⟨%s, %v⟩", lean(p[0]), p[1] == "W"))
			}
			s := fmt.Sprintf("    { fn := %s, write := %v, construction := %v, held := [%s] }", lean(ac.fn), ac.write, cons[ac.fn], strings.Join(hs, ", "))
			if !seen[s] {
				seen[s] = true
				accs = append(accs, s)
			}
		}
		sort.Strings(accs)
		items = append(items, fmt.Sprintf("  { field := %s, accesses := [\n%s] }", lean(f), strings.Join(accs, ",\n")))
	}
	fmt.Println(strings.Join(items, ",\n"))
	fmt.Println("]")
	var es []string
	for e := range final.edges {
		p := strings.SplitN(e, ">", 2)
		es = append(es, fmt.Sprintf("(%s, %s)", lean(p[0]), lean(p[1])))
	}
	sort.Strings(es)
	fmt.Printf("def lockEdges : List (String × String) := [%s]\n", strings.Join(es, ", "))
	fmt.Println("end CM.Generated")
}

// chanfacts — regenerates lean/Generated/ChanFacts.lean from the Go source: every function of gowrapper.go, in
// source order, as a term of the ChanLang object language (lean/CircuitModel/ChanLang.lean): which channels are made
// and with what capacity, which goroutines are started and under which guard, who sends / receives / closes what,
// what is deferred.  Every statement is represented; what is not recognised becomes `.opaque <source>`, which the
// checked obligations (CircuitProofs/Props/C18Prog.lean) reject: the translator never guesses.  Expressions are kept
// as whitespace-normalised source text, and only if they hide no closure, receive, make, close, recover or panic.
//
//	chanfacts REPO > ChanFacts.lean
package main

import (
	"bytes"
	"fmt"
	"go/ast"
	"go/parser"
	"go/printer"
	"go/token"
	"os"
	"path/filepath"
	"strconv"
	"strings"
)

var fset = token.NewFileSet()

func src(n ast.Node) string {
	var b bytes.Buffer
	printer.Fprint(&b, fset, n)
	return strings.Join(strings.Fields(b.String()), " ")
}

// q renders a Lean string literal (src() leaves no line breaks or tabs)
func q(s string) string {
	return `"` + strings.NewReplacer(`\`, `\\`, `"`, `\"`).Replace(s) + `"`
}

func qlist(ss []string) string {
	out := make([]string, len(ss))
	for i, s := range ss {
		out[i] = q(s)
	}
	return "[" + strings.Join(out, ", ") + "]"
}

func opt(guard string) string {
	if guard == "" {
		return "none"
	}
	return "(some " + q(guard) + ")"
}

// plain: the expression may be kept as text — nothing concurrent hides in it
func plain(e ast.Expr) bool {
	ok := true
	ast.Inspect(e, func(n ast.Node) bool {
		switch n := n.(type) {
		case *ast.FuncLit:
			ok = false
		case *ast.UnaryExpr:
			if n.Op == token.ARROW {
				ok = false
			}
		case *ast.CallExpr:
			if id, isId := n.Fun.(*ast.Ident); isId {
				switch id.Name {
				case "make", "close", "recover", "panic", "new":
					ok = false
				}
			}
		}
		return ok
	})
	return ok
}

func plainAll(es []ast.Expr) ([]string, bool) {
	out := []string{}
	for _, e := range es {
		if !plain(e) {
			return nil, false
		}
		out = append(out, src(e))
	}
	return out, true
}

func ident(e ast.Expr) (string, bool) {
	id, ok := e.(*ast.Ident)
	if !ok || id.Name == "_" {
		return "", false
	}
	return id.Name, true
}

func builtinCall(e ast.Expr, name string) (*ast.CallExpr, bool) {
	c, ok := e.(*ast.CallExpr)
	if !ok {
		return nil, false
	}
	id, ok := c.Fun.(*ast.Ident)
	return c, ok && id.Name == name
}

// closure: `func(params) … { body }` — parameter names
func paramNames(ft *ast.FuncType) []string {
	out := []string{}
	if ft.Params != nil {
		for _, f := range ft.Params.List {
			if len(f.Names) == 0 {
				out = append(out, "_")
			}
			for _, n := range f.Names {
				out = append(out, n.Name)
			}
		}
	}
	return out
}

// thunk: `func() { body }()` — a parameterless closure called with no arguments
func thunk(c *ast.CallExpr) (*ast.BlockStmt, bool) {
	fl, ok := c.Fun.(*ast.FuncLit)
	if !ok || len(c.Args) != 0 || len(paramNames(fl.Type)) != 0 || fl.Type.Results != nil {
		return nil, false
	}
	return fl.Body, true
}

// recoverSend: the body `if r := recover(); r != nil { ch <- r }`
func recoverSend(b *ast.BlockStmt) (string, bool) {
	if len(b.List) != 1 {
		return "", false
	}
	is, ok := b.List[0].(*ast.IfStmt)
	if !ok || is.Else != nil || len(is.Body.List) != 1 {
		return "", false
	}
	as, ok := is.Init.(*ast.AssignStmt)
	if !ok || as.Tok != token.DEFINE || len(as.Lhs) != 1 || len(as.Rhs) != 1 {
		return "", false
	}
	r, ok := ident(as.Lhs[0])
	if c, isRec := builtinCall(as.Rhs[0], "recover"); !ok || !isRec || len(c.Args) != 0 || src(is.Cond) != r+" != nil" {
		return "", false
	}
	snd, ok := is.Body.List[0].(*ast.SendStmt)
	if !ok || src(snd.Value) != r {
		return "", false
	}
	return ident(snd.Chan)
}

type gen struct{ b strings.Builder }

func (g *gen) line(ind int, s string) { g.b.WriteString(strings.Repeat("  ", ind) + s) }

// block prints `(.of [ … ])` with one statement per line
func (g *gen) block(ind int, stmts []ast.Stmt) {
	if len(stmts) == 0 {
		g.b.WriteString(".nil")
		return
	}
	g.b.WriteString("(.of [\n")
	for i, s := range stmts {
		g.line(ind+1, "")
		g.stmt(ind+1, s, "")
		if i < len(stmts)-1 {
			g.b.WriteString(",")
		}
		g.b.WriteString("\n")
	}
	g.line(ind, "])")
}

func (g *gen) opaque(n ast.Node) { g.b.WriteString(".opaque " + q(src(n))) }

// stmt prints one statement; guard ≠ "" = it is the only statement of `if guard { … }`, which only a few kinds accept
func (g *gen) stmt(ind int, s ast.Stmt, guard string) bool {
	switch s := s.(type) {
	case *ast.DeclStmt: // var x chan T
		gd, ok := s.Decl.(*ast.GenDecl)
		if ok && guard == "" && gd.Tok == token.VAR && len(gd.Specs) == 1 {
			vs := gd.Specs[0].(*ast.ValueSpec)
			if _, isChan := vs.Type.(*ast.ChanType); isChan && len(vs.Names) == 1 && len(vs.Values) == 0 {
				g.b.WriteString(".declChan " + q(vs.Names[0].Name))
				return true
			}
		}
	case *ast.AssignStmt: // x := make(chan T, n); guarded: x = make(chan T, n)
		if len(s.Lhs) == 1 && len(s.Rhs) == 1 && ((guard == "" && s.Tok == token.DEFINE) || (guard != "" && s.Tok == token.ASSIGN)) {
			name, ok := ident(s.Lhs[0])
			if mk, isMake := builtinCall(s.Rhs[0], "make"); ok && isMake && len(mk.Args) >= 1 && len(mk.Args) <= 2 {
				if ct, isChan := mk.Args[0].(*ast.ChanType); isChan && ct.Dir == ast.SEND|ast.RECV {
					capacity := "0"
					if len(mk.Args) == 2 {
						capacity = src(mk.Args[1])
					}
					if _, err := strconv.ParseUint(capacity, 10, 32); err == nil {
						g.b.WriteString(fmt.Sprintf(".makeChan %s %s %s", q(name), capacity, opt(guard)))
						return true
					}
				}
			}
		}
	case *ast.GoStmt:
		if body, ok := thunk(s.Call); ok && guard == "" {
			g.b.WriteString(".goFunc ")
			g.block(ind, body.List)
			return true
		}
		if args, ok := plainAll(s.Call.Args); ok && plain(s.Call.Fun) {
			g.b.WriteString(fmt.Sprintf(".goCall %s %s %s", q(src(s.Call.Fun)), qlist(args), opt(guard)))
			return true
		}
	case *ast.DeferStmt:
		if body, ok := thunk(s.Call); ok {
			if ch, ok := recoverSend(body); ok {
				g.b.WriteString(fmt.Sprintf(".deferRecoverSend %s %s", q(ch), opt(guard)))
				return true
			}
			if guard == "" {
				g.b.WriteString(".deferFunc ")
				g.block(ind, body.List)
				return true
			}
		}
	case *ast.SendStmt:
		if ch, ok := ident(s.Chan); ok && guard == "" && plain(s.Value) {
			g.b.WriteString(fmt.Sprintf(".send %s %s", q(ch), q(src(s.Value))))
			return true
		}
	case *ast.SelectStmt:
		if guard == "" {
			g.b.WriteString(".select (.of [\n")
			for i, c := range s.Body.List {
				g.line(ind+1, "")
				g.commClause(ind+1, c.(*ast.CommClause))
				if i < len(s.Body.List)-1 {
					g.b.WriteString(",")
				}
				g.b.WriteString("\n")
			}
			g.line(ind, "])")
			return true
		}
	case *ast.ExprStmt:
		c, ok := s.X.(*ast.CallExpr)
		if !ok || guard != "" {
			break
		}
		if cl, isClose := builtinCall(c, "close"); isClose && len(cl.Args) == 1 {
			if ch, ok := ident(cl.Args[0]); ok {
				g.b.WriteString(".close " + q(ch))
				return true
			}
		} else if pn, isPanic := builtinCall(c, "panic"); isPanic && len(pn.Args) == 1 && plain(pn.Args[0]) {
			g.b.WriteString(".panic " + q(src(pn.Args[0])))
			return true
		} else if args, ok := plainAll(c.Args); ok && plain(c) {
			g.b.WriteString(fmt.Sprintf(".call %s %s", q(src(c.Fun)), qlist(args)))
			return true
		}
	case *ast.ReturnStmt:
		if guard != "" || len(s.Results) > 1 {
			break
		}
		if len(s.Results) == 0 {
			g.b.WriteString(`.ret ""`)
			return true
		}
		switch r := s.Results[0].(type) {
		case *ast.FuncLit: // return func(params) … { body }
			g.b.WriteString(fmt.Sprintf(".retFunc %s ", qlist(paramNames(r.Type))))
			g.block(ind, r.Body.List)
			return true
		case *ast.CallExpr: // return wrapper(func(params) … { body })(args)
			if inner, ok := r.Fun.(*ast.CallExpr); ok && len(inner.Args) == 1 && plain(inner.Fun) {
				if fl, ok := inner.Args[0].(*ast.FuncLit); ok {
					if args, ok := plainAll(r.Args); ok {
						g.b.WriteString(fmt.Sprintf(".retWrapped %s %s ", q(src(inner.Fun)), qlist(paramNames(fl.Type))))
						g.block(ind, fl.Body.List)
						g.b.WriteString(" " + qlist(args))
						return true
					}
				}
			}
		}
		if plain(s.Results[0]) {
			g.b.WriteString(".ret " + q(src(s.Results[0])))
			return true
		}
	case *ast.IfStmt: // if cond { return x }  /  if cond { one guardable statement }
		if guard == "" && s.Init == nil && s.Else == nil && len(s.Body.List) == 1 && plain(s.Cond) {
			if r, ok := s.Body.List[0].(*ast.ReturnStmt); ok && len(r.Results) <= 1 {
				what := ""
				if len(r.Results) == 1 {
					if !plain(r.Results[0]) {
						break
					}
					what = src(r.Results[0])
				}
				g.b.WriteString(fmt.Sprintf(".guardReturn %s %s", q(src(s.Cond)), q(what)))
				return true
			}
			if g.stmt(ind, s.Body.List[0], src(s.Cond)) { // prints nothing when it fails
				return true
			}
		}
	}
	if guard == "" {
		g.opaque(s)
	}
	return false
}

func (g *gen) commClause(ind int, c *ast.CommClause) {
	head := fmt.Sprintf(".other %s ", q("default"))
	if c.Comm != nil {
		head = fmt.Sprintf(".other %s ", q(src(c.Comm)))
		var bind string
		var rhs ast.Expr
		switch cm := c.Comm.(type) {
		case *ast.ExprStmt: // case <-x:
			rhs, bind = cm.X, "none"
		case *ast.AssignStmt: // case v := <-x:
			if cm.Tok == token.DEFINE && len(cm.Lhs) == 1 && len(cm.Rhs) == 1 {
				if v, ok := ident(cm.Lhs[0]); ok {
					rhs, bind = cm.Rhs[0], "(some "+q(v)+")"
				}
			}
		}
		if u, ok := rhs.(*ast.UnaryExpr); ok && u.Op == token.ARROW {
			if ch, ok := ident(u.X); ok {
				head = fmt.Sprintf(".recv %s %s ", q(ch), bind)
			} else if call, ok := u.X.(*ast.CallExpr); ok && len(call.Args) == 0 && bind == "none" {
				if sel, ok := call.Fun.(*ast.SelectorExpr); ok && sel.Sel.Name == "Done" {
					if ctx, ok := ident(sel.X); ok {
						head = fmt.Sprintf(".ctxDone %s ", q(ctx))
					}
				}
			}
		}
	}
	g.b.WriteString(head)
	g.block(ind, c.Body)
}

func main() {
	if len(os.Args) != 2 {
		fmt.Fprintln(os.Stderr, "usage: chanfacts REPO")
		os.Exit(2)
	}
	f, err := parser.ParseFile(fset, filepath.Join(os.Args[1], "gowrapper.go"), nil, 0)
	if err != nil {
		fmt.Fprintln(os.Stderr, err)
		os.Exit(1)
	}
	g := &gen{}
	g.b.WriteString("/- GENERATED by tools/extract/chanfacts from gowrapper.go — do not edit; regenerated on every run -/\n")
	g.b.WriteString("import CircuitModel.ChanLang\nnamespace CM.Generated.ChanFacts\nopen CM.ChanLang\n")
	names := []string{}
	for _, d := range f.Decls {
		fd, ok := d.(*ast.FuncDecl)
		if !ok {
			continue
		}
		recv := ""
		if fd.Recv != nil && len(fd.Recv.List) == 1 && len(fd.Recv.List[0].Names) == 1 {
			recv = fd.Recv.List[0].Names[0].Name
		}
		names = append(names, fd.Name.Name) // two functions of one name: the Lean file does not compile
		g.b.WriteString(fmt.Sprintf("\ndef %s : Func := { name := %s, recv := %s, params := %s, body := ", fd.Name.Name, q(fd.Name.Name), q(recv), qlist(paramNames(fd.Type))))
		if fd.Body == nil {
			g.b.WriteString(`(.of [.opaque "no body"])`)
		} else {
			g.block(0, fd.Body.List)
		}
		g.b.WriteString(" }\n")
	}
	g.b.WriteString("\n/-- every function of gowrapper.go, in source order -/\ndef program : List Func := [" + strings.Join(names, ", ") + "]\n")
	g.b.WriteString("end CM.Generated.ChanFacts\n")
	fmt.Print(g.b.String())
}

// units_ctor.go — units for the construction / registry / hook / SLO-factory functions (tag "ctor"):
//
//	GoCtor         circuit.go               NewCircuitFromConfig
//	GoCtorSet      circuit.go               Circuit.SetConfigNotThreadSafe ONCE MORE, over slices with identity and capacity
//	                                        (append / make are steps on a heap of backing arrays: unit option sliceOps)
//	GoCircMisc     circuit.go               Circuit.Name, Circuit.Go
//	GoManagerAll   manager.go               Manager.AllCircuits
//	GoTCHook       faststats/timedcheck.go  TimedCheck.afterFunc, TimedCheck.SetTimeAfterFunc
//	GoSloFactory   metrics/responsetimeslo/responsetime.go  Factory.getConfig, Factory.CommandProperties
//	GoRollingStore faststats/rolling_bucket.go  RollingBuckets.Store
package main

import (
	"go/ast"
	"go/token"
	"strings"
)

// units whose `append` / `make([]T, 0, n)` are ACTIONS on a heap of backing arrays (slices have identity and capacity)
var sliceOpsUnits = map[string]bool{"GoCtorSet": true}

func init() {
	units["GoCtor"] = &unit{
		name: "GoCtor", file: "circuit.go", recv: "", funcs: []string{"NewCircuitFromConfig"},
		imports: []string{"CircuitModel.GoCtorPrims"}, open: []string{"CM", "CM.Go", "CM.GoCtor"}, vars: "", monad: "NCM",
		types:      map[string]string{"string": "String", "Config": "CfgB", "*Circuit": "Circuit"},
		structLits: map[string]bool{"Circuit": true},
		mutating:   map[string]bool{"Merge": true, "SetConfigNotThreadSafe": true},
	}
	units["GoCtorSet"] = &unit{
		name: "GoCtorSet", file: "circuit.go", recv: "Circuit", funcs: []string{"SetConfigNotThreadSafe"},
		imports: []string{"CircuitModel.GoCtorSlicePrims"}, open: []string{"CM", "CM.Go", "CM.GoCtorSet"}, vars: "", monad: "SLM",
		types: map[string]string{"Config": "CfgS"},
	}
	units["GoCircMisc"] = &unit{
		name: "GoCircMisc", file: "circuit.go", recv: "Circuit", funcs: []string{"Name", "Go"},
		imports: []string{"CircuitModel.GoCtorPrims"}, open: []string{"CM", "CM.Go", "CM.GoCircMisc"},
		vars: "variable (recv : Recv)", monad: "CMM",
		types: map[string]string{"string": "String", "context.Context": "Ctx", "error": "Err", "goroutineWrapper": "GW",
			"func(context.Context) error": "RunFn", "func(context.Context, error) error": "FbFn"},
	}
	units["GoManagerAll"] = &unit{
		name: "GoManagerAll", file: "manager.go", recv: "Manager", funcs: []string{"AllCircuits"},
		imports: []string{"CircuitModel.GoCtorPrims"}, open: []string{"CM", "CM.Go", "CM.GoManagerAll"},
		vars: "variable (recv : Recv)", monad: "AM",
		types: map[string]string{"[]*Circuit": "(List CircP)"},
	}
	units["GoTCHook"] = &unit{
		name: "GoTCHook", file: "faststats/timedcheck.go", recv: "TimedCheck", funcs: []string{"afterFunc", "SetTimeAfterFunc"},
		imports: []string{"CircuitModel.GoCtorPrims"}, open: []string{"CM", "CM.Go", "CM.GoTCHook", "CM.GoTCHook.Field", "CM.GoTCHook.Call"},
		vars: "", monad: "HM",
		types: map[string]string{"time.Duration": "Int", "func()": "Clo", "*time.Timer": "Timer",
			"func(time.Duration, func()) *time.Timer": "Hook"},
	}
	units["GoSloFactory"] = &unit{
		name: "GoSloFactory", file: "metrics/responsetimeslo/responsetime.go", recv: "Factory", funcs: []string{"getConfig", "CommandProperties"},
		imports: []string{"CircuitModel.GoCtorPrims"}, open: []string{"CM", "CM.Go", "CM.GoSloFactory"}, vars: "", monad: "FAM",
		types:      map[string]string{"string": "String", "Config": "Config", "circuit.Config": "circuit_Config"},
		structLits: map[string]bool{"Config": true, "Tracker": true, "circuit_Config": true, "circuit_MetricsCollectors": true},
		mutating:   map[string]bool{"Merge": true, "SetConfigThreadSafe": true},
	}
	units["GoRollingStore"] = &unit{
		name: "GoRollingStore", file: "faststats/rolling_bucket.go", recv: "RollingBuckets", funcs: []string{"Store"},
		imports: []string{"CircuitModel.GoCtorPrims"}, open: []string{"CM", "CM.Go", "CM.GoRollingStore"}, vars: "", monad: "RSM",
		types: map[string]string{"*RollingBuckets": "RB"},
	}
}

// a parameter that is the target of a mutating method statement (`config.Merge(x)` with Merge listed as mutating) is
// re-bound by the translation of that statement: it needs the same `let mut p := p` prologue as an assigned parameter
func (u *unit) mutatedLocals(b *ast.BlockStmt, asg map[string]bool) {
	ast.Inspect(b, func(n ast.Node) bool {
		if es, ok := n.(*ast.ExprStmt); ok {
			if c, ok := es.X.(*ast.CallExpr); ok {
				if sel, ok := c.Fun.(*ast.SelectorExpr); ok && u.mutating[sel.Sel.Name] {
					if id, ok := sel.X.(*ast.Ident); ok {
						asg[id.Name] = true
					}
				}
			}
		}
		return true
	})
}

// []T{a, b}: a slice literal with positional elements is the list of its elements
func (t *tr) sliceLit(cl *ast.CompositeLit) (string, bool) {
	at, ok := cl.Type.(*ast.ArrayType)
	if !ok || at.Len != nil {
		return "", false
	}
	var els []string
	for _, el := range cl.Elts {
		if _, isKV := el.(*ast.KeyValueExpr); isKV {
			bad(cl, "keyed slice literal")
		}
		els = append(els, t.expr(el))
	}
	return "[" + strings.Join(els, ", ") + "]", true
}

// sliceOps units: append(s, a, b) / append(s, more...) / make([]T, 0, n) are actions (the primitives say what a backing
// array is); returns "" when the call is none of these
func (t *tr) sliceCall(c *ast.CallExpr) string {
	if !sliceOpsUnits[t.u.name] {
		return ""
	}
	id, ok := c.Fun.(*ast.Ident)
	if !ok || t.locals[id.Name] {
		return ""
	}
	switch id.Name {
	case "append":
		if len(c.Args) < 1 {
			bad(c, "append form")
		}
		base := t.atom(c.Args[0])
		if c.Ellipsis != token.NoPos {
			if len(c.Args) != 2 {
				bad(c, "append with spread")
			}
			return "(← goAppendSlice " + base + " " + t.atom(c.Args[1]) + ")"
		}
		var els []string
		for _, a := range c.Args[1:] {
			els = append(els, t.expr(a))
		}
		return "(← goAppend " + base + " [" + strings.Join(els, ", ") + "])"
	case "make":
		if len(c.Args) == 3 {
			if _, ok := c.Args[0].(*ast.ArrayType); ok {
				if bl, ok := c.Args[1].(*ast.BasicLit); ok && bl.Value == "0" {
					return "(← goMakeSlice " + t.atom(c.Args[2]) + ")"
				}
			}
		}
		bad(c, "make form")
	}
	return ""
}

// the package name an import path is known by: its last element, or the one before a major-version suffix
// ("github.com/cep21/circuit/v4" is package circuit)
func importName(p string) string {
	parts := strings.Split(p, "/")
	n := parts[len(parts)-1]
	if len(parts) > 1 && len(n) >= 2 && n[0] == 'v' && strings.Trim(n[1:], "0123456789") == "" {
		n = parts[len(parts)-2]
	}
	return n
}

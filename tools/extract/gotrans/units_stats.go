// units_stats.go — metrics/rolling/rolling.go beyond the event callbacks: the error percentage, the (re)construction of
// the rolling counters, the stat factory's per-name maps and the search of a circuit's collector lists.
package main

func init() {
	stats := func(name, recv, ns, monad string, funcs []string, types map[string]string) *unit {
		return &unit{name: name, file: "metrics/rolling/rolling.go", recv: recv, funcs: funcs,
			imports: []string{"CircuitModel.GoStatsPrims"}, open: []string{"CM", "CM.Go", "CM.GoStats", "CM.GoStats." + ns}, vars: "", monad: monad, types: types}
	}
	// *RunStats: the two readings the percentage is made of (translated once more, over the state with object identities),
	// the percentage, its wall-clock wrapper, the stored configuration, the construction of the eight rolling objects
	units["GoStatsRun"] = stats("GoStatsRun", "RunStats", "R", "SM",
		[]string{"ErrorsAt", "LegitimateAttemptsAt", "ErrorPercentageAt", "ErrorPercentage", "Config", "SetConfigNotThreadSafe"},
		map[string]string{"time.Time": "Int", "int64": "Int", "float64": "GoF64", "RunStatsConfig": "RSCfg"})
	// *FallbackStats: the construction of its three counters
	units["GoStatsFb"] = stats("GoStatsFb", "FallbackStats", "F", "FBM",
		[]string{"SetConfigNotThreadSafe"},
		map[string]string{"FallbackStatsConfig": "FSCfg"})
	// *StatFactory: the per-name maps under the factory's mutex
	u := stats("GoStatsFactory", "StatFactory", "SF", "SFM",
		[]string{"CreateConfig", "RunStats", "FallbackStats"},
		map[string]string{"string": "String", "circuit.Config": "circuit_Config", "*RunStats": "RSP", "*FallbackStats": "FSP"})
	u.mutating = map[string]bool{"Merge": true, "SetConfigNotThreadSafe": true}
	u.structLits = map[string]bool{"circuit_Config": true, "circuit_MetricsCollectors": true}
	units["GoStatsFactory"] = u
	// the search of a circuit's collector lists by dynamic type
	units["GoStatsFind"] = stats("GoStatsFind", "", "Find", "NM",
		[]string{"FindCommandMetrics", "FindFallbackMetrics"},
		map[string]string{"*circuit.Circuit": "CircV", "*RunStats": "RSP", "*FallbackStats": "FSP"})
}

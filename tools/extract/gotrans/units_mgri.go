package main

// units_mgri.go — K6 for the manager (C17): manager.go once more, over interference primitives in which the four
// operations on Manager.mu are steps (the other goroutines move first; a lock that is taken ends the run as "waiting")
// and everything done while the lock is held keeps its sequential meaning on the registry:
//
//	GoMgrI     manager.go   Manager.CreateCircuit, Manager.GetCircuit
//	GoMgrIAll  manager.go   Manager.AllCircuits (the map is ranged over: its own `recv_circuitMap`)
//
// primitives: lean/CircuitModel/GoMgrConcPrims.lean; model: lean/CircuitModel/Conc/Mgr.lean + MgrSolo.lean;
// proofs: lean/CircuitProofs/GoTie/I_Mgr.lean
func init() {
	units["GoMgrI"] = &unit{
		name: "GoMgrI", file: "manager.go", recv: "Manager", funcs: []string{"GetCircuit", "CreateCircuit"},
		imports: []string{"CircuitModel.GoMgrConcPrims"}, open: []string{"CM", "CM.Go", "CM.GoMgrI"}, vars: "", monad: "MM",
		types:    map[string]string{"string": "String", "*Circuit": "CircP", "Config": "LayI", "error": "MErr"},
		mutating: map[string]bool{"Merge": true},
	}
	units["GoMgrIAll"] = &unit{
		name: "GoMgrIAll", file: "manager.go", recv: "Manager", funcs: []string{"AllCircuits"},
		imports: []string{"CircuitModel.GoMgrConcPrims"}, open: []string{"CM", "CM.Go", "CM.GoMgrIAll"}, vars: "", monad: "MM",
		types: map[string]string{"[]*Circuit": "(List CircP)"},
	}
}

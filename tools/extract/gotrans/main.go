// gotrans — translates the BODIES of selected Go functions into Lean `do`-notation over the Go-semantics monad of
// lean/CircuitModel/GoSem.lean, one statement to one statement.  What the translator knows is syntax only:
//
//	statements:  :=  =  var  if (with init / else)  return  defer  expression statements  nested blocks
//	expressions: identifiers, nil/true/false, integer literals, ! - && || == != < <= > >= + - *,
//	             calls, selector paths, &T{...} literals with literal fields, one-line func literals
//
// Everything call-like becomes a monadic action `(← name args)`; && and || over effectful operands become goAnd / goOr
// (short circuit).  The NAME of an action is the mangled selector path: rooted at the receiver `recv_a_b_C`, at an
// imported package `pkg_Func`, at a local value `x.m_Method`, a translated sibling `go_name`, a package-level
// identifier `pkg_name`.  What those names mean is NOT decided here (hand-written primitives file, per unit).
// Anything outside the subset aborts the unit: the generated module then does not compile, the proof obligations that
// import it fail, and the check falls back to searching for a concrete failing input.  The translator never guesses.
//
//	gotrans REPO UNIT > Generated/<Unit>.lean
package main

import (
	"bytes"
	"fmt"
	"go/ast"
	"go/parser"
	"go/printer"
	"go/token"
	"os"
	"path/filepath"
	"sort"
	"strings"
)

type unit struct {
	name    string   // Lean namespace suffix and output module
	file    string   // Go file, relative to the repo
	recv    string   // receiver type name ("" = plain functions)
	funcs   []string // functions / methods to translate
	imports []string // Lean imports
	open    []string // Lean namespaces to open
	vars    string   // `variable` line
	monad   string   // the monad's name with its parameters
	types   map[string]string
	// closures with a statement body are defunctionalised: the variables they capture must be listed here with their type
	captures map[string]string
	// a VALUE receiver that is data (a slice type): every function takes it as its first parameter, named recv
	recvParam string
	// struct types whose literals are translated field by field into a Lean structure instance (absent fields keep the
	// structure's defaults = Go's zero values); all other literals are named constants (lit_T_...)
	structLits map[string]bool
	// pointer-receiver methods that UPDATE the local value they are called on (x.Merge(y) as a statement => x := x.m_Merge y)
	mutating map[string]bool
	// methods of the receiver translated in ANOTHER unit: as a value `r.m` is `recvMethod_m`, as a call `recv_m args`
	methods map[string]bool
	// a local whose address is taken (`var x T; f(&x)`) is desugared into a heap cell (units_errs.go); without this option
	// `&x` of a local is the value `goAddr x` whose meaning the primitives give
	addrCells bool
	// make([]T, n) is an ACTION `goMake_T n` (the primitives may give the new slice an identity), not the value goMakeZeros n
	makeAction bool
	// func() T { return <expr with calls> } is defunctionalised like the statement closures, as a VALUE closure (units_fsnew.go)
	valueClosures bool
	// `&T{...}` and `return &x` (x declared in the body being left) are ALLOCATIONS `(← goNew v)`: the primitives keep an object store
	heap bool
	// func-typed FIELDS of the receiver: `r.F(args)` is a call of the field's value `Call<n>.call (← recv_F) args` (nil: runtime panic)
	funcFields map[string]bool
}

var units = map[string]*unit{
	"GoCircuit": {
		name: "GoCircuit", file: "circuit.go", recv: "Circuit",
		funcs: []string{"IsOpen", "CloseCircuit", "OpenCircuit", "openCircuit", "Run", "Execute", "throttleConcurrentCommands", "isEmptyOrNil",
			"run", "checkSuccess", "checkErrInterrupt", "checkErrBadRequest", "checkErrFailure", "checkErrTimeout", "fallback", "allowNewRun",
			"close", "attemptToOpen", "now", "ConcurrentCommands", "ConcurrentFallbacks"},
		imports: []string{"CircuitModel.GoCircuitPrims"},
		open:    []string{"CM", "CM.Go", "CM.GoCircuit"},
		vars:    "variable {σo σc : Type} [Logic σo σc]",
		monad:   "GM σo σc",
		types: map[string]string{
			"context.Context": "GoCtx", "time.Time": "GoTime", "time.Duration": "Dur", "error": "Err", "bool": "Bool", "int64": "Int", "int": "Int",
			"func(context.Context) error": "RunFn", "func(context.Context, error) error": "FbFn", "func()": "Fn0",
		},
	},
	"GoHOpener": {
		name: "GoHOpener", file: "closers/hystrix/opener.go", recv: "Opener",
		funcs: []string{"Closed", "Opened", "Success", "Prevent", "ErrBadRequest", "ErrInterrupt", "ErrFailure", "ErrTimeout",
			"ErrConcurrencyLimitReject", "ErrShortCircuit", "ShouldOpen"},
		imports: []string{"CircuitModel.GoConsumerPrims"}, open: []string{"CM", "CM.Go", "CM.GoHOpener"}, vars: "", monad: "OM", types: consumerTypes,
	},
	"GoHCloser": {
		name: "GoHCloser", file: "closers/hystrix/closer.go", recv: "Closer",
		funcs: []string{"Opened", "Closed", "Allow", "Success", "ErrBadRequest", "ErrInterrupt", "ErrConcurrencyLimitReject", "ErrShortCircuit",
			"ErrFailure", "ErrTimeout", "ShouldClose"},
		imports: []string{"CircuitModel.GoConsumerPrims"}, open: []string{"CM", "CM.Go", "CM.GoHCloser"}, vars: "", monad: "CLM", types: consumerTypes,
	},
	"GoConsec": {
		name: "GoConsec", file: "closers/simplelogic/closers.go", recv: "ConsecutiveErrOpener",
		funcs: []string{"Closed", "Prevent", "Success", "ErrBadRequest", "ErrInterrupt", "ErrConcurrencyLimitReject", "ErrShortCircuit", "ErrFailure",
			"ErrTimeout", "Opened", "ShouldOpen", "SetConfigThreadSafe", "SetConfigNotThreadSafe"},
		imports: []string{"CircuitModel.GoConsumerPrims"}, open: []string{"CM", "CM.Go", "CM.GoConsec"}, vars: "", monad: "KM", types: consumerTypes,
	},
	"GoRunStats": {
		name: "GoRunStats", file: "metrics/rolling/rolling.go", recv: "RunStats",
		funcs: []string{"Success", "ErrInterrupt", "ErrConcurrencyLimitReject", "ErrFailure", "ErrShortCircuit", "ErrTimeout", "ErrBadRequest",
			"LegitimateAttemptsAt", "ErrorsAt"},
		imports: []string{"CircuitModel.GoConsumerPrims"}, open: []string{"CM", "CM.Go", "CM.GoRunStats"}, vars: "", monad: "RM", types: consumerTypes,
	},
	"GoFbStats": {
		name: "GoFbStats", file: "metrics/rolling/rolling.go", recv: "FallbackStats",
		funcs:   []string{"Success", "ErrConcurrencyLimitReject", "ErrFailure"},
		imports: []string{"CircuitModel.GoConsumerPrims"}, open: []string{"CM", "CM.Go", "CM.GoFbStats"}, vars: "", monad: "FM", types: consumerTypes,
	},
	"GoSlo": {
		name: "GoSlo", file: "metrics/responsetimeslo/responsetime.go", recv: "Tracker",
		funcs: []string{"Success", "failure", "healthy", "ErrFailure", "ErrTimeout", "ErrConcurrencyLimitReject", "ErrShortCircuit", "ErrBadRequest",
			"ErrInterrupt"},
		imports: []string{"CircuitModel.GoConsumerPrims"}, open: []string{"CM", "CM.Go", "CM.GoSlo"}, vars: "", monad: "SM", types: consumerTypes,
	},
}

func init() {
	units["GoLiveCfg"] = &unit{
		name: "GoLiveCfg", file: "config.go", recv: "atomicCircuitConfig", funcs: []string{"reset"},
		imports: []string{"CircuitModel.GoLiveCfgPrims"}, open: []string{"CM", "CM.Go", "CM.GoLiveCfg"}, vars: "", monad: "LM",
		types: map[string]string{"Config": "GoConfig"},
	}
	rollTypes := map[string]string{"time.Time": "Int", "time.Duration": "Int", "int": "Int", "int64": "Int", "func(int)": "ClearFn", "[]int64": "List Int"}
	units["GoRollingBuckets"] = &unit{
		name: "GoRollingBuckets", file: "faststats/rolling_bucket.go", recv: "RollingBuckets", funcs: []string{"Advance"},
		imports: []string{"CircuitModel.GoRollingPrims"}, open: []string{"CM", "CM.Go", "CM.GoRolling", "CM.GoRolling.B"}, vars: "", monad: "QM", types: rollTypes,
	}
	units["GoRollingCounter"] = &unit{
		name: "GoRollingCounter", file: "faststats/rolling_counter.go", recv: "RollingCounter",
		funcs:   []string{"Inc", "RollingSumAt", "TotalSum", "GetBuckets", "clearBucket", "Reset"},
		imports: []string{"CircuitModel.GoRollingPrims"}, open: []string{"CM", "CM.Go", "CM.GoRolling", "CM.GoRolling.C"}, vars: "", monad: "QM", types: rollTypes,
	}
	rpTypes := map[string]string{"time.Time": "Int", "time.Duration": "Int", "int": "Int", "int64": "Int", "func(int)": "ClearFn", "[]time.Duration": "List Int"}
	units["GoRollingBucketsP"] = &unit{ // the same Advance once more, over the percentile ring's state
		name: "GoRollingBucketsP", file: "faststats/rolling_bucket.go", recv: "RollingBuckets", funcs: []string{"Advance"},
		imports: []string{"CircuitModel.GoRollingPercentilePrims"}, open: []string{"CM", "CM.Go", "CM.GoRP", "CM.GoRP.B"}, vars: "", monad: "PM", types: rpTypes,
	}
	units["GoRollingPercentile"] = &unit{
		name: "GoRollingPercentile", file: "faststats/rolling_percentile.go", recv: "RollingPercentile",
		funcs:   []string{"SortedDurations", "clearBucket", "AddDuration", "Reset"},
		imports: []string{"CircuitModel.GoRollingPercentilePrims"}, open: []string{"CM", "CM.Go", "CM.GoRP", "CM.GoRP.P"}, vars: "", monad: "PM", types: rpTypes,
	}
	units["GoDurationsBucket"] = &unit{
		name: "GoDurationsBucket", file: "faststats/rolling_percentile.go", recv: "durationsBucket", funcs: []string{"Durations", "clear", "addDuration"},
		imports: []string{"CircuitModel.GoRollingPercentilePrims"}, open: []string{"CM", "CM.Go", "CM.GoRP", "CM.GoRP.D"}, vars: "", monad: "SLM", types: rpTypes,
	}
	// K6 (interference tie, C14): the same two files once more, over primitives in which every atomic operation is
	// preceded by an arbitrary move of the other goroutines (CircuitModel/GoRCConcPrims*.lean)
	rciTypes := map[string]string{"time.Time": "Int", "time.Duration": "Int", "int": "Int", "int64": "Int", "func(int)": "ClearFn", "[]int64": "List Int"}
	units["GoRCIClear"] = &unit{
		name: "GoRCIClear", file: "faststats/rolling_counter.go", recv: "RollingCounter", funcs: []string{"clearBucket"},
		imports: []string{"CircuitModel.GoRCConcPrims"}, open: []string{"CM", "CM.Go", "CM.GoRCI", "CM.GoRCI.K"}, vars: "", monad: "IM", types: rciTypes,
	}
	units["GoRCIAdv"] = &unit{
		name: "GoRCIAdv", file: "faststats/rolling_bucket.go", recv: "RollingBuckets", funcs: []string{"Advance"},
		imports: []string{"CircuitModel.GoRCConcPrimsB"}, open: []string{"CM", "CM.Go", "CM.GoRCI", "CM.GoRCI.B"}, vars: "", monad: "IM", types: rciTypes,
	}
	units["GoRCIOps"] = &unit{
		name: "GoRCIOps", file: "faststats/rolling_counter.go", recv: "RollingCounter", funcs: []string{"Inc", "RollingSumAt", "TotalSum", "GetBuckets", "Reset"},
		methods: map[string]bool{"clearBucket": true},
		imports: []string{"CircuitModel.GoRCConcPrimsC"}, open: []string{"CM", "CM.Go", "CM.GoRCI", "CM.GoRCI.C"}, vars: "", monad: "IM", types: rciTypes,
	}
	// K6 for the gate (C16, C03): timedcheck.go once more, over interference primitives (atomics AND RWMutex operations are steps)
	units["GoTCI"] = &unit{
		name: "GoTCI", file: "faststats/timedcheck.go", recv: "TimedCheck",
		funcs:   []string{"SleepStart", "resetOpenTimeWithLock", "Check"},
		imports: []string{"CircuitModel.GoTCConcPrims"}, open: []string{"CM", "CM.Go", "CM.GoTCI"}, vars: "", monad: "TM",
		types:    map[string]string{"time.Time": "Int", "time.Duration": "Int", "bool": "Bool", "int64": "Int"},
		captures: map[string]string{"currentVersion": "Int"},
	}
	// K6 for the transitions and the admission (C09, C01): circuit.go once more, over interference primitives
	units["GoCallI"] = &unit{
		name: "GoCallI", file: "circuit.go", recv: "Circuit",
		funcs:   []string{"IsOpen", "openCircuit", "close", "attemptToOpen", "allowNewRun", "checkSuccess", "checkErrFailure"},
		imports: []string{"CircuitModel.GoCallConcPrims"}, open: []string{"CM", "CM.Go", "CM.GoCallI"}, vars: "", monad: "KM",
		types: map[string]string{"context.Context": "Unit", "time.Time": "Int", "time.Duration": "Int", "error": "(Option Nat)", "bool": "Bool"},
	}
	// K6 for the WHOLE run (C01, C04, C05, C09, C10): circuit.go once more, over interference primitives
	units["GoRunI"] = &unit{
		name: "GoRunI", file: "circuit.go", recv: "Circuit",
		funcs: []string{"now", "IsOpen", "allowNewRun", "throttleConcurrentCommands", "run", "checkSuccess", "checkErrInterrupt", "checkErrBadRequest",
			"checkErrFailure", "checkErrTimeout", "attemptToOpen", "openCircuit", "close"},
		imports: []string{"CircuitModel.GoRunConcPrims"}, open: []string{"CM", "CM.Go", "CM.GoRunI"}, vars: "", monad: "RM",
		types: map[string]string{"context.Context": "Ctx", "time.Time": "GoTime", "time.Duration": "Dur", "error": "Err", "bool": "Bool", "int64": "Int",
			"func(context.Context) error": "RunFn", "func()": "Fn0"},
	}
	// K6 for the fallback's bulkhead (C04, C06): `fallback` once more, over interference primitives on the Conc/Gauge state
	units["GoFbI"] = &unit{
		name: "GoFbI", file: "circuit.go", recv: "Circuit", funcs: []string{"now", "fallback"},
		imports: []string{"CircuitModel.GoFbConcPrims"}, open: []string{"CM", "CM.Go", "CM.GoFbI"}, vars: "", monad: "FM",
		types: map[string]string{"context.Context": "Ctx", "time.Time": "GoTime", "time.Duration": "Dur", "error": "Err", "bool": "Bool", "int64": "Int",
			"func(context.Context, error) error": "FbFn"},
	}
	never := []string{"Success", "ErrFailure", "ErrTimeout", "ErrBadRequest", "ErrInterrupt", "ErrConcurrencyLimitReject", "ErrShortCircuit", "Opened", "Closed"}
	units["GoNeverOpens"] = &unit{name: "GoNeverOpens", file: "closers.go", recv: "neverOpens", funcs: append([]string{"Prevent", "ShouldOpen"}, never...),
		imports: []string{"CircuitModel.GoLiveLogicPrims"}, open: []string{"CM", "CM.Go", "CM.GoNever"}, vars: "", monad: "NM", types: consumerTypes}
	units["GoNeverCloses"] = &unit{name: "GoNeverCloses", file: "closers.go", recv: "neverCloses", funcs: append([]string{"Allow", "ShouldClose"}, never...),
		imports: []string{"CircuitModel.GoLiveLogicPrims"}, open: []string{"CM", "CM.Go", "CM.GoNever"}, vars: "", monad: "NM", types: consumerTypes}
	units["GoHOpenerCfg"] = &unit{name: "GoHOpenerCfg", file: "closers/hystrix/opener.go", recv: "Opener", funcs: []string{"SetConfigThreadSafe", "Config"},
		imports: []string{"CircuitModel.GoLiveLogicPrims"}, open: []string{"CM", "CM.Go", "CM.GoHOpenerCfg"}, vars: "", monad: "OCM",
		types: map[string]string{"ConfigureOpener": "ConfigureOpener"}}
	units["GoHCloserCfg"] = &unit{name: "GoHCloserCfg", file: "closers/hystrix/closer.go", recv: "Closer", funcs: []string{"SetConfigThreadSafe", "SetConfigNotThreadSafe", "Config"},
		imports: []string{"CircuitModel.GoLiveLogicPrims"}, open: []string{"CM", "CM.Go", "CM.GoHCloserCfg"}, vars: "", monad: "CCM",
		types: map[string]string{"ConfigureCloser": "ConfigureCloser"}}
	units["GoSloCfg"] = &unit{name: "GoSloCfg", file: "metrics/responsetimeslo/responsetime.go", recv: "Tracker", funcs: []string{"SetConfigThreadSafe", "Config"},
		imports: []string{"CircuitModel.GoLiveLogicPrims"}, open: []string{"CM", "CM.Go", "CM.GoSloCfg"}, vars: "", monad: "SCM",
		types: map[string]string{"Config": "SloConfig"}}
	units["GoSortedDurations"] = &unit{
		name: "GoSortedDurations", file: "faststats/rolling_percentile.go", recv: "SortedDurations", funcs: []string{"Mean", "Min", "Max", "Percentile"},
		recvParam: "List I64",
		imports:   []string{"CircuitModel.GoSortedDurationsPrims"}, open: []string{"CM", "CM.Go", "CM.GoSD"}, vars: "", monad: "DM",
		types: map[string]string{"time.Duration": "I64", "float64": "GoF64"},
	}
	units["GoManager"] = &unit{
		name: "GoManager", file: "manager.go", recv: "Manager", funcs: []string{"GetCircuit", "CreateCircuit", "MustCreateCircuit"},
		imports: []string{"CircuitModel.GoManagerPrims"}, open: []string{"CM", "CM.Go", "CM.GoManager"}, vars: "", monad: "GMM",
		types:    map[string]string{"string": "String", "*Circuit": "CircP", "Config": "Lay", "error": "MErr"},
		mutating: map[string]bool{"Merge": true},
	}
	units["GoSetCfg"] = &unit{
		name: "GoSetCfg", file: "circuit.go", recv: "Circuit", funcs: []string{"SetConfigThreadSafe", "SetConfigNotThreadSafe", "Config"},
		imports: []string{"CircuitModel.GoSetCfgPrims"}, open: []string{"CM", "CM.Go", "CM.GoSetCfg"}, vars: "", monad: "BM",
		types: map[string]string{"Config": "CfgB"},
	}
	units["GoStream"] = &unit{
		name: "GoStream", file: "metriceventstream/metriceventstream.go", recv: "", funcs: []string{"collectCommandMetrics", "generateLatencyTimings"},
		imports: []string{"CircuitModel.GoStreamPrims"}, open: []string{"CM", "CM.Go", "CM.GoStream"}, vars: "", monad: "EM",
		types: map[string]string{"*circuit.Circuit": "CircH", "*streamCmdMetric": "streamCmdMetric", "streamCmdLatency": "streamCmdLatency",
			"faststats.SortedDurations": "Snap"},
		structLits: map[string]bool{"streamCmdMetric": true, "streamCmdLatency": true},
	}
	fan := func(name, recv, ns, elem string, funcs []string) {
		monad := "XM"
		units[name] = &unit{name: name, file: "metrics.go", recv: recv, funcs: funcs, recvParam: "List " + elem,
			imports: []string{"CircuitModel.GoFanoutPrims"}, open: []string{"CM", "CM.Go", "CM." + ns}, vars: "", monad: monad, types: consumerTypes}
	}
	fan("GoFanRun", "RunMetricsCollection", "GoFanRun", "Coll",
		[]string{"Success", "ErrConcurrencyLimitReject", "ErrFailure", "ErrShortCircuit", "ErrTimeout", "ErrBadRequest", "ErrInterrupt"})
	fan("GoFanFb", "FallbackMetricsCollection", "GoFanFb", "FColl", []string{"Success", "ErrConcurrencyLimitReject", "ErrFailure"})
	fan("GoFanCirc", "MetricsCollection", "GoFanCirc", "MColl", []string{"Closed", "Opened"})
	units["GoTimedCheck"] = &unit{
		name: "GoTimedCheck", file: "faststats/timedcheck.go", recv: "TimedCheck",
		funcs:   []string{"SetSleepDuration", "SetEventCountToAllow", "SleepStart", "resetOpenTimeWithLock", "Check"},
		imports: []string{"CircuitModel.GoTimedCheckPrims"}, open: []string{"CM", "CM.Go", "CM.GoTimedCheck"}, vars: "", monad: "TM",
		types:    map[string]string{"time.Time": "Int", "time.Duration": "Int", "bool": "Bool", "int64": "Int"},
		captures: map[string]string{"currentVersion": "Int"},
	}
}

// the consumers take the circuit's callbacks: times and durations are plain nanosecond integers there
var consumerTypes = map[string]string{
	"context.Context": "Unit", "time.Time": "Int", "time.Duration": "Int", "bool": "Bool", "int64": "Int", "int": "Int",
	"ConfigConsecutiveErrOpener": "ConfigConsecutiveErrOpener",
}

var fset = token.NewFileSet()

func src(n ast.Node) string {
	var b bytes.Buffer
	printer.Fprint(&b, fset, n)
	return strings.ReplaceAll(strings.Join(strings.Fields(b.String()), " "), "-/", "- /") // it ends up inside Lean comments
}

type unsupported struct{ msg string }

func bad(n ast.Node, what string) {
	panic(unsupported{fmt.Sprintf("%s: %s: %s", fset.Position(n.Pos()), what, src(n))})
}

var leanKeywords = map[string]bool{"end": true, "open": true, "from": true, "at": true, "fun": true, "do": true, "then": true, "else": true, "if": true,
	"let": true, "have": true, "show": true, "in": true, "by": true, "match": true, "with": true, "where": true, "mut": true, "return": true,
	"instance": true, "class": true, "structure": true, "def": true, "theorem": true, "namespace": true, "section": true, "variable": true,
	"import": true, "export": true, "private": true, "protected": true, "local": true, "for": true, "unless": true, "try": true, "catch": true,
	"finally": true, "break": true, "continue": true, "Type": true, "Prop": true, "Sort": true, "set": true, "get": true, "run": true, "fn": true,
	"recv": true, "using": true, "calc": true, "example": true, "abbrev": true, "inductive": true, "deriving": true, "extends": true, "nomatch": true, "exists": true, "forall": true, "from_": true, "suffices": true, "obtain": true, "macro": true, "syntax": true, "notation": true, "universe": true, "mutual": true, "termination_by": true, "at_": true}

func lname(s string) string {
	if s == "_" {
		return "_"
	}
	if leanKeywords[s] || strings.HasPrefix(s, "go_") || strings.HasPrefix(s, "recv_") || strings.HasPrefix(s, "pkg_") {
		return "«v_" + s + "»"
	}
	return s
}

type tr struct {
	u       *unit
	recvVar string
	pkgs    map[string]bool // imported package names
	funcs   map[string]bool // translated siblings
	locals  map[string]bool
	calls   map[string]bool // siblings this function calls
	tmp     int
	fname   string
	lits    []string // generated definitions of this function's closures (emitted before it)
	litKeys []string // their names, for the apply function
	litCaps [][]string
	selfRec bool // the function calls itself: it gets a fuel parameter
	// locals declared (:= / var) in the body being translated: each execution of the body has its own
	declared map[string]bool
	// inside a closure WITH a result (an "object closure", see objClosure): every `return e` is `return (e, <the closure as this call leaves it>)`
	retWrap string
	litRes  string // result type of this function's object closure ("" = none)
}

func (t *tr) ltype(e ast.Expr) string {
	if el, ok := e.(*ast.Ellipsis); ok {
		return "(List " + t.ltype(el.Elt) + ")" // a variadic parameter is a slice
	}
	s := src(e)
	if l, ok := t.u.types[s]; ok {
		return l
	}
	bad(e, "type outside the table")
	return ""
}

func hasEffect(s string) bool { return strings.Contains(s, "←") }

// flatten a selector chain: root identifier + path
func flatten(e ast.Expr) (*ast.Ident, []string, bool) {
	var path []string
	for {
		switch x := e.(type) {
		case *ast.SelectorExpr:
			path = append([]string{x.Sel.Name}, path...)
			e = x.X
		case *ast.Ident:
			return x, path, true
		default:
			return nil, nil, false
		}
	}
}

func (t *tr) args(l []ast.Expr) string {
	var b strings.Builder
	for _, a := range l {
		b.WriteString(" ")
		b.WriteString(t.atom(a))
	}
	return b.String()
}

// atom: an expression in argument position
func (t *tr) atom(e ast.Expr) string {
	s := t.expr(e)
	if strings.ContainsAny(s, " ") && !(strings.HasPrefix(s, "(") && balanced(s)) {
		return "(" + s + ")"
	}
	return s
}

func balanced(s string) bool {
	// is the leading "(" closed by the final ")"?
	d := 0
	for i, c := range s {
		if c == '(' {
			d++
		} else if c == ')' {
			d--
			if d == 0 && i != len(s)-1 {
				return false
			}
		}
	}
	return d == 0 && strings.HasSuffix(s, ")")
}

func (t *tr) isNilIdent(e ast.Expr) bool {
	id, ok := e.(*ast.Ident)
	return ok && id.Name == "nil" && !t.locals["nil"]
}

func (t *tr) expr(e ast.Expr) string {
	if s, ok := t.varsExpr(e); ok { // units_vars.go: declines for every unit but its own
		return s
	}
	switch x := e.(type) {
	case *ast.ParenExpr:
		return t.expr(x.X)
	case *ast.BasicLit:
		switch x.Kind {
		case token.INT, token.FLOAT:
			return x.Value
		case token.STRING:
			if strings.HasPrefix(x.Value, "\"") && !strings.ContainsAny(x.Value[1:len(x.Value)-1], "\\\"") {
				return x.Value
			}
		}
		bad(e, "literal kind")
	case *ast.Ident:
		switch {
		case x.Name == "nil":
			return "GoNil.nil"
		case x.Name == "true" || x.Name == "false":
			return x.Name
		case x.Name == t.recvVar && t.recvVar != "":
			return "recv"
		case t.locals[x.Name]:
			return lname(x.Name)
		default:
			return "pkg_" + x.Name
		}
	case *ast.UnaryExpr:
		switch x.Op {
		case token.NOT:
			return "(!" + t.atom(x.X) + ")"
		case token.SUB:
			if bl, ok := x.X.(*ast.BasicLit); ok && bl.Kind == token.INT {
				return "(-" + bl.Value + ")"
			}
			return "(-" + t.atom(x.X) + ")"
		case token.AND:
			if cl, ok := x.X.(*ast.CompositeLit); ok {
				if t.u.heap {
					return "(← goNew " + t.composite(cl) + ")" // a fresh object
				}
				return t.composite(cl)
			}
			if id, ok := x.X.(*ast.Ident); ok && t.locals[id.Name] {
				return "(goAddr " + lname(id.Name) + ")" // &x of a local variable: the primitives say what a pointer to it is
			}
		}
		bad(e, "unary operator")
	case *ast.CompositeLit:
		return t.composite(x)
	case *ast.BinaryExpr:
		switch x.Op {
		case token.EQL, token.NEQ:
			var other ast.Expr
			if t.isNilIdent(x.Y) {
				other = x.X
			} else if t.isNilIdent(x.X) {
				other = x.Y
			}
			if other != nil {
				if x.Op == token.EQL {
					return "(isNil " + t.atom(other) + ")"
				}
				return "(!(isNil " + t.atom(other) + "))"
			}
			if x.Op == token.EQL {
				return "(" + t.atom(x.X) + " == " + t.atom(x.Y) + ")"
			}
			return "(" + t.atom(x.X) + " != " + t.atom(x.Y) + ")"
		case token.LAND, token.LOR:
			a, b := t.expr(x.X), t.expr(x.Y)
			if !hasEffect(a) && !hasEffect(b) {
				op := "&&"
				if x.Op == token.LOR {
					op = "||"
				}
				return "(" + paren(a) + " " + op + " " + paren(b) + ")"
			}
			f := "goAnd"
			if x.Op == token.LOR {
				f = "goOr"
			}
			return "(← " + f + " (do return " + a + ") (do return " + b + "))"
		case token.LSS, token.LEQ, token.GTR, token.GEQ:
			return "(decide (" + t.atom(x.X) + " " + x.Op.String() + " " + t.atom(x.Y) + "))"
		case token.ADD, token.SUB, token.MUL:
			return "(" + t.atom(x.X) + " " + x.Op.String() + " " + t.atom(x.Y) + ")"
		case token.REM:
			return "(goMod " + t.atom(x.X) + " " + t.atom(x.Y) + ")" // Go's remainder (sign of the dividend); the primitives say so
		case token.QUO:
			return "(goDiv " + t.atom(x.X) + " " + t.atom(x.Y) + ")" // Go's integer division truncates; the primitives say so
		}
		bad(e, "binary operator")
	case *ast.SelectorExpr:
		root, path, ok := flatten(x)
		if !ok {
			return paren(t.expr(x.X)) + ".f_" + x.Sel.Name // a field of a computed value
		}
		switch {
		case root.Name == t.recvVar && t.recvVar != "" && len(path) == 1 && (t.funcs[path[0]] || t.u.methods[path[0]]):
			return "recvMethod_" + path[0] // a method value (bound to the receiver)
		case root.Name == t.recvVar && t.recvVar != "":
			return "(← recv_" + strings.Join(path, "_") + ")" // a field read: may be a word shared with other goroutines
		case t.locals[root.Name]:
			return "(" + lname(root.Name) + ").f_" + strings.Join(path, "_")
		case t.pkgs[root.Name]:
			return root.Name + "_" + strings.Join(path, "_")
		}
		bad(e, "selector root is neither the receiver, a local nor an imported package")
	case *ast.CallExpr:
		return t.call(x)
	case *ast.IndexExpr:
		if id, ok := x.X.(*ast.Ident); ok && id.Name == t.recvVar && t.recvVar != "" && t.u.recvParam != "" {
			return "(← goIndex recv " + t.atom(x.Index) + ")" // an element of the value receiver (out of range: Go panics)
		}
		if root, path, ok := flatten(x.X); ok && root.Name == t.recvVar && t.recvVar != "" && len(path) > 0 {
			return "(← recv_" + strings.Join(path, "_") + "_at " + t.atom(x.Index) + ")" // an element of a receiver field (map or slice)
		}
		if id, ok := x.X.(*ast.Ident); ok && t.locals[id.Name] {
			return "(goAt " + lname(id.Name) + " " + t.atom(x.Index) + ")" // an element of a local slice
		}
		bad(e, "index expression")
	case *ast.TypeAssertExpr:
		// x.(T): (value, ok) — only the two-value form occurs in assignments of the translated subset
		if x.Type == nil {
			bad(e, "type switch")
		}
		tn := strings.NewReplacer("*", "", ".", "_").Replace(src(x.Type))
		return "(← as_" + tn + " " + t.atom(x.X) + ")"
	case *ast.FuncLit:
		// a one-line pure closure: func(params) T { return <expr without calls> }
		if len(x.Body.List) == 1 {
			if r, ok := x.Body.List[0].(*ast.ReturnStmt); ok && len(r.Results) == 1 {
				saved := t.locals
				t.locals = map[string]bool{}
				for k := range saved {
					t.locals[k] = true
				}
				var ps []string
				for _, f := range x.Type.Params.List {
					if len(f.Names) == 0 {
						ps = append(ps, "_")
					}
					for _, n := range f.Names {
						t.locals[n.Name] = true
						ps = append(ps, lname(n.Name))
					}
				}
				body := t.expr(r.Results[0])
				t.locals = saved
				if hasEffect(body) && len(ps) == 0 && t.u.valueClosures {
					return t.closureV(x)
				}
				if hasEffect(body) {
					bad(e, "closure body has calls")
				}
				return "(some (fun " + strings.Join(ps, " ") + " => " + body + "))"
			}
		}
		if len(x.Type.Params.List) == 0 && x.Type.Results == nil {
			return t.closure(x)
		}
		bad(e, "func literal outside the supported shapes")
	}
	bad(e, "expression form")
	return ""
}

// closure: func() { statements } — becomes a generated definition over its captured variables plus a first-order
// value naming it (the primitives decide what registering / running such a value means)
func (t *tr) closure(fl *ast.FuncLit) string {
	if t.litRes != "" || t.retWrap != "" {
		bad(fl, "a closure next to / inside an object closure")
	}
	var caps []string
	seen := map[string]bool{}
	ast.Inspect(fl.Body, func(n ast.Node) bool {
		if id, ok := n.(*ast.Ident); ok && t.locals[id.Name] && !seen[id.Name] {
			seen[id.Name] = true
			caps = append(caps, id.Name)
		}
		return true
	})
	sub := &tr{u: t.u, recvVar: t.recvVar, pkgs: t.pkgs, funcs: t.funcs, locals: map[string]bool{}, calls: t.calls, fname: t.fname, declared: map[string]bool{}}
	var params []string
	for _, c := range caps {
		ty, ok := t.u.captures[c]
		if !ok {
			bad(fl, "closure captures "+c+", whose type is not listed")
		}
		sub.locals[c] = true
		params = append(params, fmt.Sprintf("(%s : %s)", lname(c), ty))
	}
	var body []string
	sub.stmts(fl.Body.List, "  ", &body)
	if n := len(fl.Body.List); n == 0 || !isReturn(fl.Body.List[n-1]) {
		body = append(body, "  return ()")
	}
	if len(sub.lits) > 0 {
		bad(fl, "nested closures")
	}
	name := fmt.Sprintf("%s_lit%d", t.fname, len(t.lits)+1)
	t.lits = append(t.lits, fmt.Sprintf("/-- closure #%d of %s: %s -/\ndef go_%s %s : %s Unit := fn do\n%s\n",
		len(t.lits)+1, t.fname, src(fl), name, strings.Join(params, " "), t.u.monad, strings.Join(body, "\n")))
	t.litKeys = append(t.litKeys, name)
	t.litCaps = append(t.litCaps, caps)
	var vals []string
	for _, c := range caps {
		vals = append(vals, lname(c))
	}
	return fmt.Sprintf("(Clo.mk \"%s\" [%s])", name, strings.Join(vals, ", "))
}

// objClosure: `return func() T { statements }` — the closure a constructor-of-constructors hands out.  The variables it
// captures are reachable through it alone once its maker has returned (checked: it is the operand of a `return`, it is
// the maker's only closure, `&` of a maker's variable is outside the subset), so the closure is a little object: a
// first-order value (generated name + the CURRENT values of its captured variables), and applying it
// (`go_<maker>_apply : Clo → M (T × Clo)`) gives its result AND the closure as the call leaves it — a write to a
// captured variable inside the body is visible to the next call, exactly as in Go.
func (t *tr) objClosure(fl *ast.FuncLit) string {
	if len(fl.Type.Params.List) != 0 || fl.Type.Results == nil || len(fl.Type.Results.List) != 1 || len(fl.Type.Results.List[0].Names) != 0 {
		bad(fl, "object closure signature")
	}
	if len(t.lits) != 0 || t.retWrap != "" || t.litRes != "" {
		bad(fl, "more than one closure next to an object closure")
	}
	var caps []string
	seen := map[string]bool{}
	ast.Inspect(fl.Body, func(n ast.Node) bool {
		if id, ok := n.(*ast.Ident); ok && t.locals[id.Name] && !seen[id.Name] {
			seen[id.Name] = true
			caps = append(caps, id.Name)
		}
		return true
	})
	name := fmt.Sprintf("%s_lit%d", t.fname, 1)
	sub := &tr{u: t.u, recvVar: t.recvVar, pkgs: t.pkgs, funcs: t.funcs, locals: map[string]bool{}, calls: t.calls, fname: t.fname, declared: map[string]bool{}}
	var params, vals, body []string
	for _, c := range caps {
		ty, ok := t.u.captures[c]
		if !ok {
			bad(fl, "closure captures "+c+", whose type is not listed")
		}
		sub.locals[c] = true
		params = append(params, fmt.Sprintf("(%s : %s)", lname(c), ty))
		vals = append(vals, lname(c))
		body = append(body, fmt.Sprintf("  let mut %s := %s", lname(c), lname(c)))
	}
	self := fmt.Sprintf("Clo.mk \"%s\" [%s]", name, strings.Join(vals, ", "))
	sub.retWrap = self
	res := t.ltype(fl.Type.Results.List[0].Type)
	sub.stmts(fl.Body.List, "  ", &body)
	if n := len(fl.Body.List); n == 0 || !isReturn(fl.Body.List[n-1]) {
		bad(fl, "value closure without a final return")
	}
	if len(sub.lits) > 0 {
		bad(fl, "nested closures")
	}
	t.lits = append(t.lits, fmt.Sprintf("/-- closure #1 of %s (result, and the closure as the call leaves it): %s -/\ndef go_%s %s : %s (%s × Clo) := fn do\n%s\n",
		t.fname, src(fl), name, strings.Join(params, " "), t.u.monad, res, strings.Join(body, "\n")))
	t.litKeys = append(t.litKeys, name)
	t.litCaps = append(t.litCaps, caps)
	t.litRes = res
	return "(" + self + ")"
}

func paren(s string) string {
	if strings.ContainsAny(s, " ") && !(strings.HasPrefix(s, "(") && balanced(s)) {
		return "(" + s + ")"
	}
	return s
}

// &T{k: literal, ...}: the name carries the type and every literal (non-string) field
func (t *tr) composite(cl *ast.CompositeLit) string {
	if s, ok := t.sliceLit(cl); ok { // []T{a, b} (units_ctor.go)
		return s
	}
	var tname string
	switch ty := cl.Type.(type) {
	case *ast.MapType:
		return t.mapLit(cl)
	case *ast.ArrayType:
		if ty.Len == nil { // a slice literal []T{a, b}: the list of its elements, in source order
			var els []string
			for _, el := range cl.Elts {
				if _, isKV := el.(*ast.KeyValueExpr); isKV {
					bad(cl, "keyed slice literal")
				}
				els = append(els, t.expr(el))
			}
			return "[" + strings.Join(els, ", ") + "]"
		}
	case *ast.Ident:
		tname = ty.Name
	case *ast.SelectorExpr:
		if p, ok := ty.X.(*ast.Ident); ok && t.pkgs[p.Name] {
			tname = p.Name + "_" + ty.Sel.Name
		}
	}
	if tname == "" {
		bad(cl, "composite literal type")
	}
	if t.u.structLits[tname] {
		// field by field, in source order (Go evaluates the values in that order)
		var fs []string
		for _, el := range cl.Elts {
			kv, ok := el.(*ast.KeyValueExpr)
			if !ok {
				bad(cl, "positional composite literal")
			}
			k, ok := kv.Key.(*ast.Ident)
			if !ok {
				bad(cl, "composite literal key")
			}
			fs = append(fs, lname(k.Name)+" := "+t.expr(kv.Value))
		}
		return "({ " + strings.Join(fs, ", ") + " } : " + tname + ")"
	}
	name := "lit_" + tname
	for _, el := range cl.Elts {
		kv, ok := el.(*ast.KeyValueExpr)
		if !ok {
			bad(cl, "positional composite literal")
		}
		k, ok := kv.Key.(*ast.Ident)
		if !ok {
			bad(cl, "composite literal key")
		}
		switch v := kv.Value.(type) {
		case *ast.Ident:
			if v.Name != "true" && v.Name != "false" {
				bad(cl, "composite literal value")
			}
			name += "_" + k.Name + "_" + v.Name
		case *ast.BasicLit:
			if v.Kind == token.INT {
				name += "_" + k.Name + "_" + v.Value
			} else if v.Kind != token.STRING {
				bad(cl, "composite literal value")
			}
		default:
			bad(cl, "composite literal value")
		}
	}
	return name
}

func (t *tr) call(c *ast.CallExpr) string {
	if s := t.sliceCall(c); s != "" { // units whose slices have identity (units_ctor.go)
		return s
	}
	if id, ok := c.Fun.(*ast.Ident); ok && !t.locals[id.Name] {
		switch id.Name {
		case "append":
			// append(s, a, b) / append(s, more...)
			if len(c.Args) >= 1 {
				base := t.atom(c.Args[0])
				if c.Ellipsis != token.NoPos {
					if len(c.Args) != 2 {
						bad(c, "append with spread")
					}
					return "(" + base + " ++ " + t.atom(c.Args[1]) + ")"
				}
				var els []string
				for _, a := range c.Args[1:] {
					els = append(els, t.expr(a))
				}
				return "(" + base + " ++ [" + strings.Join(els, ", ") + "])"
			}
		case "panic":
			if len(c.Args) == 1 {
				return "(← goPanic " + t.atom(c.Args[0]) + ")"
			}
		case "make":
			if len(c.Args) >= 1 {
				if _, ok := c.Args[0].(*ast.MapType); ok {
					return "goMakeMap"
				}
			}
			// make([]T, 0, cap): the empty slice (the capacity is not observable)
			if len(c.Args) >= 2 {
				if _, ok := c.Args[0].(*ast.ArrayType); ok {
					if bl, ok := c.Args[1].(*ast.BasicLit); ok && bl.Value == "0" {
						return "[]"
					}
					if el, isId := c.Args[0].(*ast.ArrayType).Elt.(*ast.Ident); len(c.Args) == 2 && t.u.makeAction && isId {
						return "(← goMake_" + el.Name + " " + t.atom(c.Args[1]) + ")" // n zero values, allocated now
					}
					if len(c.Args) == 2 {
						return "(goMakeZeros " + t.atom(c.Args[1]) + ")" // n zero values
					}
				}
			}
			bad(c, "make form")
		case "len":
			if len(c.Args) == 1 {
				return "(goLen " + t.atom(c.Args[0]) + ")"
			}
		}
	}
	if c.Ellipsis != token.NoPos {
		// f(a, rest...) where the last argument IS the slice: it is passed as the list it is
		if _, ok := c.Args[len(c.Args)-1].(*ast.Ident); !ok {
			bad(c, "variadic call")
		}
	}
	if ix, ok := c.Fun.(*ast.IndexExpr); ok {
		if root, path, ok := flatten(ix.X); ok && root.Name == t.recvVar && t.recvVar != "" && len(path) > 0 {
			return "(← recv_" + strings.Join(path, "_") + "_call " + t.atom(ix.Index) + t.args(c.Args) + ")"
		}
	}
	switch f := c.Fun.(type) {
	case *ast.Ident:
		switch {
		case t.locals[f.Name]: // a func-typed VALUE
			return fmt.Sprintf("(← Call%d.call %s%s)", len(c.Args), lname(f.Name), t.args(c.Args))
		case t.funcs[f.Name] && t.u.recv == "":
			t.calls[f.Name] = true
			return "(← go_" + f.Name + t.args(c.Args) + ")"
		default:
			return "(← pkg_" + f.Name + t.args(c.Args) + ")"
		}
	case *ast.SelectorExpr:
		if ix, isIx := f.X.(*ast.IndexExpr); isIx {
			// a method of an element of a receiver field: r.buckets[idx].Add(1)
			if root, path, ok := flatten(ix.X); ok && root.Name == t.recvVar && t.recvVar != "" && len(path) > 0 {
				return "(← recv_" + strings.Join(path, "_") + "_at_" + f.Sel.Name + " " + t.atom(ix.Index) + t.args(c.Args) + ")"
			}
		}
		root, path, ok := flatten(f)
		if !ok {
			// a method of a computed value: c.now().Sub(startTime)
			return "(← " + paren(t.expr(f.X)) + ".m_" + f.Sel.Name + t.args(c.Args) + ")"
		}
		switch {
		case root.Name == t.recvVar && t.recvVar != "":
			if len(path) == 1 && path[0] == t.fname {
				t.selfRec = true
				return "(← go_" + path[0] + " fuel" + t.args(c.Args) + ")"
			}
			if len(path) == 1 && t.u.funcFields[path[0]] {
				return fmt.Sprintf("(← Call%d.call (← recv_%s)%s)", len(c.Args), path[0], t.args(c.Args))
			}
			if len(path) == 1 && t.funcs[path[0]] {
				t.calls[path[0]] = true
				if t.u.recvParam != "" {
					return "(← go_" + path[0] + " recv" + t.args(c.Args) + ")"
				}
				return "(← go_" + path[0] + t.args(c.Args) + ")"
			}
			return "(← recv_" + strings.Join(path, "_") + t.args(c.Args) + ")"
		case t.locals[root.Name]:
			return "(← (" + lname(root.Name) + ").m_" + strings.Join(path, "_") + t.args(c.Args) + ")"
		case t.pkgs[root.Name]:
			return "(← " + root.Name + "_" + strings.Join(path, "_") + t.args(c.Args) + ")"
		}
	}
	bad(c, "call target")
	return ""
}

// literalArgs: are all arguments integer / boolean literals?
func literalArgs(l []ast.Expr) bool {
	for _, a := range l {
		switch x := a.(type) {
		case *ast.BasicLit:
		case *ast.Ident:
			if x.Name != "true" && x.Name != "false" {
				return false
			}
		case *ast.UnaryExpr:
			if _, ok := x.X.(*ast.BasicLit); !ok || x.Op != token.SUB {
				return false
			}
		default:
			return false
		}
	}
	return true
}

func (t *tr) stmts(l []ast.Stmt, ind string, out *[]string) {
	for _, s := range l {
		t.stmt(s, ind, out)
	}
}

func (t *tr) emit(out *[]string, ind, s string) { *out = append(*out, ind+s) }

func (t *tr) stmt(s ast.Stmt, ind string, out *[]string) {
	if t.varsStmt(s, ind, out) { // units_vars.go: declines for every unit but its own
		return
	}
	switch x := s.(type) {
	case *ast.BlockStmt:
		t.stmts(x.List, ind, out)
	case *ast.ExprStmt:
		c, ok := x.X.(*ast.CallExpr)
		if !ok {
			bad(s, "expression statement")
		}
		if sel, ok := c.Fun.(*ast.SelectorExpr); ok && sel.Sel.Name == "Slice" && len(c.Args) == 2 {
			if pk, ok := sel.X.(*ast.Ident); ok && pk.Name == "sort" && t.pkgs["sort"] {
				// sort.Slice(x, func(i, j int) bool { return x[i] OP x[j] }): x sorted in place by the VALUE order OP
				x0, isId := c.Args[0].(*ast.Ident)
				fl, isFn := c.Args[1].(*ast.FuncLit)
				if isId && isFn && t.locals[x0.Name] && len(fl.Body.List) == 1 && len(fl.Type.Params.List) >= 1 {
					var ps []string
					for _, f := range fl.Type.Params.List {
						for _, n := range f.Names {
							ps = append(ps, n.Name)
						}
					}
					if r, ok := fl.Body.List[0].(*ast.ReturnStmt); ok && len(r.Results) == 1 && len(ps) == 2 {
						if be, ok := r.Results[0].(*ast.BinaryExpr); ok {
							l, lok := be.X.(*ast.IndexExpr)
							rr, rok := be.Y.(*ast.IndexExpr)
							if lok && rok && src(l.X) == x0.Name && src(rr.X) == x0.Name && src(l.Index) == ps[0] && src(rr.Index) == ps[1] {
								switch be.Op {
								case token.LSS, token.GTR, token.LEQ, token.GEQ:
									t.emit(out, ind, lname(x0.Name)+" := goSortBy (fun a b => decide (a "+be.Op.String()+" b)) "+lname(x0.Name))
									return
								}
							}
						}
					}
				}
				bad(s, "sort.Slice outside the recognised shape")
			}
		}
		if sel, ok := c.Fun.(*ast.SelectorExpr); ok && t.u.mutating[sel.Sel.Name] {
			if id, ok := sel.X.(*ast.Ident); ok && t.locals[id.Name] {
				// a pointer-receiver method updating the local it is called on
				t.emit(out, ind, lname(id.Name)+" := (← ("+lname(id.Name)+").m_"+sel.Sel.Name+t.args(c.Args)+")")
				return
			}
		}
		t.emit(out, ind, "let _ := "+t.call(c))
	case *ast.DeclStmt:
		gd, ok := x.Decl.(*ast.GenDecl)
		if !ok || gd.Tok != token.VAR {
			bad(s, "declaration")
		}
		for _, sp := range gd.Specs {
			vs := sp.(*ast.ValueSpec)
			if vs.Type == nil || len(vs.Values) != 0 {
				bad(s, "var declaration with initialiser")
			}
			for _, n := range vs.Names {
				t.locals[n.Name] = true
				t.declared[n.Name] = true
				t.emit(out, ind, fmt.Sprintf("let mut %s : %s := GoZero.zero", lname(n.Name), t.ltype(vs.Type)))
			}
		}
	case *ast.AssignStmt:
		if (x.Tok == token.ADD_ASSIGN || x.Tok == token.SUB_ASSIGN) && len(x.Lhs) == 1 && len(x.Rhs) == 1 {
			if id, ok := x.Lhs[0].(*ast.Ident); ok && t.locals[id.Name] {
				op := "+"
				if x.Tok == token.SUB_ASSIGN {
					op = "-"
				}
				t.emit(out, ind, lname(id.Name)+" := "+lname(id.Name)+" "+op+" "+t.atom(x.Rhs[0]))
				return
			}
		}
		if len(x.Lhs) == 2 && len(x.Rhs) == 1 {
			if ix, ok := x.Rhs[0].(*ast.IndexExpr); ok {
				// v, ok := h.m[k]
				if root, path, ok := flatten(ix.X); ok && root.Name == t.recvVar && t.recvVar != "" && len(path) > 0 {
					t.tmp++
					tmp := fmt.Sprintf("tmp__%d", t.tmp)
					t.emit(out, ind, "let "+tmp+" := (← recv_"+strings.Join(path, "_")+"_lookup "+t.atom(ix.Index)+")")
					for i, l := range x.Lhs {
						id, ok := l.(*ast.Ident)
						if !ok {
							bad(s, "assignment target")
						}
						if id.Name == "_" {
							continue
						}
						proj := []string{".1", ".2"}[i]
						if x.Tok == token.DEFINE && !t.locals[id.Name] {
							t.locals[id.Name] = true
							t.emit(out, ind, "let mut "+lname(id.Name)+" := "+tmp+proj)
						} else {
							t.emit(out, ind, lname(id.Name)+" := "+tmp+proj)
						}
					}
					return
				}
			}
		}
		if x.Tok == token.ASSIGN && len(x.Lhs) == 1 && len(x.Rhs) == 1 {
			if ix, ok := x.Lhs[0].(*ast.IndexExpr); ok {
				if root, path, ok := flatten(ix.X); ok && root.Name == t.recvVar && t.recvVar != "" && len(path) > 0 {
					// h.m[k] = v
					t.emit(out, ind, "let _ := (← recv_"+strings.Join(path, "_")+"_store "+t.atom(ix.Index)+" "+t.atom(x.Rhs[0])+")")
					return
				}
			}
		}
		if x.Tok == token.ASSIGN && len(x.Lhs) == 1 && len(x.Rhs) == 1 {
			if ix, ok := x.Lhs[0].(*ast.IndexExpr); ok {
				if id, ok := ix.X.(*ast.Ident); ok && t.locals[id.Name] {
					// an element of a local slice
					t.emit(out, ind, lname(id.Name)+" := goSet "+lname(id.Name)+" "+t.atom(ix.Index)+" "+t.atom(x.Rhs[0]))
					return
				}
			}
		}
		if x.Tok != token.DEFINE && x.Tok != token.ASSIGN {
			bad(s, "assignment operator")
		}
		if len(x.Rhs) != 1 {
			bad(s, "parallel assignment")
		}
		rhs := t.expr(x.Rhs[0])
		if len(x.Lhs) == 1 && x.Tok == token.ASSIGN {
			if root, path, ok := flatten(x.Lhs[0]); ok && len(path) > 0 && root.Name == t.recvVar && t.recvVar != "" {
				// a write to a field of the receiver
				t.emit(out, ind, "let _ := (← recv_"+strings.Join(path, "_")+"_set "+paren(rhs)+")")
				return
			}
		}
		names := make([]string, len(x.Lhs))
		for i, l := range x.Lhs {
			id, ok := l.(*ast.Ident)
			if !ok {
				bad(s, "assignment target")
			}
			names[i] = id.Name
		}
		assign := func(name, val string) {
			switch {
			case name == "_":
				t.emit(out, ind, "let _ := "+val)
			case x.Tok == token.DEFINE && !t.locals[name]:
				t.locals[name] = true
				t.declared[name] = true
				t.emit(out, ind, "let mut "+lname(name)+" := "+val)
			case x.Tok == token.DEFINE:
				t.emit(out, ind, lname(name)+" := "+val) // redeclared in a multi-assignment: same variable in this subset
			default:
				if !t.locals[name] {
					bad(s, "assignment to a non-local")
				}
				t.emit(out, ind, lname(name)+" := "+val)
			}
		}
		switch len(names) {
		case 1:
			assign(names[0], rhs)
		case 2:
			t.tmp++
			tmp := fmt.Sprintf("tmp__%d", t.tmp)
			t.emit(out, ind, "let "+tmp+" := "+rhs)
			assign(names[0], tmp+".1")
			assign(names[1], tmp+".2")
		default:
			bad(s, "more than two results")
		}
	case *ast.RangeStmt:
		// for i := range <expr> { ... }: the indices
		if ki, ok := x.Key.(*ast.Ident); ok && x.Value == nil && ki.Name != "_" && x.Tok == token.DEFINE {
			t.locals[ki.Name] = true
			t.emit(out, ind, "for "+lname(ki.Name)+" in goRange (goLen "+t.atom(x.X)+") do")
			t.block(x.Body.List, ind+"  ", out)
			return
		}
		// for _, v := range <expr> { ... }
		k, kok := x.Key.(*ast.Ident)
		v, vok := x.Value.(*ast.Ident)
		if !kok || k.Name != "_" || !vok || x.Tok != token.DEFINE {
			bad(s, "range form")
		}
		coll := t.expr(x.X)
		t.locals[v.Name] = true
		t.emit(out, ind, "for "+lname(v.Name)+" in "+coll+" do")
		t.block(x.Body.List, ind+"  ", out)
	case *ast.ForStmt:
		// for i := 0; i < A [&& B]; i++ { ... }   (A must not change inside the loop: it is evaluated once here)
		as, ok := x.Init.(*ast.AssignStmt)
		if !ok || as.Tok != token.DEFINE || len(as.Lhs) != 1 || len(as.Rhs) != 1 {
			bad(s, "for-loop init")
		}
		// for i := len(X) - 1; i >= 0; i-- { ... }: the indices of X from last to first
		if be, ok := as.Rhs[0].(*ast.BinaryExpr); ok && be.Op == token.SUB {
			one, isOne := be.Y.(*ast.BasicLit)
			lc, isLen := be.X.(*ast.CallExpr)
			iv, isId := as.Lhs[0].(*ast.Ident)
			cond, isCond := x.Cond.(*ast.BinaryExpr)
			post, isPost := x.Post.(*ast.IncDecStmt)
			if isOne && one.Value == "1" && isLen && isId && isCond && isPost && post.Tok == token.DEC && cond.Op == token.GEQ {
				if fn, ok := lc.Fun.(*ast.Ident); ok && fn.Name == "len" && len(lc.Args) == 1 {
					if ci, ok := cond.X.(*ast.Ident); ok && ci.Name == iv.Name {
						if z, ok := cond.Y.(*ast.BasicLit); ok && z.Value == "0" {
							if pi, ok := post.X.(*ast.Ident); ok && pi.Name == iv.Name {
								t.locals[iv.Name] = true
								t.emit(out, ind, "for "+lname(iv.Name)+" in goCountdown (goLen "+t.atom(lc.Args[0])+") do")
								t.block(x.Body.List, ind+"  ", out)
								return
							}
						}
					}
				}
			}
		}
		// for i := A; i >= B; i-- { ... } with A, B locals that the body does not assign: A, A-1, …, B
		if iv, ok := as.Lhs[0].(*ast.Ident); ok {
			from, isFrom := as.Rhs[0].(*ast.Ident)
			cond, isCond := x.Cond.(*ast.BinaryExpr)
			post, isPost := x.Post.(*ast.IncDecStmt)
			if isFrom && isCond && isPost && post.Tok == token.DEC && cond.Op == token.GEQ && t.locals[from.Name] && src(cond.X) == iv.Name && src(post.X) == iv.Name {
				if to, ok := cond.Y.(*ast.Ident); ok && t.locals[to.Name] && to.Name != iv.Name {
					if !writes(x.Body, to.Name) && !writes(x.Body, iv.Name) {
						t.locals[iv.Name] = true
						t.emit(out, ind, "for "+lname(iv.Name)+" in goDownFrom "+lname(from.Name)+" "+lname(to.Name)+" do")
						t.block(x.Body.List, ind+"  ", out)
						return
					}
				}
			}
		}
		iv, ok := as.Lhs[0].(*ast.Ident)
		if bl, isLit := as.Rhs[0].(*ast.BasicLit); !ok || !isLit || bl.Value != "0" {
			bad(s, "for-loop init")
		}
		post, ok := x.Post.(*ast.IncDecStmt)
		if pid, isId := post.X.(*ast.Ident); !ok || post.Tok != token.INC || !isId || pid.Name != iv.Name {
			bad(s, "for-loop post statement")
		}
		t.locals[iv.Name] = true
		var bound, extra ast.Expr
		if be, ok := x.Cond.(*ast.BinaryExpr); ok && be.Op == token.LAND {
			x.Cond, extra = be.X, be.Y
		}
		if be, ok := x.Cond.(*ast.BinaryExpr); ok && be.Op == token.LSS {
			if id, ok := be.X.(*ast.Ident); ok && id.Name == iv.Name {
				bound = be.Y
			}
		}
		if bound == nil {
			bad(s, "for-loop condition")
		}
		t.emit(out, ind, "for "+lname(iv.Name)+" in goRange "+t.atom(bound)+" do")
		if extra != nil {
			t.emit(out, ind+"  ", "if (!"+t.atom(extra)+") then")
			t.emit(out, ind+"    ", "break")
		}
		t.block(x.Body.List, ind+"  ", out)
	case *ast.IncDecStmt:
		if id, ok := x.X.(*ast.Ident); ok && t.locals[id.Name] {
			op := "+"
			if x.Tok == token.DEC {
				op = "-"
			}
			t.emit(out, ind, lname(id.Name)+" := "+lname(id.Name)+" "+op+" 1")
			return
		}
		root, path, ok := flatten(x.X)
		if !ok || root.Name != t.recvVar || t.recvVar == "" {
			bad(s, "++/-- on something that is not a receiver field")
		}
		f := "recv_" + strings.Join(path, "_")
		op := "+"
		if x.Tok == token.DEC {
			op = "-"
		}
		t.emit(out, ind, "let _ := (← "+f+"_set ((← "+f+") "+op+" 1))")
	case *ast.IfStmt:
		if x.Init != nil {
			t.stmt(x.Init, ind, out)
		}
		t.emit(out, ind, "if "+t.expr(x.Cond)+" then")
		t.block(x.Body.List, ind+"  ", out)
		if x.Else != nil {
			t.emit(out, ind, "else")
			switch e := x.Else.(type) {
			case *ast.BlockStmt:
				t.block(e.List, ind+"  ", out)
			case *ast.IfStmt:
				t.block([]ast.Stmt{e}, ind+"  ", out)
			}
		}
	case *ast.ReturnStmt:
		switch len(x.Results) {
		case 0:
			if t.retWrap != "" {
				bad(s, "bare return in a value closure")
			}
			t.emit(out, ind, "return ()")
		case 1:
			var val string
			fl, isLit := x.Results[0].(*ast.FuncLit)
			ue, isAddr := x.Results[0].(*ast.UnaryExpr)
			switch {
			case isLit && fl.Type.Results != nil && len(fl.Body.List) > 1:
				val = t.objClosure(fl)
			case isAddr && ue.Op == token.AND && t.u.heap && isDeclaredIdent(ue.X, t.declared):
				// the address of a variable of the body being left: the variable outlives the call as a fresh object
				val = "(← goNew " + lname(ue.X.(*ast.Ident).Name) + ")"
			default:
				val = t.expr(x.Results[0])
			}
			if t.retWrap != "" {
				val = "(" + val + ", " + t.retWrap + ")"
			}
			t.emit(out, ind, "return "+val)
		case 2:
			t.emit(out, ind, "return ("+t.expr(x.Results[0])+", "+t.expr(x.Results[1])+")")
		default:
			bad(s, "more than two results")
		}
	case *ast.DeferStmt:
		c := x.Call
		if id, ok := c.Fun.(*ast.Ident); ok && t.locals[id.Name] && len(c.Args) == 0 {
			t.emit(out, ind, "let _ := (← deferCall0 "+lname(id.Name)+")")
			return
		}
		if root, path, ok := flatten(c.Fun); ok && root.Name == t.recvVar && t.recvVar != "" && literalArgs(c.Args) {
			t.emit(out, ind, "let _ := (← deferPrim \""+strings.TrimSpace("recv_"+strings.Join(path, "_")+t.args(c.Args))+"\")")
			return
		}
		bad(s, "deferred call outside the two supported shapes")
	default:
		bad(s, "statement form")
	}
}

// a nested block: must not be empty in `do` notation
func (t *tr) block(l []ast.Stmt, ind string, out *[]string) {
	n := len(*out)
	t.stmts(l, ind, out)
	if len(*out) == n || strings.HasPrefix(strings.TrimSpace((*out)[len(*out)-1]), "let ") {
		t.emit(out, ind, "pure ()")
	}
}

func assigned(b *ast.BlockStmt) map[string]bool {
	r := map[string]bool{}
	ast.Inspect(b, func(n ast.Node) bool {
		if a, ok := n.(*ast.AssignStmt); ok && a.Tok == token.ASSIGN {
			for _, l := range a.Lhs {
				if id, ok := l.(*ast.Ident); ok {
					r[id.Name] = true
				}
			}
		}
		return true
	})
	return r
}

type fnOut struct {
	name  string
	text  string
	calls []string
}

func (u *unit) translate(fd *ast.FuncDecl, pkgs, funcs map[string]bool) fnOut {
	t := &tr{u: u, pkgs: pkgs, funcs: funcs, locals: map[string]bool{}, calls: map[string]bool{}, fname: fd.Name.Name, declared: map[string]bool{}}
	if fd.Recv != nil && len(fd.Recv.List) == 1 && len(fd.Recv.List[0].Names) == 1 {
		t.recvVar = fd.Recv.List[0].Names[0].Name
	}
	var params []string
	var prologue []string
	if u.recvParam != "" {
		params = append(params, "(recv : "+u.recvParam+")")
	}
	asg := assigned(fd.Body)
	u.mutatedLocals(fd.Body, asg) // parameters re-bound by a mutating method statement (units_ctor.go)
	for _, f := range fd.Type.Params.List {
		ty := t.ltype(f.Type)
		if len(f.Names) == 0 {
			params = append(params, fmt.Sprintf("(_ : %s)", ty))
		}
		for _, n := range f.Names {
			if n.Name != "_" {
				t.locals[n.Name] = true
			}
			params = append(params, fmt.Sprintf("(%s : %s)", lname(n.Name), ty))
			if asg[n.Name] {
				prologue = append(prologue, fmt.Sprintf("  let mut %s := %s", lname(n.Name), lname(n.Name)))
			}
		}
	}
	res := "Unit"
	if fd.Type.Results != nil {
		var rs []string
		for _, f := range fd.Type.Results.List {
			k := len(f.Names)
			if k == 0 {
				k = 1
			}
			for i := 0; i < k; i++ {
				rs = append(rs, t.ltype(f.Type))
			}
			for _, n := range f.Names {
				// a named result is an ordinary local of the body (zero-initialised)
				t.locals[n.Name] = true
				prologue = append(prologue, fmt.Sprintf("  let mut %s : %s := GoZero.zero", lname(n.Name), t.ltype(f.Type)))
			}
		}
		if len(rs) == 1 {
			res = rs[0]
		} else {
			res = "(" + strings.Join(rs, " × ") + ")"
		}
	}
	var body []string
	body = append(body, prologue...)
	t.stmts(fd.Body.List, "  ", &body)
	if n := len(fd.Body.List); n == 0 || !isReturn(fd.Body.List[n-1]) {
		if res != "Unit" {
			bad(fd, "value function without a final return")
		}
		body = append(body, "  return ()")
	}
	head := fmt.Sprintf("/-- %s -/\ndef go_%s %s : %s %s := fn do", strings.SplitN(src(fd), "{", 2)[0], fd.Name.Name, strings.Join(params, " "), u.monad, paren(res))
	if t.selfRec {
		// a function that calls itself: structural recursion on a fuel argument (running out of fuel is `goOutOfFuel`; the
		// tie theorem says how much fuel is enough)
		head = fmt.Sprintf("/-- %s -/\ndef go_%s (fuel : Nat) %s : %s %s :=\n  match fuel with\n  | 0 => goOutOfFuel\n  | fuel + 1 => fn do",
			strings.SplitN(src(fd), "{", 2)[0], fd.Name.Name, strings.Join(params, " "), u.monad, paren(res))
		for i := range body {
			body[i] = "  " + body[i]
		}
	}
	var calls []string
	for c := range t.calls {
		calls = append(calls, c)
	}
	sort.Strings(calls)
	text := strings.Join(t.lits, "\n")
	if len(t.lits) > 0 {
		text += "\n"
	}
	text += head + "\n" + strings.Join(body, "\n") + "\n"
	if len(t.litKeys) > 0 {
		// running a closure value created by this function
		applyRes := "Unit"
		if t.litRes != "" {
			applyRes = "(" + t.litRes + " × Clo)"
		}
		text += fmt.Sprintf("\n/-- what running a closure value made by %s does -/\ndef go_%s_apply : Clo → %s %s\n", fd.Name.Name, fd.Name.Name, u.monad, applyRes)
		for i, k := range t.litKeys {
			var pats, args []string
			for _, c := range t.litCaps[i] {
				pats = append(pats, lname(c))
				args = append(args, lname(c))
			}
			text += fmt.Sprintf("  | ⟨\"%s\", [%s]⟩ => go_%s %s\n", k, strings.Join(pats, ", "), k, strings.Join(args, " "))
		}
		text += "  | _ => cloStuck\n"
	}
	return fnOut{fd.Name.Name, text, calls}
}

func isReturn(s ast.Stmt) bool { _, ok := s.(*ast.ReturnStmt); return ok }

func isDeclaredIdent(e ast.Expr, declared map[string]bool) bool {
	id, ok := e.(*ast.Ident)
	return ok && declared[id.Name]
}

func main() {
	if len(os.Args) != 3 {
		fmt.Fprintln(os.Stderr, "usage: gotrans REPO UNIT")
		os.Exit(2)
	}
	u := units[os.Args[2]]
	if u == nil {
		fmt.Fprintln(os.Stderr, "unknown unit")
		os.Exit(2)
	}
	defer func() {
		if r := recover(); r != nil {
			if us, ok := r.(unsupported); ok {
				fmt.Fprintln(os.Stderr, "gotrans: outside the translated subset: "+us.msg)
				os.Exit(1)
			}
			panic(r)
		}
	}()
	file, err := parser.ParseFile(fset, filepath.Join(os.Args[1], u.file), nil, 0)
	if err != nil {
		fmt.Fprintln(os.Stderr, err)
		os.Exit(1)
	}
	pkgs := map[string]bool{}
	for _, im := range file.Imports {
		p := strings.Trim(im.Path.Value, "\"")
		n := p[strings.LastIndex(p, "/")+1:]
		if len(n) >= 2 && n[0] == 'v' && strings.Trim(n[1:], "0123456789") == "" && strings.Contains(p, "/") {
			// a major-version suffix (".../circuit/v4") is not the package name: the element before it is
			q := p[:strings.LastIndex(p, "/")]
			n = q[strings.LastIndex(q, "/")+1:]
		}
		if im.Name != nil {
			n = im.Name.Name
		}
		pkgs[n] = true
	}
	funcs := map[string]bool{}
	for _, f := range u.funcs {
		funcs[f] = true
	}
	found := map[string]fnOut{}
	for _, d := range file.Decls {
		fd, ok := d.(*ast.FuncDecl)
		if !ok || fd.Body == nil || !funcs[fd.Name.Name] {
			continue
		}
		rt := ""
		if fd.Recv != nil && len(fd.Recv.List) == 1 {
			rt = strings.TrimPrefix(src(fd.Recv.List[0].Type), "*")
		}
		if rt != u.recv {
			continue
		}
		if u.addrCells {
			desugarAddrTaken(fd) // units_errs.go: a local whose address is taken lives in a cell
		}
		found[fd.Name.Name] = u.translate(fd, pkgs, funcs)
	}
	for _, f := range u.funcs {
		if _, ok := found[f]; !ok {
			fmt.Fprintf(os.Stderr, "gotrans: %s.%s is not in %s any more\n", u.recv, f, u.file)
			os.Exit(1)
		}
	}
	// callees before callers
	var order []string
	state := map[string]int{}
	var visit func(string)
	visit = func(n string) {
		switch state[n] {
		case 1:
			fmt.Fprintf(os.Stderr, "gotrans: recursion through %s\n", n)
			os.Exit(1)
		case 2:
			return
		}
		state[n] = 1
		for _, c := range found[n].calls {
			visit(c)
		}
		state[n] = 2
		order = append(order, n)
	}
	names := append([]string(nil), u.funcs...)
	names = append(names, translateVars(u, file, pkgs, funcs, found)...) // units_errs.go: package-level struct literals
	sort.Strings(names)
	for _, n := range names {
		visit(n)
	}
	// one Lean module per function (a function that leaves the subset, or names a primitive that does not exist, takes
	// down its own module and its callers' — not its siblings'), plus a root module importing all of them
	var b strings.Builder
	header := func(imports []string) {
		fmt.Fprintf(&b, "/- GENERATED by tools/extract/gotrans from %s — do not edit; regenerated on every run -/\n", u.file)
		for _, im := range imports {
			fmt.Fprintf(&b, "import %s\n", im)
		}
	}
	for _, n := range order {
		fmt.Fprintf(&b, "-- FILE: %s/F_%s.lean\n", u.name, n)
		ims := append([]string(nil), u.imports...)
		for _, c := range found[n].calls {
			ims = append(ims, fmt.Sprintf("Generated.%s.F_%s", u.name, c))
		}
		header(ims)
		b.WriteString("set_option linter.unusedVariables false\n")
		fmt.Fprintf(&b, "namespace CM.Generated.%s\nopen %s\n%s\n\n", u.name, strings.Join(u.open, " "), u.vars)
		b.WriteString(found[n].text)
		fmt.Fprintf(&b, "\nend CM.Generated.%s\n", u.name)
	}
	fmt.Fprintf(&b, "-- FILE: %s.lean\n", u.name)
	var all []string
	for _, n := range order {
		all = append(all, fmt.Sprintf("Generated.%s.F_%s", u.name, n))
	}
	header(all)
	fmt.Fprintf(&b, "namespace CM.Generated.%s\nend CM.Generated.%s\n", u.name, u.name)
	fmt.Print(b.String())
}

// units_vars.go — units for the expvar publishing methods (tag "vars"): every `Var()` returns `expvar.Func(func() interface{} {…})`,
// a CLOSURE over the receiver; the point of these units is WHEN the content is computed (when the function value is
// EVALUATED, not when Var() is called).
//
//	GoFbStatsVar   metrics/rolling/rolling.go               FallbackStats.Var
//	GoRunStatsVar  metrics/rolling/rolling.go               RunStats.Var
//	GoSloVar       metrics/responsetimeslo/responsetime.go  Tracker.Var
//	GoRPVar        faststats/rolling_percentile.go          RollingPercentile.Var
//	GoManagerVar   manager.go                               Manager.Var
//	GoExpvarToVal  metrics.go                               expvarToVal
//	GoFanRunVar    metrics.go                               RunMetricsCollection.Var
//	GoFanFbVar     metrics.go                               FallbackMetricsCollection.Var
//	GoCircuitVar   circuit.go                               Circuit.Var
//
// Syntax added for these units only (hooks `varsExpr` / `varsStmt`, called first by `expr` / `stmt` of main.go; they
// decline — and main.go goes on as before — for every unit not listed in `varsUnits`):
//
//	func() T { statements }        a value closure with a statement body (closureV of units_fsnew.go takes one `return e` only):
//	                               `go_<fn>_litK` over the receiver (when it is data) and the captured locals, the first-order
//	                               value `CloV.mk "<fn>_litK" recv [captures]`, and `go_<fn>_litK_eval`
//	&r.F                           the address of a field of the receiver: the VALUE `recvAddr_F` (no memory is read)
//	for k, v := range X { … }      both variables: `for (k, v) in X do` (X is whatever list of pairs the primitives say)
//	type T interface { … }         a local type declaration: no run-time effect, nothing is printed
package main

import (
	"fmt"
	"go/ast"
	"go/token"
	"strings"
)

var varsUnits = map[string]bool{"GoFbStatsVar": true, "GoRunStatsVar": true, "GoSloVar": true, "GoRPVar": true, "GoManagerVar": true,
	"GoExpvarToVal": true, "GoFanRunVar": true, "GoFanFbVar": true, "GoCircuitVar": true}

func (t *tr) varsExpr(e ast.Expr) (string, bool) {
	if !varsUnits[t.u.name] {
		return "", false
	}
	switch x := e.(type) {
	case *ast.UnaryExpr:
		if x.Op == token.AND {
			if root, path, ok := flatten(x.X); ok && t.recvVar != "" && root.Name == t.recvVar && len(path) > 0 {
				return "recvAddr_" + strings.Join(path, "_"), true
			}
		}
	case *ast.FuncLit:
		if len(x.Type.Params.List) != 0 || x.Type.Results == nil || len(x.Type.Results.List) != 1 || len(x.Type.Results.List[0].Names) != 0 {
			return "", false
		}
		if len(x.Body.List) == 1 && isReturn(x.Body.List[0]) {
			return "", false // the one-line shape: main.go / closureV
		}
		if !t.u.valueClosures {
			return "", false
		}
		return t.closureVS(x), true
	}
	return "", false
}

func (t *tr) varsStmt(s ast.Stmt, ind string, out *[]string) bool {
	if !varsUnits[t.u.name] {
		return false
	}
	switch x := s.(type) {
	case *ast.DeclStmt:
		gd, ok := x.Decl.(*ast.GenDecl)
		if !ok || gd.Tok != token.TYPE {
			return false
		}
		for _, sp := range gd.Specs {
			ts, ok := sp.(*ast.TypeSpec)
			if !ok {
				return false
			}
			if _, isIface := ts.Type.(*ast.InterfaceType); !isIface {
				return false
			}
		}
		return true
	case *ast.RangeStmt:
		k, kok := x.Key.(*ast.Ident)
		v, vok := x.Value.(*ast.Ident)
		if !kok || !vok || k.Name == "_" || v.Name == "_" || x.Tok != token.DEFINE {
			return false
		}
		coll := t.expr(x.X)
		t.locals[k.Name] = true
		t.locals[v.Name] = true
		t.emit(out, ind, "for ("+lname(k.Name)+", "+lname(v.Name)+") in "+coll+" do")
		t.block(x.Body.List, ind+"  ", out)
		return true
	}
	return false
}

// closureVS: func() T { statements; return e } — like closureV (units_fsnew.go), with a statement body: a generated
// definition over the receiver (when it is data) and the captured locals, run as a Go function body of its own (`fn`: its
// deferred calls run when IT returns), the first-order value naming it, and what evaluating such a value does
func (t *tr) closureVS(fl *ast.FuncLit) string {
	if t.litRes != "" || t.retWrap != "" {
		bad(fl, "a closure next to / inside an object closure")
	}
	if n := len(fl.Body.List); n == 0 || !isReturn(fl.Body.List[n-1]) {
		bad(fl, "value closure without a final return")
	}
	var caps []string
	seen := map[string]bool{}
	ast.Inspect(fl.Body, func(n ast.Node) bool {
		if id, ok := n.(*ast.Ident); ok && t.locals[id.Name] && !seen[id.Name] {
			seen[id.Name] = true
			caps = append(caps, id.Name)
		}
		return true
	})
	sub := &tr{u: t.u, recvVar: t.recvVar, pkgs: t.pkgs, funcs: t.funcs, locals: map[string]bool{}, calls: t.calls, fname: t.fname, declared: map[string]bool{}}
	var params, vals []string
	recvPat, recvArg := "_", "GoZero.zero"
	if t.u.recvParam != "" {
		params = append(params, "(recv : "+t.u.recvParam+")")
		recvPat, recvArg = "recv", "recv"
	}
	for _, c := range caps {
		ty, ok := t.u.captures[c]
		if !ok {
			bad(fl, "closure captures "+c+", whose type is not listed")
		}
		sub.locals[c] = true
		params = append(params, fmt.Sprintf("(%s : %s)", lname(c), ty))
		vals = append(vals, lname(c))
	}
	var body []string
	sub.stmts(fl.Body.List, "  ", &body)
	if len(sub.lits) > 0 {
		bad(fl, "nested closures")
	}
	res := t.ltype(fl.Type.Results.List[0].Type)
	name := fmt.Sprintf("%s_lit%d", t.fname, len(t.lits)+1)
	call := "go_" + name
	if t.u.recvParam != "" {
		call += " recv"
	}
	for _, v := range vals {
		call += " " + v
	}
	t.lits = append(t.lits, fmt.Sprintf("/-- closure #%d of %s: %s -/\ndef go_%s %s : %s %s := fn do\n%s\n\n"+
		"/-- what evaluating that function value does -/\ndef go_%s_eval : CloV → %s %s\n  | ⟨\"%s\", %s, [%s]⟩ => %s\n  | _ => cloStuckV\n",
		len(t.lits)+1, t.fname, src(fl), name, strings.Join(params, " "), t.u.monad, paren(res), strings.Join(body, "\n"),
		name, t.u.monad, paren(res), name, recvPat, strings.Join(vals, ", "), call))
	return fmt.Sprintf("(CloV.mk \"%s\" %s [%s])", name, recvArg, strings.Join(vals, ", "))
}

func init() {
	vt := func(more map[string]string) map[string]string {
		m := map[string]string{"expvar.Var": "CloV", "interface{}": "EV"}
		for k, v := range more {
			m[k] = v
		}
		return m
	}
	vu := func(name, file, recv, ns, monad string, funcs []string) *unit {
		u := &unit{name: name, file: file, recv: recv, funcs: funcs, imports: []string{"CircuitModel.GoVarsPrims"},
			open: []string{"CM", "CM.Go", "CM.GoVars", "CM.GoVars." + ns}, vars: "", monad: monad, types: vt(nil), valueClosures: true}
		units[name] = u
		return u
	}
	vu("GoFbStatsVar", "metrics/rolling/rolling.go", "FallbackStats", "Fb", "FVM", []string{"Var"})
	vu("GoRunStatsVar", "metrics/rolling/rolling.go", "RunStats", "Run", "RVM", []string{"Var"})
	vu("GoSloVar", "metrics/responsetimeslo/responsetime.go", "Tracker", "Slo", "SVM", []string{"Var"})
	vu("GoRPVar", "faststats/rolling_percentile.go", "RollingPercentile", "RPV", "PVM", []string{"Var"})
	vu("GoManagerVar", "manager.go", "Manager", "Mgr", "MVM", []string{"Var"})
	vu("GoExpvarToVal", "metrics.go", "", "E2V", "EVM", []string{"expvarToVal"})
	vu("GoFanRunVar", "metrics.go", "RunMetricsCollection", "Fan", "NVM", []string{"Var"}).recvParam = "List CollP"
	vu("GoFanFbVar", "metrics.go", "FallbackMetricsCollection", "Fan", "NVM", []string{"Var"}).recvParam = "List CollP"
	cv := vu("GoCircuitVar", "circuit.go", "Circuit", "Circ", "CVM σo σc", []string{"Var"})
	cv.recvParam, cv.vars = "CircPtr", "variable {σo σc : Type}"
}

// units_errs.go — the units for errors.go (IsBadRequest, *circuitError, SimpleBadRequest, the two sentinel errors) and
// faststats/atomic.go (AtomicBoolean, AtomicInt64), plus the two purely syntactic extensions they need:
//
//  1. ADDRESS-TAKEN LOCALS (`var br BadRequest; errors.As(err, &br); br.BadRequest()`): a local declared by `var x T` whose
//     address is taken somewhere in the function lives in a CELL.  Before translation the function's AST is desugared:
//     `var x T`  becomes  `x := goVarNew(goZero_T)`   (allocate a cell holding T's zero value; x names the cell)
//     `&x`       becomes  `x`                          (the cell itself)
//     every other use of x becomes `goVarLoad(x)`      (read the cell at THAT point of the evaluation order)
//     What a cell is (pkg_goVarNew / pkg_goVarLoad / pkg_goZero_T) is said by the unit's primitives.  Anything else done
//     to such a local (assignment, ++, declaration by := or as a parameter, capture by a closure, redeclaration) aborts.
//  2. PACKAGE-LEVEL VARIABLES initialised by a struct literal (`var errCircuitOpen = &circuitError{circuitOpen: true, …}`):
//     listed per unit in pkgVars, each becomes a generated module F_var_<name>.lean with `def var_<name> := <literal>`
//     (the literal translated field by field by the ordinary composite-literal rule; it must be effect-free).
package main

import (
	"go/ast"
	"go/token"
)

func init() {
	errTypes := map[string]string{"error": "EV", "bool": "Bool", "string": "String"}
	units["GoIsBadRequest"] = &unit{
		name: "GoIsBadRequest", file: "errors.go", recv: "", funcs: []string{"IsBadRequest"}, addrCells: true,
		imports: []string{"CircuitModel.GoErrsPrims"}, open: []string{"CM", "CM.Go", "CM.GoErrs", "CM.GoErrs.IsBad"}, vars: "", monad: "HM", types: errTypes,
	}
	units["GoCircuitError"] = &unit{
		name: "GoCircuitError", file: "errors.go", recv: "circuitError", funcs: []string{"Error", "ConcurrencyLimitReached", "CircuitOpen"},
		imports: []string{"CircuitModel.GoErrsPrims"}, open: []string{"CM", "CM.Go", "CM.GoErrs", "CM.GoErrs.CE"}, vars: "", monad: "CEM", types: errTypes,
		structLits: map[string]bool{"circuitError": true},
	}
	pkgVars["GoCircuitError"] = []string{"errThrottledConcurrentCommands", "errCircuitOpen"}
	units["GoSimpleBadRequest"] = &unit{
		name: "GoSimpleBadRequest", file: "errors.go", recv: "SimpleBadRequest", funcs: []string{"Cause", "Error", "BadRequest"},
		imports: []string{"CircuitModel.GoErrsPrims"}, open: []string{"CM", "CM.Go", "CM.GoErrs", "CM.GoErrs.SB"}, vars: "", monad: "SBM", types: errTypes,
	}
	atomTypes := map[string]string{"bool": "Bool", "int64": "Int", "time.Duration": "Int", "string": "String"}
	units["GoAtomicBoolean"] = &unit{
		name: "GoAtomicBoolean", file: "faststats/atomic.go", recv: "AtomicBoolean", funcs: []string{"Get", "Set", "String"},
		imports: []string{"CircuitModel.GoErrsPrims"}, open: []string{"CM", "CM.Go", "CM.GoAtomic", "CM.GoAtomic.B"}, vars: "", monad: "ABM", types: atomTypes,
	}
	units["GoAtomicInt64"] = &unit{
		name: "GoAtomicInt64", file: "faststats/atomic.go", recv: "AtomicInt64", funcs: []string{"Get", "Set", "Duration", "String"},
		imports: []string{"CircuitModel.GoErrsPrims"}, open: []string{"CM", "CM.Go", "CM.GoAtomic", "CM.GoAtomic.I"}, vars: "", monad: "AIM", types: atomTypes,
	}
}

// ---------------------------------------------------------------- 1. address-taken locals

// desugarAddrTaken rewrites fd in place (see the header).  Name based, like the rest of the translator: a name that is
// declared twice in the function aborts.
func desugarAddrTaken(fd *ast.FuncDecl) {
	addr := map[string]bool{}
	ast.Inspect(fd.Body, func(n ast.Node) bool {
		if u, ok := n.(*ast.UnaryExpr); ok && u.Op == token.AND {
			switch x := u.X.(type) {
			case *ast.Ident:
				addr[x.Name] = true
			case *ast.CompositeLit:
			default:
				bad(u, "address of something that is neither a local variable nor a literal")
			}
		}
		return true
	})
	if len(addr) == 0 {
		return
	}
	// how each such name is declared: exactly once, by `var x T` with a named type and no initialiser
	decls := map[string]int{}
	count := func(id *ast.Ident) {
		if addr[id.Name] {
			decls[id.Name]++
		}
	}
	if fd.Recv != nil {
		for _, f := range fd.Recv.List {
			for _, n := range f.Names {
				if addr[n.Name] {
					bad(fd, "address of the receiver variable")
				}
			}
		}
	}
	for _, f := range fd.Type.Params.List {
		for _, n := range f.Names {
			if addr[n.Name] {
				bad(fd, "address of a parameter")
			}
		}
	}
	if fd.Type.Results != nil {
		for _, f := range fd.Type.Results.List {
			for _, n := range f.Names {
				if addr[n.Name] {
					bad(fd, "address of a named result")
				}
			}
		}
	}
	ast.Inspect(fd.Body, func(n ast.Node) bool {
		switch x := n.(type) {
		case *ast.FuncLit:
			ast.Inspect(x, func(m ast.Node) bool {
				if id, ok := m.(*ast.Ident); ok && addr[id.Name] {
					bad(x, "closure mentions an address-taken local")
				}
				return true
			})
		case *ast.AssignStmt:
			for _, l := range x.Lhs {
				if id, ok := l.(*ast.Ident); ok && addr[id.Name] {
					bad(x, "assignment to / := declaration of an address-taken local")
				}
			}
		case *ast.IncDecStmt:
			if id, ok := x.X.(*ast.Ident); ok && addr[id.Name] {
				bad(x, "++/-- on an address-taken local")
			}
		case *ast.RangeStmt:
			for _, e := range []ast.Expr{x.Key, x.Value} {
				if id, ok := e.(*ast.Ident); ok && addr[id.Name] {
					bad(x, "range variable is an address-taken local")
				}
			}
		case *ast.ValueSpec:
			for _, id := range x.Names {
				count(id)
				if addr[id.Name] {
					if _, named := x.Type.(*ast.Ident); !named || len(x.Values) != 0 {
						bad(x, "address-taken local must be declared `var x T` with a named type T")
					}
				}
			}
		}
		return true
	})
	for n := range addr {
		if decls[n] != 1 {
			bad(fd, "address-taken name "+n+" is not declared exactly once by `var`")
		}
	}
	load := func(id *ast.Ident) ast.Expr {
		return &ast.CallExpr{Fun: &ast.Ident{Name: "goVarLoad", NamePos: id.NamePos}, Args: []ast.Expr{id}}
	}
	var rw func(e ast.Expr) ast.Expr
	rwList := func(l []ast.Expr) {
		for i := range l {
			l[i] = rw(l[i])
		}
	}
	rw = func(e ast.Expr) ast.Expr {
		switch x := e.(type) {
		case nil:
			return nil
		case *ast.Ident:
			if addr[x.Name] {
				return load(x)
			}
		case *ast.UnaryExpr:
			if id, ok := x.X.(*ast.Ident); ok && x.Op == token.AND && addr[id.Name] {
				return id // the cell
			}
			x.X = rw(x.X)
		case *ast.ParenExpr:
			x.X = rw(x.X)
		case *ast.BinaryExpr:
			x.X, x.Y = rw(x.X), rw(x.Y)
		case *ast.CallExpr:
			x.Fun = rw(x.Fun)
			rwList(x.Args)
		case *ast.SelectorExpr:
			x.X = rw(x.X)
		case *ast.IndexExpr:
			x.X, x.Index = rw(x.X), rw(x.Index)
		case *ast.TypeAssertExpr:
			x.X = rw(x.X)
		case *ast.KeyValueExpr:
			x.Value = rw(x.Value)
		case *ast.CompositeLit:
			rwList(x.Elts)
		case *ast.BasicLit, *ast.FuncLit:
		default:
			mentions := false
			ast.Inspect(e, func(m ast.Node) bool {
				if id, ok := m.(*ast.Ident); ok && addr[id.Name] {
					mentions = true
				}
				return true
			})
			if mentions {
				bad(e, "address-taken local inside an expression form the desugaring does not know")
			}
		}
		return e
	}
	var rwStmts func(l []ast.Stmt) []ast.Stmt
	var rwStmt func(s ast.Stmt) ast.Stmt
	rwStmt = func(s ast.Stmt) ast.Stmt {
		switch x := s.(type) {
		case nil:
			return nil
		case *ast.BlockStmt:
			x.List = rwStmts(x.List)
		case *ast.ExprStmt:
			x.X = rw(x.X)
		case *ast.AssignStmt:
			rwList(x.Rhs)
			for i, l := range x.Lhs {
				if _, isId := l.(*ast.Ident); !isId {
					x.Lhs[i] = rw(l)
				}
			}
		case *ast.ReturnStmt:
			rwList(x.Results)
		case *ast.IfStmt:
			x.Init = rwStmt(x.Init)
			x.Cond = rw(x.Cond)
			rwStmt(x.Body)
			x.Else = rwStmt(x.Else)
		case *ast.ForStmt:
			x.Init = rwStmt(x.Init)
			x.Cond = rw(x.Cond)
			x.Post = rwStmt(x.Post)
			rwStmt(x.Body)
		case *ast.RangeStmt:
			x.X = rw(x.X)
			rwStmt(x.Body)
		case *ast.DeferStmt:
			x.Call.Fun = rw(x.Call.Fun)
			rwList(x.Call.Args)
		case *ast.IncDecStmt:
			x.X = rw(x.X)
		case *ast.DeclStmt:
			gd, ok := x.Decl.(*ast.GenDecl)
			if !ok || gd.Tok != token.VAR {
				return s
			}
			if len(gd.Specs) == 1 {
				vs := gd.Specs[0].(*ast.ValueSpec)
				if len(vs.Names) == 1 && addr[vs.Names[0].Name] {
					ty := vs.Type.(*ast.Ident)
					return &ast.AssignStmt{Lhs: []ast.Expr{vs.Names[0]}, Tok: token.DEFINE, TokPos: vs.Pos(),
						Rhs: []ast.Expr{&ast.CallExpr{Fun: &ast.Ident{Name: "goVarNew", NamePos: vs.Pos()},
							Args: []ast.Expr{&ast.Ident{Name: "goZero_" + ty.Name, NamePos: ty.NamePos}}}}}
				}
			}
			for _, sp := range gd.Specs {
				for _, id := range sp.(*ast.ValueSpec).Names {
					if addr[id.Name] {
						bad(s, "address-taken local declared together with others")
					}
				}
			}
		default:
			mentions := false
			ast.Inspect(s, func(m ast.Node) bool {
				if id, ok := m.(*ast.Ident); ok && addr[id.Name] {
					mentions = true
				}
				return true
			})
			if mentions {
				bad(s, "address-taken local inside a statement form the desugaring does not know")
			}
		}
		return s
	}
	rwStmts = func(l []ast.Stmt) []ast.Stmt {
		for i := range l {
			l[i] = rwStmt(l[i])
		}
		return l
	}
	rwStmts(fd.Body.List)
}

// ---------------------------------------------------------------- 2. package-level variables

var pkgVars = map[string][]string{}

// translateVars: `var <name> = <struct literal>` for the names the unit lists; each becomes a pseudo-function
// "var_<name>" in found (module F_var_<name>.lean).  Returns the pseudo-function names.
func translateVars(u *unit, file *ast.File, pkgs, funcs map[string]bool, found map[string]fnOut) []string {
	want := map[string]bool{}
	for _, v := range pkgVars[u.name] {
		want[v] = true
	}
	var names []string
	for _, d := range file.Decls {
		gd, ok := d.(*ast.GenDecl)
		if !ok || gd.Tok != token.VAR {
			continue
		}
		for _, sp := range gd.Specs {
			vs := sp.(*ast.ValueSpec)
			for _, n := range vs.Names {
				if !want[n.Name] {
					continue
				}
				if len(vs.Names) != 1 || len(vs.Values) != 1 {
					bad(vs, "package-level variable outside the supported shape")
				}
				t := &tr{u: u, pkgs: pkgs, funcs: funcs, locals: map[string]bool{}, calls: map[string]bool{}, fname: "var_" + n.Name}
				val := t.expr(vs.Values[0])
				if hasEffect(val) || len(t.lits) > 0 {
					bad(vs, "package-level initialiser with calls")
				}
				key := "var_" + n.Name
				found[key] = fnOut{key, "/-- var " + src(vs) + " -/\ndef " + key + " := " + val + "\n", nil}
				names = append(names, key)
				delete(want, n.Name)
			}
		}
	}
	for v := range want {
		panic(unsupported{"package-level variable " + v + " is not in " + u.file + " any more"})
	}
	return names
}

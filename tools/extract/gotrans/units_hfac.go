package main

// units_hfac.go — the construction-time glue of the built-in open/close logic (K5 extension "hfac"):
//
//	GoHFacLayers     closers/hystrix/config.go   Factory.createCloser / createOpener / Configure (precedence of the layers)
//	GoHFacCloser     closers/hystrix/closer.go   CloserFactory (a closure returning a fresh, configured *Closer per call)
//	GoHFacOpener     closers/hystrix/opener.go   OpenerFactory (the same for *Opener)
//	GoHFacOpenerSet  closers/hystrix/opener.go   Opener.SetConfigThreadSafe / SetConfigNotThreadSafe (both counters, one clock reading)
//	GoHFacNow        closers/hystrix/opener.go   ConfigureOpener.now (the configured clock, wall clock when nil)
//	GoHFacConsec     closers/simplelogic/closers.go  ConsecutiveErrOpenerFactory
//	GoHFacNever      closers.go                  neverOpensFactory / neverClosesFactory
//
// primitives: lean/CircuitModel/GoHfacPrims.lean; proofs: lean/CircuitProofs/GoTie/T_GoHFac*.lean
func init() {
	imports := []string{"CircuitModel.GoHfacPrims"}
	units["GoHFacLayers"] = &unit{
		name: "GoHFacLayers", file: "closers/hystrix/config.go", recv: "Factory", funcs: []string{"createCloser", "createOpener", "Configure"},
		imports: imports, open: []string{"CM", "CM.Go", "CM.GoHFac", "CM.GoHFac.Layers"}, vars: "", monad: "LYM",
		types: map[string]string{"string": "String", "func() circuit.OpenToClosed": "CloserFn", "func() circuit.ClosedToOpen": "OpenerFn",
			"circuit.Config": "circuit_Config"},
		mutating:   map[string]bool{"Merge": true},
		structLits: map[string]bool{"circuit_Config": true, "circuit_GeneralConfig": true},
	}
	units["GoHFacCloser"] = &unit{
		name: "GoHFacCloser", file: "closers/hystrix/closer.go", recv: "", funcs: []string{"CloserFactory"},
		imports: imports, open: []string{"CM", "CM.Go", "CM.GoHFac", "CM.GoHFac.Closer"}, vars: "", monad: "CFM",
		types:    map[string]string{"ConfigureCloser": "CCfg", "func() circuit.OpenToClosed": "Clo", "circuit.OpenToClosed": "Ref"},
		captures: map[string]string{"config": "CCfg"},
		mutating: map[string]bool{"Merge": true, "SetConfigNotThreadSafe": true}, // s is a VALUE here: the method updates the local
		heap:     true,
	}
	units["GoHFacOpener"] = &unit{
		name: "GoHFacOpener", file: "closers/hystrix/opener.go", recv: "", funcs: []string{"OpenerFactory"},
		imports: imports, open: []string{"CM", "CM.Go", "CM.GoHFac", "CM.GoHFac.Opener"}, vars: "", monad: "OFM",
		types:    map[string]string{"ConfigureOpener": "OCfg", "func() circuit.ClosedToOpen": "Clo", "circuit.ClosedToOpen": "Ref"},
		captures: map[string]string{"config": "OCfg"},
		mutating: map[string]bool{"Merge": true, "SetConfigNotThreadSafe": true},
		heap:     true,
	}
	units["GoHFacOpenerSet"] = &unit{
		name: "GoHFacOpenerSet", file: "closers/hystrix/opener.go", recv: "Opener", funcs: []string{"SetConfigThreadSafe", "SetConfigNotThreadSafe"},
		imports: imports, open: []string{"CM", "CM.Go", "CM.GoHFac", "CM.GoHFac.Opener"}, vars: "", monad: "OFM",
		types: map[string]string{"ConfigureOpener": "OCfg"},
	}
	units["GoHFacNow"] = &unit{
		name: "GoHFacNow", file: "closers/hystrix/opener.go", recv: "ConfigureOpener", funcs: []string{"now"},
		imports: imports, open: []string{"CM", "CM.Go", "CM.GoHFac", "CM.GoHFac.Now"}, vars: "", monad: "NWM",
		types:      map[string]string{"time.Time": "Int"},
		funcFields: map[string]bool{"Now": true},
	}
	units["GoHFacConsec"] = &unit{
		name: "GoHFacConsec", file: "closers/simplelogic/closers.go", recv: "", funcs: []string{"ConsecutiveErrOpenerFactory"},
		imports: imports, open: []string{"CM", "CM.Go", "CM.GoHFac", "CM.GoHFac.Consec"}, vars: "", monad: "KFM",
		types:    map[string]string{"ConfigConsecutiveErrOpener": "KCfg", "func() circuit.ClosedToOpen": "Clo", "circuit.ClosedToOpen": "Ref"},
		captures: map[string]string{"config": "KCfg"},
		mutating: map[string]bool{"Merge": true}, // ret is a POINTER here: SetConfigThreadSafe works on the object store
		heap:     true,
	}
	units["GoHFacNever"] = &unit{
		name: "GoHFacNever", file: "closers.go", recv: "", funcs: []string{"neverOpensFactory", "neverClosesFactory"},
		imports: imports, open: []string{"CM", "CM.Go", "CM.GoHFac", "CM.GoHFac.Never"}, vars: "", monad: "NFM",
		types: map[string]string{"ClosedToOpen": "OpenerV", "OpenToClosed": "CloserV"},
	}
}

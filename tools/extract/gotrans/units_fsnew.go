package main

import (
	"fmt"
	"go/ast"
	"go/token"
	"strings"
)

// units added for the faststats constructors, the wall-clock wrappers and the bucket iterator (tag fsnew)

// writes: does the block assign (=, :=, op=, ++, --) the named variable anywhere?
func writes(b *ast.BlockStmt, name string) bool {
	found := false
	ast.Inspect(b, func(n ast.Node) bool {
		switch s := n.(type) {
		case *ast.AssignStmt:
			for _, l := range s.Lhs {
				if id, ok := l.(*ast.Ident); ok && id.Name == name {
					found = true
				}
			}
		case *ast.IncDecStmt:
			if id, ok := s.X.(*ast.Ident); ok && id.Name == name {
				found = true
			}
		case *ast.RangeStmt:
			for _, e := range []ast.Expr{s.Key, s.Value} {
				if id, ok := e.(*ast.Ident); ok && id.Name == name {
					found = true
				}
			}
		}
		return true
	})
	return found
}

// mapLit: map[K]V{"k1": v1, ...} with string-literal keys — the (key, value) pairs in source order (Go evaluates the
// values in that order); what such a list means as a map is the primitives' business
func (t *tr) mapLit(cl *ast.CompositeLit) string {
	var els []string
	for _, el := range cl.Elts {
		kv, ok := el.(*ast.KeyValueExpr)
		if !ok {
			bad(cl, "map literal element")
		}
		k, ok := kv.Key.(*ast.BasicLit)
		if !ok || k.Kind != token.STRING {
			bad(cl, "map literal key")
		}
		els = append(els, "("+t.expr(k)+", "+t.expr(kv.Value)+")")
	}
	return "(goMapLit [" + strings.Join(els, ", ") + "])"
}

// closureV: func() T { return <expr with calls> } — a generated definition over the receiver (when it is data) and the
// captured locals, a first-order value `CloV.mk name recv [captures]` naming it, and `go_<name>_eval`: what EVALUATING
// such a value does
func (t *tr) closureV(fl *ast.FuncLit) string {
	if fl.Type.Results == nil || len(fl.Type.Results.List) != 1 || len(fl.Type.Results.List[0].Names) > 0 {
		bad(fl, "value closure result")
	}
	var caps []string
	seen := map[string]bool{}
	ast.Inspect(fl.Body, func(n ast.Node) bool {
		if id, ok := n.(*ast.Ident); ok && t.locals[id.Name] && !seen[id.Name] {
			seen[id.Name] = true
			caps = append(caps, id.Name)
		}
		return true
	})
	sub := &tr{u: t.u, recvVar: t.recvVar, pkgs: t.pkgs, funcs: t.funcs, locals: map[string]bool{}, calls: t.calls, fname: t.fname}
	var params, vals []string
	recvPat, recvArg := "_", "GoZero.zero"
	if t.u.recvParam != "" {
		params = append(params, "(recv : "+t.u.recvParam+")")
		recvPat, recvArg = "recv", "recv"
	}
	for _, c := range caps {
		ty, ok := t.u.captures[c]
		if !ok {
			bad(fl, "closure captures "+c+", whose type is not listed")
		}
		sub.locals[c] = true
		params = append(params, fmt.Sprintf("(%s : %s)", lname(c), ty))
		vals = append(vals, lname(c))
	}
	var body []string
	sub.stmts(fl.Body.List, "  ", &body)
	if len(sub.lits) > 0 {
		bad(fl, "nested closures")
	}
	res := t.ltype(fl.Type.Results.List[0].Type)
	name := fmt.Sprintf("%s_lit%d", t.fname, len(t.lits)+1)
	call := "go_" + name
	if t.u.recvParam != "" {
		call += " recv"
	}
	for _, v := range vals {
		call += " " + v
	}
	t.lits = append(t.lits, fmt.Sprintf("/-- closure #%d of %s: %s -/\ndef go_%s %s : %s %s := fn do\n%s\n\n"+
		"/-- what evaluating that function value does -/\ndef go_%s_eval : CloV → %s %s\n  | ⟨\"%s\", %s, [%s]⟩ => %s\n  | _ => cloStuckV\n",
		len(t.lits)+1, t.fname, src(fl), name, strings.Join(params, " "), t.u.monad, paren(res), strings.Join(body, "\n"),
		name, t.u.monad, paren(res), name, recvPat, strings.Join(vals, ", "), call))
	return fmt.Sprintf("(CloV.mk \"%s\" %s [%s])", name, recvArg, strings.Join(vals, ", "))
}

func init() {
	// SortedDurations once more, with Var (its closure is a value closure over the receiver); a COPY of the unit, so that a
	// Var outside the subset cannot take the four summaries' ties down with it
	sd := *units["GoSortedDurations"]
	sd.name = "GoSDVar"
	sd.funcs = append(append([]string(nil), sd.funcs...), "Var")
	sd.imports = []string{"CircuitModel.GoFsnewPrims"}
	sd.open = []string{"CM", "CM.Go", "CM.GoSD", "CM.GoFsNew.SV"}
	sd.types = map[string]string{"time.Duration": "I64", "float64": "GoF64", "expvar.Var": "CloV", "interface{}": "VarMap"}
	sd.valueClosures = true
	units["GoSDVar"] = &sd
	heapTypes := map[string]string{"time.Time": "Int", "time.Duration": "Int", "int": "Int", "int64": "Int",
		"RollingCounter": "RollingCounter", "RollingPercentile": "RollingPercentile", "durationsBucket": "durationsBucket",
		"[]durationsBucket": "(List durationsBucket)"}
	lits := map[string]bool{"RollingCounter": true, "RollingBuckets": true, "RollingPercentile": true, "durationsBucket": true}
	// constructors: `make([]T, n)` allocates (the new slice has an identity), struct literals field by field
	units["GoNewRC"] = &unit{
		name: "GoNewRC", file: "faststats/rolling_counter.go", recv: "", funcs: []string{"NewRollingCounter"},
		imports: []string{"CircuitModel.GoFsnewPrims"}, open: []string{"CM", "CM.Go", "CM.GoFsNew", "CM.GoFsNew.H"}, vars: "", monad: "HM",
		types: heapTypes, structLits: lits, makeAction: true,
	}
	units["GoNewRP"] = &unit{
		name: "GoNewRP", file: "faststats/rolling_percentile.go", recv: "", funcs: []string{"NewRollingPercentile", "makeBuckets", "newDurationsBucket"},
		imports: []string{"CircuitModel.GoFsnewPrims"}, open: []string{"CM", "CM.Go", "CM.GoFsNew", "CM.GoFsNew.H"}, vars: "", monad: "HM",
		types: heapTypes, structLits: lits, makeAction: true,
	}
	// wall-clock wrappers: `time.Now()` is one reading of the environment's clock
	wallTypes := map[string]string{"time.Time": "Int", "time.Duration": "Int", "int": "Int", "int64": "Int", "func(int)": "ClearFn",
		"SortedDurations": "(List Int)", "[]time.Duration": "(List Int)", "string": "String"}
	units["GoRCWall"] = &unit{
		name: "GoRCWall", file: "faststats/rolling_counter.go", recv: "RollingCounter", funcs: []string{"RollingSum", "StringAt"},
		methods: map[string]bool{"clearBucket": true},
		imports: []string{"CircuitModel.GoFsnewPrims"}, open: []string{"CM", "CM.Go", "CM.GoFsNew", "CM.GoFsNew.CW"}, vars: "", monad: "CWM", types: wallTypes,
	}
	units["GoRPSnap"] = &unit{
		name: "GoRPSnap", file: "faststats/rolling_percentile.go", recv: "RollingPercentile", funcs: []string{"SnapshotAt", "Snapshot"},
		imports: []string{"CircuitModel.GoFsnewPrims"}, open: []string{"CM", "CM.Go", "CM.GoFsNew", "CM.GoFsNew.PW"}, vars: "", monad: "PWM", types: wallTypes,
	}
	// the bucket iterator: the callback is the environment's (what it is handed is recorded)
	units["GoDBIter"] = &unit{
		name: "GoDBIter", file: "faststats/rolling_percentile.go", recv: "durationsBucket", funcs: []string{"IterateDurations"},
		imports: []string{"CircuitModel.GoFsnewPrims"}, open: []string{"CM", "CM.Go", "CM.GoFsNew", "CM.GoFsNew.IT"}, vars: "", monad: "ITM",
		types: map[string]string{"time.Duration": "Int", "int64": "Int", "int": "Int", "func(time.Duration)": "DurCb"},
	}
}

// mergeprogs — regenerates lean/Generated/MergeProgs.lean from the Go source: for every struct type that has a
// Merge/merge method taking a value of its own type, the table of its exported fields (with merge kinds) and the
// method body translated into the MergeLang object language.  Anything not recognised becomes `.opaque`, which the
// verified checker rejects: the translator never guesses.
//
//	mergeprogs REPO > MergeProgs.lean
package main

import (
	"bytes"
	"fmt"
	"go/ast"
	"go/parser"
	"go/printer"
	"go/token"
	"os"
	"path/filepath"
	"sort"
	"strings"
)

type method struct {
	recv, other string
	body        *ast.BlockStmt
}

type pkgInfo struct {
	name    string
	structs map[string]*ast.StructType
	methods map[string]map[string]*method // type -> method name -> method (only (other T) shape)
}

var fset = token.NewFileSet()

func src(n ast.Node) string {
	var b bytes.Buffer
	printer.Fprint(&b, fset, n)
	return strings.Join(strings.Fields(b.String()), " ")
}

func loadPkg(dir string) *pkgInfo {
	pkgs, err := parser.ParseDir(fset, dir, func(fi os.FileInfo) bool { return !strings.HasSuffix(fi.Name(), "_test.go") }, 0)
	if err != nil {
		return nil
	}
	for _, p := range pkgs {
		if p.Name == "main" {
			continue
		}
		info := &pkgInfo{name: p.Name, structs: map[string]*ast.StructType{}, methods: map[string]map[string]*method{}}
		for _, f := range p.Files {
			for _, d := range f.Decls {
				switch d := d.(type) {
				case *ast.GenDecl:
					for _, s := range d.Specs {
						if ts, ok := s.(*ast.TypeSpec); ok {
							if st, ok := ts.Type.(*ast.StructType); ok {
								info.structs[ts.Name.Name] = st
							}
						}
					}
				case *ast.FuncDecl:
					if d.Recv == nil || len(d.Recv.List) != 1 || d.Body == nil {
						continue
					}
					star, ok := d.Recv.List[0].Type.(*ast.StarExpr)
					if !ok {
						continue
					}
					tid, ok := star.X.(*ast.Ident)
					if !ok || len(d.Recv.List[0].Names) != 1 {
						continue
					}
					if d.Type.Params == nil || len(d.Type.Params.List) != 1 || len(d.Type.Params.List[0].Names) != 1 {
						continue
					}
					pt, ok := d.Type.Params.List[0].Type.(*ast.Ident)
					if !ok || pt.Name != tid.Name {
						continue
					}
					if info.methods[tid.Name] == nil {
						info.methods[tid.Name] = map[string]*method{}
					}
					info.methods[tid.Name][d.Name.Name] = &method{recv: d.Recv.List[0].Names[0].Name, other: d.Type.Params.List[0].Names[0].Name, body: d.Body}
				}
			}
		}
		return info
	}
	return nil
}

func mergeMethod(info *pkgInfo, ty string) *method {
	if m := info.methods[ty]["Merge"]; m != nil {
		return m
	}
	return info.methods[ty]["merge"]
}

// sel returns F if e is `base.F`
func sel(e ast.Expr, base string) (string, bool) {
	s, ok := e.(*ast.SelectorExpr)
	if !ok {
		return "", false
	}
	id, ok := s.X.(*ast.Ident)
	if !ok || id.Name != base {
		return "", false
	}
	return s.Sel.Name, true
}

func isZeroLit(e ast.Expr) bool {
	switch v := e.(type) {
	case *ast.BasicLit:
		return v.Value == "0" || v.Value == `""`
	case *ast.Ident:
		return v.Name == "nil"
	}
	return false
}

// assignField: body is exactly `{ recv.F = other.F }`
func assignField(b *ast.BlockStmt, recv, other, f string) bool {
	if len(b.List) != 1 {
		return false
	}
	a, ok := b.List[0].(*ast.AssignStmt)
	if !ok || a.Tok != token.ASSIGN || len(a.Lhs) != 1 || len(a.Rhs) != 1 {
		return false
	}
	l, ok1 := sel(a.Lhs[0], recv)
	r, ok2 := sel(a.Rhs[0], other)
	return ok1 && ok2 && l == f && r == f
}

func lean(s string) string { return `"` + strings.ReplaceAll(strings.ReplaceAll(s, `\`, `\\`), `"`, `\"`) + `"` }

func translate(info *pkgInfo, ty string, m *method, depth int) []string {
	var out []string
	for _, st := range m.body.List {
		out = append(out, translateStmt(info, ty, m, st, depth)...)
	}
	return out
}

func opaque(n ast.Node) []string {
	s := src(n)
	if len(s) > 70 {
		s = s[:70]
	}
	return []string{".opaque " + lean(s)}
}

func translateStmt(info *pkgInfo, ty string, m *method, st ast.Stmt, depth int) []string {
	recv, other := m.recv, m.other
	switch s := st.(type) {
	case *ast.ReturnStmt:
		return nil
	case *ast.IfStmt:
		if s.Init != nil || s.Else != nil {
			return opaque(st)
		}
		if be, ok := s.Cond.(*ast.BinaryExpr); ok && be.Op == token.EQL {
			if f, ok := sel(be.X, recv); ok && isZeroLit(be.Y) && assignField(s.Body, recv, other, f) {
				return []string{".fillIfZero " + lean(f)}
			}
		}
		if ue, ok := s.Cond.(*ast.UnaryExpr); ok && ue.Op == token.NOT {
			if f, ok := sel(ue.X, recv); ok && assignField(s.Body, recv, other, f) {
				return []string{".orBool " + lean(f)}
			}
		}
		if f, ok := mapUnion(s, recv, other); ok {
			return []string{".unionMapLeft " + lean(f)}
		}
		return opaque(st)
	case *ast.AssignStmt:
		if s.Tok == token.ASSIGN && len(s.Lhs) == 1 && len(s.Rhs) == 1 {
			if f, ok := sel(s.Lhs[0], recv); ok {
				if call, ok := s.Rhs[0].(*ast.CallExpr); ok && call.Ellipsis != token.NoPos && len(call.Args) == 2 {
					if id, ok := call.Fun.(*ast.Ident); ok && id.Name == "append" {
						a0, ok0 := sel(call.Args[0], recv)
						a1, ok1 := sel(call.Args[1], other)
						if ok0 && ok1 && a0 == f && a1 == f {
							return []string{".appendList " + lean(f)}
						}
					}
				}
			}
		}
		return opaque(st)
	case *ast.ExprStmt:
		call, ok := s.X.(*ast.CallExpr)
		if !ok || len(call.Args) != 1 {
			return opaque(st)
		}
		fun, ok := call.Fun.(*ast.SelectorExpr)
		if !ok {
			return opaque(st)
		}
		// recv.F.merge(other.F)
		if f, ok := sel(fun.X, recv); ok && (fun.Sel.Name == "merge" || fun.Sel.Name == "Merge") {
			if g, ok := sel(call.Args[0], other); ok && g == f {
				return []string{".nested " + lean(f)}
			}
		}
		// recv.helper(other): inline another method of the same type
		if id, ok := fun.X.(*ast.Ident); ok && id.Name == recv && depth < 3 {
			if arg, ok := call.Args[0].(*ast.Ident); ok && arg.Name == other {
				if h := info.methods[ty][fun.Sel.Name]; h != nil && fun.Sel.Name != "Merge" && fun.Sel.Name != "merge" {
					return translate(info, ty, h, depth+1)
				}
			}
		}
		return opaque(st)
	}
	return opaque(st)
}

// mapUnion recognises
//
//	if len(other.F) != 0 { [if recv.F == nil { recv.F = make(...) }] for k, v := range other.F { if _, ok := recv.F[k]; !ok { recv.F[k] = v } } }
func mapUnion(s *ast.IfStmt, recv, other string) (string, bool) {
	be, ok := s.Cond.(*ast.BinaryExpr)
	if !ok || be.Op != token.NEQ || !isZeroLit(be.Y) {
		return "", false
	}
	call, ok := be.X.(*ast.CallExpr)
	if !ok || len(call.Args) != 1 {
		return "", false
	}
	if id, ok := call.Fun.(*ast.Ident); !ok || id.Name != "len" {
		return "", false
	}
	f, ok := sel(call.Args[0], other)
	if !ok {
		return "", false
	}
	stmts := s.Body.List
	if len(stmts) == 2 { // optional nil-map creation
		is, ok := stmts[0].(*ast.IfStmt)
		if !ok || is.Init != nil || is.Else != nil || len(is.Body.List) != 1 {
			return "", false
		}
		c, ok := is.Cond.(*ast.BinaryExpr)
		if !ok || c.Op != token.EQL || !isZeroLit(c.Y) {
			return "", false
		}
		if g, ok := sel(c.X, recv); !ok || g != f {
			return "", false
		}
		a, ok := is.Body.List[0].(*ast.AssignStmt)
		if !ok || len(a.Lhs) != 1 || len(a.Rhs) != 1 {
			return "", false
		}
		if g, ok := sel(a.Lhs[0], recv); !ok || g != f {
			return "", false
		}
		mk, ok := a.Rhs[0].(*ast.CallExpr)
		if !ok {
			return "", false
		}
		if id, ok := mk.Fun.(*ast.Ident); !ok || id.Name != "make" {
			return "", false
		}
		stmts = stmts[1:]
	}
	if len(stmts) != 1 {
		return "", false
	}
	rs, ok := stmts[0].(*ast.RangeStmt)
	if !ok || rs.Key == nil || rs.Value == nil {
		return "", false
	}
	if g, ok := sel(rs.X, other); !ok || g != f {
		return "", false
	}
	k, v := rs.Key.(*ast.Ident), rs.Value.(*ast.Ident)
	if k == nil || v == nil || len(rs.Body.List) != 1 {
		return "", false
	}
	inner, ok := rs.Body.List[0].(*ast.IfStmt)
	if !ok || inner.Init == nil || inner.Else != nil || len(inner.Body.List) != 1 {
		return "", false
	}
	init, ok := inner.Init.(*ast.AssignStmt)
	if !ok || init.Tok != token.DEFINE || len(init.Lhs) != 2 || len(init.Rhs) != 1 {
		return "", false
	}
	okVar, _ := init.Lhs[1].(*ast.Ident)
	ix, ok := init.Rhs[0].(*ast.IndexExpr)
	if !ok || okVar == nil {
		return "", false
	}
	if g, ok := sel(ix.X, recv); !ok || g != f {
		return "", false
	}
	if id, ok := ix.Index.(*ast.Ident); !ok || id.Name != k.Name {
		return "", false
	}
	ue, ok := inner.Cond.(*ast.UnaryExpr)
	if !ok || ue.Op != token.NOT {
		return "", false
	}
	if id, ok := ue.X.(*ast.Ident); !ok || id.Name != okVar.Name {
		return "", false
	}
	as, ok := inner.Body.List[0].(*ast.AssignStmt)
	if !ok || as.Tok != token.ASSIGN || len(as.Lhs) != 1 || len(as.Rhs) != 1 {
		return "", false
	}
	lix, ok := as.Lhs[0].(*ast.IndexExpr)
	if !ok {
		return "", false
	}
	if g, ok := sel(lix.X, recv); !ok || g != f {
		return "", false
	}
	if id, ok := lix.Index.(*ast.Ident); !ok || id.Name != k.Name {
		return "", false
	}
	if id, ok := as.Rhs[0].(*ast.Ident); !ok || id.Name != v.Name {
		return "", false
	}
	return f, true
}

func fieldKind(info *pkgInfo, e ast.Expr) string {
	switch t := e.(type) {
	case *ast.Ident:
		if t.Name == "bool" {
			return ".bool"
		}
		if _, ok := info.structs[t.Name]; ok && mergeMethod(info, t.Name) != nil {
			return ".nested " + lean(info.name+"."+t.Name)
		}
	case *ast.ArrayType:
		if t.Len == nil {
			return ".list"
		}
	case *ast.MapType:
		return ".map"
	}
	return ".scalar"
}

func main() {
	repo := os.Args[1]
	var dirs []string
	filepath.Walk(repo, func(p string, fi os.FileInfo, err error) error {
		if err == nil && fi.IsDir() {
			if strings.HasPrefix(fi.Name(), ".") && p != repo {
				return filepath.SkipDir
			}
			dirs = append(dirs, p)
		}
		return nil
	})
	sort.Strings(dirs)
	var defs []string
	for _, d := range dirs {
		info := loadPkg(d)
		if info == nil {
			continue
		}
		var tys []string
		for ty := range info.structs {
			if mergeMethod(info, ty) != nil {
				tys = append(tys, ty)
			}
		}
		sort.Strings(tys)
		for _, ty := range tys {
			var fields []string
			for _, f := range info.structs[ty].Fields.List {
				for _, n := range f.Names {
					if ast.IsExported(n.Name) {
						fields = append(fields, fmt.Sprintf("⟨%s, %s⟩", lean(n.Name), fieldKind(info, f.Type)))
					}
				}
			}
			prog := translate(info, ty, mergeMethod(info, ty), 0)
			defs = append(defs, fmt.Sprintf("  { name := %s,\n    fields := [%s],\n    prog := [%s] }", lean(info.name+"."+ty), strings.Join(fields, ", "), strings.Join(prog, ", ")))
		}
	}
	fmt.Println("/- GENERATED by tools/extract/mergeprogs from the Go source — do not edit; regenerated on every run -/")
	fmt.Println("import CircuitModel.MergeLang")
	fmt.Println("namespace CM.Generated")
	fmt.Println("open CM.Merge")
	fmt.Println("def mergeTypes : List TypeDef := [")
	fmt.Println(strings.Join(defs, ",\n"))
	fmt.Println("]")
	fmt.Println("end CM.Generated")
}

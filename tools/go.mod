module veriftools

go 1.21

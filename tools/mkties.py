#!/usr/bin/env python3
"""mkties.py — writes lean/CircuitProofs/Props/CnnTie.lean: per property, the list of tie theorems (proved in
CircuitProofs/GoTie/* about code regenerated from the Go source) that the property's audit must find, each re-declared
under the property's namespace with `tie_theorem`.  Which function bodies matter to which property is decided HERE."""
import os
OUT = os.path.join(os.path.dirname(os.path.abspath(__file__)), "..", "lean", "CircuitProofs", "Props")
KINDS = ["Success", "ErrFailure", "ErrTimeout", "ErrBadRequest", "ErrInterrupt", "ErrConcurrencyLimitReject", "ErrShortCircuit"]

def evs(unit, model):
    return [("tie_%s_%s" % (unit, k), "CM.GoTie.%s.go_%s_eq" % (unit, k), "today's `%s` of this type is the model's `%s` for that event kind" % (k, model)) for k in KINDS]

def circ(fn, doc, thm=None):
    return ("tie_circuit_%s" % fn, "CM.GoTie.%s" % (thm or "go_%s_eq" % fn), doc), "F_" + fn

CIRC_DOC = {
    "now": "`c.now()` is one reading of the configured clock",
    "IsOpen": "`IsOpen()` = ForceOpen, else not ForcedClosed and the stored flag (`isOpenEff`)",
    "isEmptyOrNil": "a constructed circuit is neither nil nor empty",
    "ConcurrentCommands": "the run gauge reads the counter `run` moves",
    "ConcurrentFallbacks": "the fallback gauge reads the counter `fallback` moves",
    "throttleConcurrentCommands": "the limit is read once; negative = unlimited; the caller counts itself",
    "openCircuit": "`openCircuit` = the model's `openCircuit` (given `IsOpen`'s tie): ForcedClosed / already open ⇒ nothing; else Opened is notified, then the flag is set",
    "close": "`close` = the model's `closeCircuit` (given `IsOpen`'s tie)",
    "attemptToOpen": "`attemptToOpen` = the model's `attemptToOpen` (given the ties of its callees)",
    "allowNewRun": "`allowNewRun` = the model's `allowNewRun`: closed ⇒ yes, ForceOpen ⇒ no without asking the closer, else the closer decides",
    "OpenCircuit": "`OpenCircuit` stamps one reading of the configured clock",
    "CloseCircuit": "`CloseCircuit` stamps one reading of the configured clock and forces the close",
    "checkErrBadRequest": "first link of the classification chain",
    "checkErrTimeout": "second link: the deadline computed from the start reading, compared with the done reading",
    "checkErrInterrupt": "third link: caller's context ended, error returned, not ignored, classifier agrees",
    "checkErrFailure": "fourth link",
    "checkSuccess": "last link: success is reported, then an open circuit asks its closer",
}
def C(fn): return circ(fn, CIRC_DOC[fn])
RUN = circ("run", "`run` computes the model's `runStep` (given the ties of its callees): every path, deferred calls included", "go_run_ok")
FALLBACK = circ("fallback", "`fallback` computes the model's `fallbackStep`", "go_fallback_ok")
EXECUTE = circ("Execute", "`Execute` computes the model's `execute` (given `run`'s and `fallback`'s ties)", "go_Execute_ok")
RUNENTRY = circ("Run", "`Run` is `Execute` without a fallback", "go_Run_ok")
ALL = [(("tie_circuit_all_execute", "CM.GoTie.execute_tie", "ALL TOGETHER, no hypotheses left: today's `Execute` computes the model's `execute`"), "All"),
       (("tie_circuit_all_run", "CM.GoTie.run_tie", "… and `Run`"), "All"),
       (("tie_circuit_all_manual", "CM.GoTie.manual_tie", "… and `OpenCircuit` / `CloseCircuit` / `IsOpen`"), "All"),
       (("tie_circuit_all_gauges", "CM.GoTie.gauges_tie", "… and the two gauges"), "All")]
LIVECFG = [(("tie_livecfg_reset", "CM.GoTie.GoLiveCfg.go_reset_eq", "`atomicCircuitConfig.reset` publishes every mirrored setting of the config it is given"), "T_GoLiveCfg"),
           (("tie_livecfg_reset_all", "CM.GoTie.GoLiveCfg.reset_publishes_all", "… spelled out field by field"), "T_GoLiveCfg")]
def T(unit, items): return [(it, "T_" + unit) for it in items]
SETCFG = T("GoSetCfg", [
    ("tie_setcfg_live", "CM.GoTie.GoSetCfg.go_SetConfigThreadSafe_eq", "`SetConfigThreadSafe` stores the config, publishes EVERY mirrored setting, tells Configurable logic; nothing else"),
    ("tie_setcfg_live_keeps", "CM.GoTie.GoSetCfg.setLive_keeps", "… collectors, logic objects and hooks stay"),
    ("tie_setcfg_rebuild", "CM.GoTie.GoSetCfg.go_SetConfigNotThreadSafe_eq", "`SetConfigNotThreadSafe` takes the hooks, makes both logic objects afresh, REBUILDS the three collector lists, then does what the live one does"),
    ("tie_setcfg_rebuild_lists", "CM.GoTie.GoSetCfg.rebuild_replaces_collectors", "… the lists are closer, opener, then the configured collectors in order — nothing of the previous configuration stays"),
    ("tie_setcfg_Config", "CM.GoTie.GoSetCfg.go_Config_eq", "`Config()` returns what was stored")])
TC = T("GoTimedCheck", [
    ("tie_gate_resetOpen", "CM.GoTie.GoTimedCheck.go_resetOpenTimeWithLock_eq", "`resetOpenTimeWithLock` is the model's `TC.resetOpen` (+ the closure handed to the timer hook)"),
    ("tie_gate_reset_tc", "CM.GoTie.GoTimedCheck.reset_tc", "… its `tc` part literally"),
    ("tie_gate_reset_inv", "CM.GoTie.GoTimedCheck.reset_inv", "… and the recorded closures stay the model's armed versions"),
    ("tie_gate_SleepStart", "CM.GoTie.GoTimedCheck.go_SleepStart_eq", "`SleepStart` = the same under the lock"),
    ("tie_gate_SetSleepDuration", "CM.GoTie.GoTimedCheck.go_SetSleepDuration_eq", "setter"),
    ("tie_gate_SetEventCountToAllow", "CM.GoTie.GoTimedCheck.go_SetEventCountToAllow_eq", "setter"),
    ("tie_gate_Check", "CM.GoTie.GoTimedCheck.go_Check_eq", "`Check` is the model's `TC.check`: answer, gate afterwards, lock released, closures in step"),
    ("tie_gate_fire", "CM.GoTie.GoTimedCheck.go_fire_eq", "the timer callback is the model's `TC.fire`")])

FAN_RUN = [((("tie_fanout_run_%s" % k), "CM.GoTie.GoFanout.run_%s" % k, "`RunMetricsCollection.%s` tells every run collector exactly once, in order" % k), "T_GoFanRun") for k in KINDS]
FAN_FB = [((("tie_fanout_fb_%s" % k), "CM.GoTie.GoFanout.fb_%s" % k, "`FallbackMetricsCollection.%s` tells every fallback collector exactly once, in order" % k), "T_GoFanFb")
          for k in ("Success", "ErrFailure", "ErrConcurrencyLimitReject")]
FAN_CIRC = [((("tie_fanout_circuit_%s" % k), "CM.GoTie.GoFanout.circ_%s" % k, "`MetricsCollection.%s` tells every circuit-level collector exactly once, in order" % k), "T_GoFanCirc")
            for k in ("Opened", "Closed")]

ROLL = T("GoRollingBuckets", [
    ("tie_rolling_Advance", "CM.GoTie.GoRolling.go_Advance_eq", "today's `RollingBuckets.Advance` (sequential CompareAndSwap, fuel ≥ 2 for its self-calls) computes the model's `RC.advance`: before the start / older than the window ⇒ -1, same bucket, backwards inside the window, forward with the clearing loop")]) + T("GoRollingCounter", [
    ("tie_rolling_Inc", "CM.GoTie.GoRolling.go_Inc_eq", "`Inc` = `RC.inc`: the total always, the bucket and the rolling sum only when Advance accepts the instant"),
    ("tie_rolling_RollingSumAt", "CM.GoTie.GoRolling.go_RollingSumAt_eq", "`RollingSumAt` = `RC.sumAt`"),
    ("tie_rolling_TotalSum", "CM.GoTie.GoRolling.go_TotalSum_eq", "`TotalSum`"),
    ("tie_rolling_clearBucket", "CM.GoTie.GoRolling.go_clearBucket_eq", "`clearBucket` = `RC.clear`: the bucket is swapped to 0 and taken off the rolling sum"),
    ("tie_rolling_Reset", "CM.GoTie.GoRolling.go_Reset_eq", "`Reset` = `RC.reset`: every bucket cleared, the total stays"),
    ("tie_rolling_GetBuckets", "CM.GoTie.GoRolling.go_GetBuckets_eq", "`GetBuckets` = `RC.getBuckets`: newest first")])

MGR = T("GoManager", [
    ("tie_manager_CreateCircuit", "CM.GoTie.GoManager.go_CreateCircuit_eq", "today's `CreateCircuit` computes the model's `Mgr.create`: existence test FIRST (a failed create runs no constructor), explicit configs in argument order, default constructors from last to first, library defaults last, one new map entry"),
    ("tie_manager_GetCircuit", "CM.GoTie.GoManager.go_GetCircuit_eq", "`GetCircuit` reads the map"),
    ("tie_manager_MustCreateCircuit", "CM.GoTie.GoManager.go_MustCreateCircuit_eq", "`MustCreateCircuit`: the created circuit, or a panic with nothing changed")])

SD = T("GoSortedDurations", [
    ("tie_sd_Min", "CM.GoTie.GoSD.go_Min_eq", "today's `SortedDurations.Min` = `SD.min`"),
    ("tie_sd_Max", "CM.GoTie.GoSD.go_Max_eq", "`Max` = `SD.max`"),
    ("tie_sd_Mean", "CM.GoTie.GoSD.go_Mean_eq", "`Mean` = `SD.mean`: int64 sum with wrap-around, truncated division, -1 when empty"),
    ("tie_sd_Percentile", "CM.GoTie.GoSD.go_Percentile_eq", "`Percentile(p)` = `SD.percentile` for every finite p: the two neighbours at floor/ceil of p/100·(n-1) in binary64, weighted; Go's index panic exactly where the model says `none`")])

LL = "CM.GoTie.GoLiveLogic."
NEVER = T("GoLiveLogic", [
    ("tie_default_ShouldOpen", LL + "Opens.go_ShouldOpen_eq", "the default opener (closers.go) never opens"),
    ("tie_default_Prevent", LL + "Opens.go_Prevent_eq", "… and never vetoes"),
    ("tie_default_Allow", LL + "Closes.go_Allow_eq", "the default closer never admits a probe"),
    ("tie_default_ShouldClose", LL + "Closes.go_ShouldClose_eq", "… and never closes")])
OPENER_CFG = T("GoLiveLogic", [
    ("tie_opener_SetConfigThreadSafe", LL + "Opener.go_SetConfigThreadSafe_eq", "a live reconfiguration of the hystrix opener stores the config and pushes BOTH thresholds into the words `ShouldOpen` reads; the counters are untouched"),
    ("tie_opener_Config", LL + "Opener.go_Config_eq", "`Config()` returns what was stored")])
CLOSER_CFG = T("GoLiveLogic", [
    ("tie_closer_SetConfigThreadSafe", LL + "Closer.go_SetConfigThreadSafe_eq", "a live reconfiguration of the hystrix closer pushes sleep window, probe budget, required successes and the timer hook into the running object"),
    ("tie_closer_SetConfigNotThreadSafe", LL + "Closer.go_SetConfigNotThreadSafe_eq", "the construction-time one does the same"),
    ("tie_closer_Config", LL + "Closer.go_Config_eq", "`Config()` returns what was stored")])
SLO_CFG = T("GoLiveLogic", [
    ("tie_slo_SetConfigThreadSafe", LL + "Slo.go_SetConfigThreadSafe_eq", "a live reconfiguration of the SLO tracker stores the config and publishes the healthy time"),
    ("tie_slo_Config", LL + "Slo.go_Config_eq", "`Config()` returns what was stored")])

RPT = T("GoRollingBucketsP", [
    ("tie_ring_Advance", "CM.GoTie.GoRP.go_Advance_eq", "today's `RollingBuckets.Advance`, over the percentile ring, computes the model's `RP.advance` (`ringPlan`: new last index, slots cleared in order, returned index)")]) + T("GoRollingPercentile", [
    ("tie_ring_AddDuration", "CM.GoTie.GoRP.go_AddDuration_eq", "`AddDuration` = `RP.add`: ignored for an empty ring and when Advance rejects the instant"),
    ("tie_ring_clearBucket", "CM.GoTie.GoRP.go_clearBucket_eq", "`clearBucket` = `RP.clearSlot`"),
    ("tie_ring_Reset", "CM.GoTie.GoRP.go_Reset_eq", "`Reset` = `RP.reset`"),
    ("tie_ring_SortedDurations", "CM.GoTie.GoRP.go_SortedDurations_eq", "`SortedDurations` / `SnapshotAt` = `RP.snapshot`: every bucket's valid durations, ALL of them, ascending")]) + T("GoDurationsBucket", [
    ("tie_slot_addDuration", "CM.GoTie.GoRP.go_addDuration_eq", "`durationsBucket.addDuration` = `DSlot.add`: a circular buffer overwriting the oldest"),
    ("tie_slot_clear", "CM.GoTie.GoRP.go_clear_eq", "`clear` = `DSlot.clear`"),
    ("tie_slot_Durations", "CM.GoTie.GoRP.go_Durations_eq", "`Durations` = `DSlot.durations`: the first min(count, size) cells")])

# ---- errors.go and faststats/atomic.go (units GoIsBadRequest, GoCircuitError, GoSimpleBadRequest, GoAtomicBoolean, GoAtomicInt64)
ERR_BAD = T("GoIsBadRequest", [
    ("tie_errs_IsBadRequest", "CM.GoTie.GoIsBadRequest.go_IsBadRequest_eq", "today's `IsBadRequest` = the first BadRequest implementer found by errors.As (depth-first, pre-order, through %w and joins) exists and answers true; never panics"),
    ("tie_errs_IsBadRequest_wrap", "CM.GoTie.GoIsBadRequest.isBadRequest_wrap", "… a %w wrapper is transparent"),
    ("tie_errs_IsBadRequest_simple", "CM.GoTie.GoIsBadRequest.isBadRequest_simpleBad", "… a SimpleBadRequest is a bad request whatever it wraps"),
    ("tie_errs_IsBadRequest_abs", "CM.GoTie.GoIsBadRequest.absErr_isBad", "the verdict primitive used by the circuit.go ties is this function on the model's abstraction of the error")]) + T("GoSimpleBadRequest", [
    ("tie_errs_SimpleBadRequest_BadRequest", "CM.GoTie.GoSimpleBadRequest.go_BadRequest_eq", "`SimpleBadRequest.BadRequest()` is the constant true")])
ERR_NOTBAD = T("GoIsBadRequest", [
    ("tie_errs_rejections_not_bad", "CM.GoTie.GoIsBadRequest.isBadRequest_circuit", "the library's rejections are never bad requests: they reach the fallback")]) + T("GoCircuitError", [
    ("tie_errs_sentinels_not_bad", "CM.GoTie.GoCircuitError.sentinels_not_bad", "… in particular the two sentinels as declared today")])
ERR_OPEN = T("GoCircuitError", [
    ("tie_errs_CircuitOpen", "CM.GoTie.GoCircuitError.go_CircuitOpen_eq", "`CircuitOpen()` returns the flag"),
    ("tie_errs_errCircuitOpen", "CM.GoTie.GoCircuitError.errCircuitOpen_CircuitOpen", "the sentinel for an open circuit, as declared today in errors.go, reports CircuitOpen()==true")])
ERR_LIMIT = T("GoCircuitError", [
    ("tie_errs_ConcurrencyLimitReached", "CM.GoTie.GoCircuitError.go_ConcurrencyLimitReached_eq", "`ConcurrencyLimitReached()` returns the flag"),
    ("tie_errs_errThrottled", "CM.GoTie.GoCircuitError.errThrottled_ConcurrencyLimitReached", "the sentinel for a refused call, as declared today, reports ConcurrencyLimitReached()==true")])
ATOM_I64 = T("GoAtomicInt64", [
    ("tie_atomic_i64_Get", "CM.GoTie.GoAtomicInt64.go_Get_eq", "`AtomicInt64.Get` is one load of the word"),
    ("tie_atomic_i64_Set", "CM.GoTie.GoAtomicInt64.go_Set_eq", "`AtomicInt64.Set` is one store"),
    ("tie_atomic_i64_Duration", "CM.GoTie.GoAtomicInt64.go_Duration_eq", "`Duration()` is one load read as nanoseconds")])
ATOM_BOOL = T("GoAtomicBoolean", [
    ("tie_atomic_bool_Get", "CM.GoTie.GoAtomicBoolean.go_Get_eq", "`AtomicBoolean.Get` is one load; true ⇔ word ≠ 0"),
    ("tie_atomic_bool_Set", "CM.GoTie.GoAtomicBoolean.go_Set_eq", "`Set(b)` is one store of 1 / 0"),
    ("tie_atomic_bool_field", "CM.GoTie.GoAtomicBoolean.get_after_set", "so the word is a Bool field of the model state")])

# ---- faststats constructors, wall-clock wrappers, SnapshotAt, IterateDurations, Var (units GoNewRC … GoSDVar)
FSNEW_RC = T("GoNewRC", [
    ("tie_rolling_New", "CM.GoTie.GoNewRC.go_NewRollingCounter_eq", "`NewRollingCounter` makes ONE new array of numBuckets zero cells (panic for a negative count) and returns the counter over it: sums 0, ring from `now`, newest index 0"),
    ("tie_rolling_New_abs", "CM.GoTie.GoNewRC.newRC_abs", "… read back into the model it is `RC.new n w`, started at `now`"),
    ("tie_rolling_New_own", "CM.GoTie.GoNewRC.NewRollingCounter_new", "… its bucket slice is fresh and nothing older is disturbed")]) + T("GoRCWall", [
    ("tie_rolling_RollingSum", "CM.GoTie.GoRCWall.go_RollingSum_eq", "`RollingSum()` = `RC.sumAt` at exactly one wall-clock reading"),
    ("tie_rolling_RollingSum_at", "CM.GoTie.GoRCWall.go_RollingSum_is_RollingSumAt", "… i.e. today's `RollingSumAt` at that reading"),
    ("tie_rolling_StringAt", "CM.GoTie.GoRCWall.go_StringAt_eq", "`StringAt` renders GetBuckets(now) newest first, RollingSumAt(now), TotalSum()")])
FSNEW_RP = T("GoNewRP", [
    ("tie_ring_newDurationsBucket", "CM.GoTie.GoNewRP.go_newDurationsBucket_eq", "`newDurationsBucket(size)`: one new buffer of exactly `size` zero cells, cursor 0"),
    ("tie_ring_makeBuckets", "CM.GoTie.GoNewRP.go_makeBuckets_eq", "`makeBuckets(n, size)`: n slots, slot i over its own new buffer (array k+i) of exactly `size` cells"),
    ("tie_ring_New", "CM.GoTie.GoNewRP.go_NewRollingPercentile_eq", "`NewRollingPercentile` = those buckets in a ring of n buckets of the given width from `now`"),
    ("tie_ring_New_abs", "CM.GoTie.GoNewRP.newRP_abs", "… read back into the model it is `RP.new n w size`"),
    ("tie_ring_New_own", "CM.GoTie.GoNewRP.NewRollingPercentile_new", "… buffers pairwise distinct, all fresh, nothing older disturbed")]) + T("GoRPSnap", [
    ("tie_ring_SnapshotAt", "CM.GoTie.GoRPSnap.go_SnapshotAt_eq", "`SnapshotAt(now)` = `RP.snapshot now`"),
    ("tie_ring_SnapshotAt_sorted", "CM.GoTie.GoRPSnap.go_SnapshotAt_is_SortedDurations", "… literally today's `SortedDurations(now)`"),
    ("tie_ring_Snapshot", "CM.GoTie.GoRPSnap.go_Snapshot_eq", "`Snapshot()` = `RP.snapshot` at exactly one wall-clock reading")]) + T("GoDBIter", [
    ("tie_slot_IterateDurations", "CM.GoTie.GoDBIter.go_IterateDurations_eq", "`IterateDurations` hands the callback the cells at i % size for i = cur-1 … start, newest first, and returns the cursor")]) + T("GoSDVar", [
    ("tie_sd_Var", "CM.GoTie.GoSDVar.go_Var_eq", "`Var()` returns the function value closed over THIS snapshot"),
    ("tie_sd_Var_eval", "CM.GoTie.GoSDVar.go_Var_eval_eq", "evaluating it publishes min, p25=Percentile(25), p50=Percentile(50), p90=Percentile(90), p99=Percentile(99), max, mean"),
    ("tie_sd_Var_labels", "CM.GoTie.GoSDVar.varSummary_labels", "… every label of `SD.varLabels` carries Percentile at its own number"),
    ("tie_sd_Var_same_Percentile", "CM.GoTie.GoSDVar.go_Percentile_same", "the Percentile this unit calls is the body tied in GoSortedDurations")])

# ---- metrics/rolling: ErrorPercentage, construction of the rolling objects, StatFactory, Find* (units GoStatsRun …)
STATS = T("GoStatsRun", [
  ("tie_stats_ErrorsAt", "CM.GoTie.GoStatsRun.go_ErrorsAt_eq", "`ErrorsAt` = failures + timeouts, both read at the same instant (state with object identities)"),
  ("tie_stats_LegitimateAttemptsAt", "CM.GoTie.GoStatsRun.go_LegitimateAttemptsAt_eq", "`LegitimateAttemptsAt` = successes + failures + timeouts"),
  ("tie_stats_ErrorPercentageAt", "CM.GoTie.GoStatsRun.go_ErrorPercentageAt_eq", "today's `ErrorPercentageAt` returns the model's `Cons.errorPercentage` of the three rolling sums (0 without attempts, else the binary64 quotient)"),
  ("tie_stats_ErrorPercentage_formula", "CM.GoTie.GoStatsRun.errorPercentageAt_formula", "… which is the correctly rounded (f+t)/(s+f+t)"),
  ("tie_stats_ErrorPercentage", "CM.GoTie.GoStatsRun.go_ErrorPercentage_eq", "`ErrorPercentage()` is `ErrorPercentageAt` of one reading of the WALL clock"),
  ("tie_stats_Config", "CM.GoTie.GoStatsRun.go_Config_eq", "`Config()` returns what was stored"),
  ("tie_stats_SetConfig", "CM.GoTie.GoStatsRun.go_SetConfigNotThreadSafe_eq", "`SetConfigNotThreadSafe` builds eight rolling objects, each by its own constructor call, from the config and one clock reading"),
  ("tie_stats_SetConfig_fresh", "CM.GoTie.GoStatsRun.setConfig_fresh", "… eight different, new objects"),
  ("tie_stats_SetConfig_model", "CM.GoTie.GoStatsRun.setConfig_toCons", "… which are the model's `RunStats.new`")])
STATSFB = T("GoStatsFb", [
  ("tie_fbstats_SetConfig", "CM.GoTie.GoStatsFb.go_SetConfigNotThreadSafe_eq", "`FallbackStats.SetConfigNotThreadSafe` builds three counters of its own from one clock reading"),
  ("tie_fbstats_SetConfig_fresh", "CM.GoTie.GoStatsFb.setConfig_fresh", "… three different, new objects")])
STATFACTORY = T("GoStatsFactory", [
  ("tie_factory_CreateConfig", "CM.GoTie.GoStatsFactory.go_CreateConfig_eq", "`CreateConfig` binds the name to the SAME fresh collectors it puts into the returned config"),
  ("tie_factory_lookup", "CM.GoTie.GoStatsFactory.create_then_lookup", "… so `RunStats(name)` / `FallbackStats(name)` hand out the created circuit's collectors"),
  ("tie_factory_others", "CM.GoTie.GoStatsFactory.create_keeps_others", "… and other names keep theirs"),
  ("tie_factory_RunStats", "CM.GoTie.GoStatsFactory.go_RunStats_eq", "`RunStats(name)` is the newest binding of the name"),
  ("tie_factory_FallbackStats", "CM.GoTie.GoStatsFactory.go_FallbackStats_eq", "`FallbackStats(name)` likewise")])
STATSFIND = T("GoStatsFind", [
  ("tie_find_run", "CM.GoTie.GoStatsFind.go_FindCommandMetrics_eq", "`FindCommandMetrics` = the first *RunStats among the circuit's run collectors"),
  ("tie_find_fb", "CM.GoTie.GoStatsFind.go_FindFallbackMetrics_eq", "`FindFallbackMetrics` = the first *FallbackStats among its fallback collectors")])

# ---- construction glue (units GoCtor, GoCtorSet, GoManagerAll, GoTCHook, GoSloFactory, GoCircMisc, GoRollingStore)
CTOR = T("GoCtor", [
    ("tie_ctor_New", "CM.GoTie.GoCtor.go_NewCircuitFromConfig_eq", "`NewCircuitFromConfig` = merge with the package defaults, a zero circuit with that name, then exactly the translated `SetConfigNotThreadSafe(merged)`"),
    ("tie_ctor_New_setcfg", "CM.GoTie.GoCtor.m_SetConfigNotThreadSafe_eq", "… whose call IS unit GoSetCfg's translated body (= `rebuild`)"),
    ("tie_ctor_New_lists", "CM.GoTie.GoCtor.newCircuit_collectors", "… collector lists: closer, opener, then the merged config's, in order"),
    ("tie_ctor_New_fields", "CM.GoTie.GoCtor.newCircuit_fields", "… name, stored (merged) config, clock, hooks, logic objects, live mirror")]) + T("GoCtorSet", [
    ("tie_ctor_slices", "CM.GoTie.GoCtorSet.go_SetConfigNotThreadSafe_slices", "`SetConfigNotThreadSafe` over slices with identity and capacity: `rebuild` + three NEW backing arrays"),
    ("tie_ctor_slices_frame", "CM.GoTie.GoCtorSet.rebuildS_frame", "… no array that existed before the call is written (none of the caller's), whatever spare capacity its slices have"),
    ("tie_ctor_slices_caller", "CM.GoTie.GoCtorSet.rebuildS_caller_keeps", "… the caller's slices hold what they held"),
    ("tie_ctor_slices_lists", "CM.GoTie.GoCtorSet.rebuildS_lists", "… the new arrays hold closer, opener, configured collectors"),
    ("tie_ctor_slices_fresh", "CM.GoTie.GoCtorSet.rebuildS_fresh", "… three distinct new arrays")])
MGR_ALL = T("GoManagerAll", [
    ("tie_manager_AllCircuits", "CM.GoTie.GoManagerAll.go_AllCircuits_eq", "`AllCircuits` = one pass over the map under the read lock, every value once; nil manager ⇒ nil"),
    ("tie_manager_AllCircuits_perm", "CM.GoTie.GoManagerAll.allCircuits_perm", "… a permutation of the registered circuits"),
    ("tie_manager_AllCircuits_ids", "CM.GoTie.GoManagerAll.allCircuits_sorted_ids", "… sorted ids = the model's `Mgr.step s .all`")])
TC_HOOK = T("GoTCHook", [
    ("tie_gate_afterFunc", "CM.GoTie.GoTCHook.go_afterFunc_eq", "`afterFunc` asks the injected `TimeAfterFunc` when set, `time.AfterFunc` otherwise: same duration, same closure"),
    ("tie_gate_afterFunc_prim", "CM.GoTie.GoTCHook.arm_is_recv_afterFunc", "… and is what the primitive `recv_afterFunc` of unit GoTimedCheck stands for"),
    ("tie_gate_SetTimeAfterFunc", "CM.GoTie.GoTCHook.go_SetTimeAfterFunc_eq", "`SetTimeAfterFunc` stores the hook"),
    ("tie_gate_afterFunc_after_set", "CM.GoTie.GoTCHook.afterFunc_after_set", "… the next arming goes to the hook just set")])
SLO_FACTORY = T("GoSloFactory", [
    ("tie_slo_getConfig", "CM.GoTie.GoSloFactory.go_getConfig_eq", "`Factory.getConfig` = gap-filling merge: constructors last to first, then Factory.Config, then 250 ms; each constructor called once"),
    ("tie_slo_getConfig_first", "CM.GoTie.GoSloFactory.specConfig_first", "… = the first layer in that order that sets the healthy time"),
    ("tie_slo_CommandProperties", "CM.GoTie.GoSloFactory.go_CommandProperties_eq", "`CommandProperties` = a config holding ONE new tracker (zero counters) configured with `getConfig(name)`")])
CIRC_MISC = T("GoCircMisc", [
    ("tie_circuit_Name", "CM.GoTie.GoCircMisc.go_Name_eq", "`Name()`: the stored name, the empty string on nil"),
    ("tie_circuit_Go", "CM.GoTie.GoCircMisc.go_Go_eq", "`Go` = one `Execute` with both functions wrapped by the circuit's goroutine wrapper (zero wrapper on nil)")])
ROLL_STORE = T("GoRollingStore", [
    ("tie_rolling_Store", "CM.GoTie.GoRollingStore.go_Store_eq", "`RollingBuckets.Store` copies the argument")])

# ---- all-schedule theorems about the whole-call model Conc/Run (Props/RunAll.lean), re-declared under the properties they serve
def RA(items): return [((a, "CM.Props.RunAll." + t, d), "Props.RunAll") for a, t, d in items]
RUN_VIEWS = RA([
    ("run_call_view", "call_view_init", "every schedule of the whole-call model projects onto a schedule of Conc/Call (so C01's all-schedule theorems hold of it)"),
    ("run_gauge_view", "gauge_view_init", "… and onto a schedule of Conc/Gauge (C04's)")])
RUN_C04 = RA([
    ("run_inflight_le_limit", "inflight_le_limit", "whole calls, every schedule: never more than the limit inside the run function"),
    ("run_limit_zero", "limit_zero_invokes_nobody", "limit 0: nobody is ever inside"),
    ("run_negative_unlimited", "negative_unlimited", "a negative limit refuses nobody"),
    ("run_large_limit_never_rejects", "large_limit_never_rejects", "a limit at least the number of callers refuses nobody"),
    ("run_quiescent_gauge_zero", "quiescent_gauge_zero", "once every call has returned — by return, refusal or PANIC — the gauge reads zero"),
    ("run_gauge_never_negative", "gauge_never_negative", "the gauge is never negative")])
RUN_C01 = RA([
    ("run_force_open", "force_open_invokes_nobody", "whole calls, every schedule: under ForceOpen no run function is ever invoked"),
    ("run_invoked_only_if_admitted", "invoked_only_if_admitted", "a run function is invoked only for a call that read the circuit as closed, or was admitted by the closer with ForceOpen off, and was not vetoed"),
    ("run_open_circuit", "open_circuit_invokes_nobody", "an open circuit whose closer admits nobody, with nobody closing it, invokes nothing and stays open")])
RUN_EVENTS = RA([
    ("run_exactly_the_right_events", "exactly_the_right_events", "every schedule: a call that ended has told the run collectors exactly what its outcome calls for — one short-circuit, one rejection, the ONE event of the kind the classification precedence yields, nothing after a veto, and NOTHING when its function panicked; its function was invoked exactly once iff it ran"),
    ("run_at_most_one_event", "at_most_one_event_ever", "… and never more than one event / one invocation while it is under way"),
    ("run_manual_silent", "manual_threads_silent", "OpenCircuit / CloseCircuit tell the run collectors nothing")])
RUN_LIVE = RA([("run_never_deadlocks", "never_deadlocks", "whole calls racing transitions never deadlock")])

# ---- whole calls racing LIVE RECONFIGURATION (Conc/RunDyn: operator threads storing new override flags and a new limit), Props/RunDynAll.lean
def RD(items): return [((a, "CM.Props.RunDynAll." + t, d), "Props.RunDynAll") for a, t, d in items]
RD_EVENTS = RD([
    ("dyn_exactly_the_right_events", "exactly_the_right_events_dyn", "whole calls racing operators that store new override flags and a new limit at arbitrary moments, every schedule: a call that ended has told the run collectors exactly what its outcome calls for, and its function was invoked exactly once iff it ran"),
    ("dyn_at_most_one_event", "at_most_one_event_ever_dyn", "… never more than one event / one invocation while it is under way"),
    ("dyn_others_silent", "others_silent_dyn", "operators, OpenCircuit and CloseCircuit tell the run collectors nothing")])
RD_GAUGE = RD([
    ("dyn_gauge_never_negative", "gauge_never_negative_dyn", "under live reconfiguration, every schedule: the gauge is never negative"),
    ("dyn_quiescent_gauge_zero", "quiescent_gauge_zero_dyn", "… and reads zero once everybody has returned (by return, refusal or panic)"),
    ("dyn_inflight_le_largest_limit", "inflight_le_largest_limit_dyn", "with the limit changed while calls are in flight, never more callers inside the run function than the LARGEST limit ever in force: each admission is decided against the old or the new limit, never a mixture")])
RD_ALT = RD([("dyn_notifications_alternate", "notifications_alternate_dyn", "whole calls, OpenCircuit / CloseCircuit and operators switching overrides, every schedule: Opened / Closed strictly alternate and the state flag is the last notification whenever the transition mutex is free")])
RD_LIVE = RD([("dyn_never_deadlocks", "never_deadlocks_dyn", "whole calls racing transitions racing reconfigurations never deadlock")])
RD_C08 = [((a, "CM.Props.RunDynC08." + t, d), "Props.RunDynC08") for a, t, d in [
    ("dyn_force_open_binds_later_calls", "force_open_binds_later_calls", "every schedule, from ANY configuration in which no operator has a store pending and ForceOpen is on: a call that starts afterwards is never invoked, whatever the others do; it ends shed with exactly one short-circuit"),
    ("dyn_forced_closed_admits_later_calls", "forced_closed_admits_later_calls", "… ForcedClosed on (ForceOpen off): a call that starts afterwards is never short-circuited, whatever the state flag and the others do (veto and bulkhead still apply)"),
    ("dyn_override_freezes_later_transitions", "override_freezes_later_transitions", "… either override on and everybody fresh or finished: no Opened / Closed is ever announced and the state flag never changes, by failing or succeeding calls, OpenCircuit or CloseCircuit, in any interleaving"),
    ("dyn_cleared_overrides_resume_state", "cleared_overrides_resume_state", "… both overrides off (cleared): a later call is invoked only if it read the STATE FLAG as closed, or as open and the closer admitted it, and the opener did not veto it")]]
def EX(items): return [((a, "CM.Props.ExecAll." + t, d), "Props.ExecAll") for a, t, d in items]
EX_CONTRACT = EX([
    ("exec_return_value_contract", "return_value_contract", "the WHOLE Execute among concurrent callers, transitions and reconfigurations, every schedule: what the caller gets is what the contract says — nil from the run step; the run step's own error for a bad request, without a fallback or with fallbacks disabled; otherwise the fallback's answer, its panic, or ConcurrencyLimitReached (only under a non-negative fallback limit)"),
    ("exec_fallback_not_consulted", "fallback_not_consulted", "a nil, a bad request and a panic of the run function never reach the fallback; nothing does while fallbacks are disabled")])
EX_EVENTS = EX([
    ("exec_right_fallback_events", "exactly_the_right_fallback_events", "every schedule: a finished Execute told the fallback collectors exactly one rejection / success / failure as its outcome calls for (nothing when the fallback panicked or was not consulted), and its fallback ran exactly once iff it decided the answer"),
    ("exec_at_most_one_fallback_event", "at_most_one_fallback_event_ever", "… never more than one fallback event / invocation while it is under way"),
    ("exec_right_run_events", "exactly_the_right_run_events", "the run side is untouched by what follows it: exactly the right run events")])
EX_GAUGE = EX([
    ("exec_gauges_never_negative", "gauges_never_negative", "every schedule of whole Executes: neither gauge is ever negative"),
    ("exec_quiescent_gauges_zero", "quiescent_gauges_zero", "both gauges read zero once everybody has returned — by return, refusal or PANIC of the run function or of the fallback"),
    ("exec_fallbacks_in_flight_le_limit", "fallbacks_in_flight_le_limit", "never more callers inside a fallback function than the fallback limit"),
    ("exec_negative_fallback_limit", "negative_fallback_limit_refuses_nobody", "a negative fallback limit refuses nobody")])
EX_KILL = EX([("exec_disabled_is_pass_through", "disabled_is_pass_through", "the kill switch, every schedule: with Disabled on, Execute is the run function called directly — its answer, error or panic straight to the caller, exactly one direct call, no admission, no run event, no fallback, no fallback event, and both gauges stay at zero whatever everybody else is doing")])
EX_FBVIEW = [(("exec_fb_phase_is_gauge_step", "CM.Props.ExecFbView.fb_phase_is_gauge_step", "the fallback phase of the whole-Execute model IS the bulkhead thread the K6 tie of `fallback` is about: each of its steps is `Gauge.step` on (gauge, limit) from the corresponding local state, or an event delivery that leaves the bulkhead alone"), "Props.ExecFbView"),
             (("exec_run_phase_is_run_step", "CM.Props.ExecFbView.run_phase_is_run_step", "inside `c.run` a thread of the whole-Execute model takes exactly `Run.step` — the step function the K6 tie of `run` is about"), "Props.ExecFbView")]
EX_OLDNEW = EX([("exec_kill_switch_old_or_new", "kill_switch_old_or_new", "with EVERY setting live (operators storing override flags, kill switch, both limits, Fallback.Disabled at arbitrary moments), every schedule: a finished Execute went EITHER straight to its run function (one direct call, no event of either side) OR through the circuit under the return-value contract — never a mixture")])
EX_LIVE = EX([("exec_never_deadlocks", "never_deadlocks", "whole Executes racing transitions and reconfigurations never deadlock")])
RD_VIEW = [(("dyn_call_thread_view", "CM.Props.RunDynView.call_thread_view", "every schedule of calls racing operators, seen from one call thread, is a solo run of the static model's thread against some oracle — the runs the K6 ties of `run` / `IsOpen` / `openCircuit` / `close` quantify over"), "Props.RunDynView")]

# ---- hystrix / simplelogic / default factories (units GoHFac*)
HFAC_LAYERS = T("GoHFacLayers", [
  ("tie_hfac_createCloser", "CM.GoTie.GoHFacLayers.go_createCloser_eq", "`Factory.createCloser` hands CloserFactory `layer`: last constructor > … > first > factory-wide"),
  ("tie_hfac_createOpener", "CM.GoTie.GoHFacLayers.go_createOpener_eq", "… the same for the opener's config"),
  ("tie_hfac_Configure", "CM.GoTie.GoHFacLayers.go_Configure_eq", "`Factory.Configure` sets exactly the two factories"),
  ("tie_hfac_layer_sleep", "CM.GoTie.GoHFacLayers.layerC_SleepWindow", "field by field: the first SET value in precedence order"),
  ("tie_hfac_layer_buckets", "CM.GoTie.GoHFacLayers.layerO_NumBuckets", "… for the opener")])
HFAC_CLOSER = T("GoHFacCloser", [
  ("tie_hfac_CloserFactory", "CM.GoTie.GoHFacCloser.go_CloserFactory_eq", "`CloserFactory(cfg)` packages cfg"),
  ("tie_hfac_CloserFactory_apply", "CM.GoTie.GoHFacCloser.go_CloserFactory_apply_eq", "each call: a NEW closer configured with cfg merged with the defaults"),
  ("tie_hfac_CloserFactory_fresh", "CM.GoTie.GoHFacCloser.calls_eq", "n calls give n different new objects"),
  ("tie_hfac_closer_fields", "CM.GoTie.GoHFacCloser.built_fields", "the gate really has the configured sleep window / attempts")])
HFAC_CHAIN = T("GoHFacChain", [
  ("tie_hfac_sleep_precedence", "CM.GoTie.GoHFacChain.built_sleep", "sleep window: last ctor > … > factory-wide > 5 s"),
  ("tie_hfac_pct_precedence", "CM.GoTie.GoHFacChain.builtObj_pct", "error threshold: … > 50"),
  ("tie_hfac_vol_precedence", "CM.GoTie.GoHFacChain.builtObj_vol", "volume threshold: … > 20"),
  ("tie_hfac_geometry", "CM.GoTie.GoHFacChain.builtObj_geometry", "window geometry")])
HFAC_OPENER = T("GoHFacOpenerSet", [
  ("tie_hfac_opener_live", "CM.GoTie.GoHFacOpenerSet.go_SetConfigThreadSafe_eq", "both thresholds published"),
  ("tie_hfac_opener_rebuild", "CM.GoTie.GoHFacOpenerSet.go_SetConfigNotThreadSafe_eq", "both counters rebuilt at ONE clock reading, each its own"),
  ("tie_hfac_opener_rebuild_ok", "CM.GoTie.GoHFacOpenerSet.setNTS_ok", "… spelled out; = HOpener.new")]) + T("GoHFacOpener", [
  ("tie_hfac_OpenerFactory", "CM.GoTie.GoHFacOpener.go_OpenerFactory_eq", "`OpenerFactory(cfg)` packages cfg"),
  ("tie_hfac_OpenerFactory_apply", "CM.GoTie.GoHFacOpener.go_OpenerFactory_apply_eq", "each call: a NEW opener configured with cfg merged with the defaults"),
  ("tie_hfac_OpenerFactory_fresh", "CM.GoTie.GoHFacOpener.calls_eq", "n calls give n different objects with their own counters"),
  ("tie_hfac_opener_model", "CM.GoTie.GoHFacOpener.builtObj_model", "= HOpener.new with the merged settings"),
  ("tie_hfac_opener_method", "CM.GoTie.GoHFacOpener.m_SetConfigNotThreadSafe_is_method", "the primitive is the translated method body")])
HFAC_MISC = T("GoHFacConsec", [
  ("tie_hfac_consec_apply", "CM.GoTie.GoHFacConsec.go_ConsecutiveErrOpenerFactory_apply_eq", "each call: a NEW ConsecutiveErrOpener with the configured threshold (10 by default)"),
  ("tie_hfac_consec_fresh", "CM.GoTie.GoHFacConsec.calls_eq", "n calls, n objects")]) + T("GoHFacNever", [
  ("tie_hfac_neverOpens", "CM.GoTie.GoHFacNever.go_neverOpensFactory_eq", "default opener = neverOpens{}"),
  ("tie_hfac_neverCloses", "CM.GoTie.GoHFacNever.go_neverClosesFactory_eq", "default closer = neverCloses{}")]) + T("GoHFacNow", [
  ("tie_hfac_cfg_now", "CM.GoTie.GoHFacNow.go_now_eq", "`ConfigureOpener.now` = one reading of the configured clock, wall clock when nil")])

# ---- expvar publishing (units Go*Var): the content is computed when the published function is EVALUATED, not when Var() is called
VARS_C20 = T("GoFbStatsVar", [
    ("tie_fbstats_Var", "CM.GoTie.GoFbStatsVar.go_Var_eq", "`FallbackStats.Var()` computes nothing: a function value over the receiver"),
    ("tie_fbstats_Var_eval", "CM.GoTie.GoFbStatsVar.go_Var_eval_eq", "… evaluated, it reads the three totals of that moment"),
    ("tie_fbstats_Var_follows", "CM.GoTie.GoFbStatsVar.second_reading_counts_the_event", "… a handle read twice around a fallback event shows the event")]) + T("GoRunStatsVar", [
    ("tie_runstats_Var", "CM.GoTie.GoRunStatsVar.go_Var_eq", "`RunStats.Var()` computes nothing"),
    ("tie_runstats_Var_eval", "CM.GoTie.GoRunStatsVar.go_Var_eval_eq", "… evaluated: seven counters by reference, the latencies' summary at one WALL-clock reading"),
    ("tie_runstats_Var_counters", "CM.GoTie.GoRunStatsVar.counters_by_reference", "… the counters are published as pointers")]) + T("GoSloVar", [
    ("tie_slo_Var", "CM.GoTie.GoSloVar.go_Var_eq", "`Tracker.Var()` computes nothing"),
    ("tie_slo_Var_eval", "CM.GoTie.GoSloVar.go_Var_eval_eq", "… evaluated: current config, pass = MeetsSLOCount, fail = FailsSLOCount")]) + T("GoFanRunVar", [
    ("tie_fanrun_Var_eval", "CM.GoTie.GoFanRunVar.go_Var_eval_eq", "run collection `Var` evaluated: every varable collector once, in slice order, non-nil results")]) + T("GoFanFbVar", [
    ("tie_fanfb_Var_eval", "CM.GoTie.GoFanFbVar.go_Var_eval_eq", "the same for the fallback collection")]) + T("GoCircuitVar", [
    ("tie_circuit_Var_eval", "CM.GoTie.GoCircuitVar.go_Var_eval_eq", "`Circuit.Var` evaluated: nine keys, is_open = IsOpen() at that moment")])
VARS_C17 = T("GoManagerVar", [
    ("tie_manager_Var", "CM.GoTie.GoManagerVar.go_Var_eq", "`Manager.Var()` computes nothing: no lock, registry not read"),
    ("tie_manager_Var_eval", "CM.GoTie.GoManagerVar.go_Var_eval_eq", "… evaluated: RLock, every registered circuit's Var evaluated, non-nil results by name, RUnlock"),
    ("tie_manager_Var_creates", "CM.GoTie.GoManagerVar.var_sees_later_creates", "… a handle taken before a CreateCircuit lists the new circuit")])
VARS_C15 = T("GoRPVar", [
    ("tie_rp_Var", "CM.GoTie.GoRPVar.go_Var_eq", "`RollingPercentile.Var()` computes nothing"),
    ("tie_rp_Var_eval", "CM.GoTie.GoRPVar.go_Var_eval_eq", "… evaluated: Snapshot() at one wall-clock reading, the labelled summary of THAT snapshot")])
VARS_C11 = T("GoManagerVar", [
    ("tie_manager_Var_locked", "CM.GoTie.GoManagerVar.evaluations_under_the_read_lock", "every circuit evaluation lies between RLock and RUnlock")]) + T("GoCircuitVar", [
    ("tie_circuit_Var_nil", "CM.GoTie.GoCircuitVar.go_Var_eval_nil", "nil circuit: nil, nothing read"),
    ("tie_circuit_Var", "CM.GoTie.GoCircuitVar.go_Var_eq", "the call computes nothing, nil receiver or not")]) + T("GoExpvarToVal", [
    ("tie_expvarToVal", "CM.GoTie.GoExpvarToVal.go_expvarToVal_eq", "one evaluation iff the value has Value() interface{}")])

# ---- K6: interference ties (CircuitProofs/GoTie/I_*): the bodies translated over primitives in which an arbitrary move of the
# other goroutines precedes every atomic / lock operation take exactly the steps of the small-step model's thread
K6_CORE = [(("tie_k6_thread_view", "CM.GoTie.ICore.thread_view", "every schedule of any system, seen from one thread, is a run of that thread alone against SOME oracle: what is proved for every oracle covers every schedule"), "I_Core")]
K6_RC = [((a, "CM.GoTie.IRC." + t, d), "I_RC") for a, t, d in [
    ("tie_k6_Inc", "inc_solo", "today's `Inc` (with `Advance` and `clearBucket` inlined as translated), every atomic preceded by an arbitrary move of the others, takes exactly the steps of the model's thread: same shared state, same oracle left, same atomic operations with the same observed values"),
    ("tie_k6_RollingSumAt", "sumAt_solo", "`RollingSumAt` likewise; its answer is the value its last load observed"),
    ("tie_k6_GetBuckets", "getBuckets_solo", "`GetBuckets` likewise; its answer is what its last NumBuckets loads observed"),
    ("tie_k6_Reset", "reset_solo", "`Reset` likewise"),
    ("tie_k6_Inc_outcomes", "inc_ok_or_fuel", "the translated `Inc` never panics: it returns, or exhausts the bound on Advance's self-calls"),
    ("tie_k6_Inc_terminates", "inc_enough_fuel", "a bound that exceeds the oracle's length by 3 is always enough: every self-call of Advance follows a CompareAndSwap the others interfered with")]]
K6_TC = [((a, "CM.GoTie.ITC." + t, d), "I_TC") for a, t, d in [
    ("tie_k6_Check", "check_solo", "today's `Check`, every atomic AND every RWMutex operation preceded by an arbitrary move of the others (under the rely condition the lock discipline provides), takes exactly the steps of the model's thread — same answer, or waiting before the same lock"),
    ("tie_k6_SleepStart", "sleepStart_solo", "`SleepStart` likewise"),
    ("tie_k6_callback", "callback_solo", "the timer callback likewise"),
    ("tie_k6_arming", "reset_arms_current_version", "the closure handed to the timer hook captures the version `resetOpenTimeWithLock` has just published")]]
K6_TRANS = [((a, "CM.GoTie.ICall." + t, d), "I_Call") for a, t, d in [
    ("tie_k6_openCircuit", "openCircuit_solo", "today's `openCircuit`, every flag load / store, mutex operation and notification preceded by an arbitrary move of the others, takes exactly the steps of the model's thread (or waits before the mutex)"),
    ("tie_k6_close", "close_solo", "`close` likewise"),
    ("tie_k6_embeds", "call_embeds_trans", "inside a transition the whole-call model IS the transition model the all-schedule theorems are about")]]
K6_CALL = [((a, "CM.GoTie.ICall." + t, d), "I_Call") for a, t, d in [
    ("tie_k6_allowNewRun", "allowNewRun_solo", "today's `allowNewRun` (with `IsOpen` inlined as translated) takes exactly the admission steps of the model's thread: true ⇔ it goes on to the opener's veto, false ⇔ it sheds"),
    ("tie_k6_checkSuccess", "checkSuccess_solo", "`checkSuccess` takes the model's steps after a successful run (incl. the closing transition)"),
    ("tie_k6_checkErrFailure", "checkErrFailure_solo", "`checkErrFailure` takes the model's steps after a failed run (incl. `attemptToOpen` and the opening transition)"),
    ("tie_k6_checkErrFailure_nil", "checkErrFailure_nil", "… and does nothing for a nil error"),
    ("tie_k6_attemptToOpen", "attemptToOpen_solo", "`attemptToOpen` likewise")]]

K6_FB = [((a, "CM.GoTie.IFb." + t, d), "I_Fb") for a, t, d in [
    ("tie_k6_fallback", "fallback_solo", "today's `fallback`, the Add on the fallback gauge, the load of its limit, the user's fallback and the deferred Add(-1) each preceded by an arbitrary move of the others, takes exactly the steps of the bulkhead model's thread: refused ⇔ the limit error without invoking the function; otherwise the fallback's own result — or its panic passing through, the slot released"),
    ("tie_k6_fallback_refused", "refused_not_invoked", "a refused fallback was not invoked"),
    ("tie_k6_fallback_disabled", "fallback_disabled", "a disabled fallback returns the run step's error and touches nothing")]]

K6_MGR = [((a, "CM.GoTie.IMgr." + t, d), "I_Mgr") for a, t, d in [
    ("tie_k6_CreateCircuit", "create_solo", "today's `CreateCircuit`, its Lock and its deferred Unlock each preceded by an arbitrary move of the others (which may register the same name just before), takes exactly the steps of the registry model's thread: created / exists / waiting for the lock"),
    ("tie_k6_GetCircuit", "get_solo", "`GetCircuit` under the read lock likewise"),
    ("tie_k6_AllCircuits", "all_solo", "`AllCircuits` likewise (sorted ids: Go's map order is unspecified)"),
    ("tie_k6_CreateCircuit_factors", "create_factors", "between its two lock steps `CreateCircuit` is the sequentially tied body, run on the registry as the oracle left it"),
    ("tie_k6_oracles", "schedule_oracles_rely", "the oracles `thread_view` builds satisfy the rely condition (the ghost log is invisible)")]]

K6_RUN = [((a, "CM.GoTie.IRun." + t, d), "I_Run") for a, t, d in [
    ("tie_k6_run", "run_solo", "THE WHOLE `run` as written today — admission, bulkhead with its deferred decrement, the user's function (return or panic), the classification chain, the one run event, the transitions the outcome triggers — every atomic / mutex operation, every delivery and the function's execution preceded by an arbitrary move of the others, takes exactly the steps of the whole-call model's thread (Conc/Run): same state incl. gauge and event log, same oracle left, same trace, same way of ending (returned error / the user's panic with the slot released / waiting for the transition mutex)"),
    ("tie_k6_run_OpenCircuit", "openCircuit_solo", "`openCircuit` as OpenCircuit runs it, in the same model"),
    ("tie_k6_run_CloseCircuit", "closeCircuit_solo", "`close(forceClosed)` as CloseCircuit runs it")]]

PROPS = {
    "C01": ("load shedding: who is admitted is decided by `allowNewRun` / `run`",
            [C("IsOpen"), C("allowNewRun"), RUN] + NEVER + ERR_OPEN + K6_CALL + K6_TRANS + K6_CORE + RUN_C01 + RUN_EVENTS[:1] + RUN_VIEWS[:1] + RUN_LIVE + HFAC_CLOSER[:3] + HFAC_LAYERS[:1] + K6_RUN[:1] + RD_EVENTS[:1] + RD_VIEW),
    "C02": ("the built-in openers' method bodies, translated from today's opener.go / closers.go, are the model's functions",
            T("GoHOpener", evs("GoHOpener", "HOpener.onRun") + [
                ("tie_GoHOpener_Opened", "CM.GoTie.GoHOpener.go_Opened_eq", "`Opened` resets both rolling counters"),
                ("tie_GoHOpener_Closed", "CM.GoTie.GoHOpener.go_Closed_eq", "`Closed` resets both rolling counters"),
                ("tie_GoHOpener_Prevent", "CM.GoTie.GoHOpener.go_Prevent_eq", "`Prevent` never vetoes"),
                ("tie_GoHOpener_ShouldOpen", "CM.GoTie.GoHOpener.go_ShouldOpen_eq", "`ShouldOpen` is `HOpener.shouldOpen`: volume first, then 100·errors ≥ pct·attempts in integers")]) +
            T("GoConsec", evs("GoConsec", "ConsecOpener.onRun") + [
                ("tie_GoConsec_Opened", "CM.GoTie.GoConsec.go_Opened_eq", "`Opened` zeroes the run of errors"),
                ("tie_GoConsec_Closed", "CM.GoTie.GoConsec.go_Closed_eq", "`Closed` zeroes the run of errors"),
                ("tie_GoConsec_Prevent", "CM.GoTie.GoConsec.go_Prevent_eq", "`Prevent` never vetoes"),
                ("tie_GoConsec_ShouldOpen", "CM.GoTie.GoConsec.go_ShouldOpen_eq", "`ShouldOpen` compares the run of errors with the threshold"),
                ("tie_GoConsec_SetConfigThreadSafe", "CM.GoTie.GoConsec.go_SetConfigThreadSafe_eq", "a live reconfiguration replaces the threshold only"),
                ("tie_GoConsec_SetConfigNotThreadSafe", "CM.GoTie.GoConsec.go_SetConfigNotThreadSafe_eq", "so does the construction-time one")]) + OPENER_CFG + HFAC_OPENER + HFAC_CHAIN[1:] + HFAC_MISC + HFAC_LAYERS[1:2]),
    "C03": ("the hystrix closer's method bodies (closer.go) and its gate (timedcheck.go) are the model's functions",
            T("GoHCloser", evs("GoHCloser", "HCloser.onRun") + [
                ("tie_GoHCloser_Opened", "CM.GoTie.GoHCloser.go_Opened_eq", "`Opened` zeroes the successes and starts the sleep window"),
                ("tie_GoHCloser_Closed", "CM.GoTie.GoHCloser.go_Closed_eq", "`Closed` likewise"),
                ("tie_GoHCloser_Allow", "CM.GoTie.GoHCloser.go_Allow_eq", "`Allow` is the gate's `Check`"),
                ("tie_GoHCloser_ShouldClose", "CM.GoTie.GoHCloser.go_ShouldClose_eq", "`ShouldClose` compares the successes in a row with the required number")]) + TC +
            [C("close"), C("checkSuccess")] + CLOSER_CFG + K6_TC + TC_HOOK + HFAC_CLOSER + HFAC_CHAIN[:1] + HFAC_LAYERS[:1]),
    "C04": ("the gauges and limits: `throttleConcurrentCommands`, the deferred decrements in `run` / `fallback`, the published limits",
            [C("throttleConcurrentCommands"), C("ConcurrentCommands"), C("ConcurrentFallbacks"), RUN, FALLBACK] + LIVECFG + ERR_LIMIT + ATOM_I64 + RUN_C04 + RUN_EVENTS[:1] + RUN_VIEWS[1:] + K6_FB + K6_CORE + K6_RUN[:1] + RD_GAUGE + EX_GAUGE + EX_EVENTS[:1] + EX_FBVIEW),
    "C05": ("the classification chain of `run`",
            [C("checkErrBadRequest"), C("checkErrTimeout"), C("checkErrInterrupt"), C("checkErrFailure"), C("checkSuccess"), RUN] + FAN_RUN + ALL + ERR_BAD + CTOR + RUN_EVENTS + K6_RUN[:1] + RD_EVENTS + EX_EVENTS),
    "C06": ("fallback rules: `Execute` and `fallback`", [FALLBACK, EXECUTE, RUNENTRY] + FAN_FB + ERR_BAD + ERR_NOTBAD + K6_FB[:1] + K6_FB[2:] + EX_CONTRACT + EX_EVENTS[:2] + EX_LIVE + EX_FBVIEW),
    "C07": ("contexts: the derived deadline context in `run`, the caller's context everywhere else", [RUN, FALLBACK, EXECUTE]),
    "C08": ("overrides and pass-through: `IsOpen`, `allowNewRun`, the transitions, `Execute`'s Disabled branch, the published flags",
            [C("IsOpen"), C("isEmptyOrNil"), C("allowNewRun"), C("openCircuit"), C("close"), C("attemptToOpen"), EXECUTE] + LIVECFG + SETCFG + ATOM_BOOL + CIRC_MISC + RD_C08 + RD_ALT + RD_VIEW + EX_KILL + EX_OLDNEW),
    "C09": ("transitions and their notifications",
            [C("IsOpen"), C("openCircuit"), C("close"), C("attemptToOpen"), C("OpenCircuit"), C("CloseCircuit"), C("checkSuccess"), C("checkErrFailure"), C("checkErrTimeout")] + FAN_CIRC + SETCFG + ATOM_BOOL + K6_TRANS + K6_CORE + CTOR + HFAC_CLOSER[2:3] + HFAC_OPENER[5:6] + K6_RUN + RD_ALT),
    "C10": ("panics: the deferred calls of `run` and `fallback` run on every exit", [RUN, FALLBACK, EXECUTE] + CIRC_MISC + RUN_EVENTS[:1] + RUN_C04[3:4] + RUN_LIVE + K6_RUN[:1] + RD_EVENTS[:1] + RD_GAUGE[1:2] + RD_LIVE + EX_GAUGE[1:2] + EX_EVENTS[:1] + EX_LIVE),
    "C11": ("reconfiguration: what each SetConfigThreadSafe writes (circuit, hystrix opener, hystrix closer, SLO tracker) — every setting, nothing else",
            SETCFG + LIVECFG + OPENER_CFG + CLOSER_CFG + SLO_CFG + VARS_C11 + RD_EVENTS + RD_GAUGE + RD_ALT + RD_LIVE + RD_VIEW + RD_C08[:1] + RD_C08[3:] + EX_OLDNEW + EX_GAUGE[2:3] + EX_CONTRACT[:1] + EX_LIVE),
    "C12": ("every timestamp is a reading of the configured clock: all translated functions of circuit.go",
            [C("now"), C("OpenCircuit"), C("CloseCircuit"), RUN, FALLBACK] + ALL + CTOR[:4]),
    "C13": ("the rolling counter: rolling_bucket.go's `Advance` and rolling_counter.go's methods are the model `RC`", ROLL + FSNEW_RC + ROLL_STORE),
    "C14": ("the counter under interference: every atomic step of rolling_counter.go / rolling_bucket.go is the small-step model's", K6_RC + K6_CORE + ATOM_I64),
    "C15": ("rolling_percentile.go: the ring of circular buffers is the model `RP` / `DSlot`, the snapshot's numbers are the model `SD`", RPT + SD + FSNEW_RP + VARS_C15),
    "C16": ("the gate: timedcheck.go's method bodies are the model `TC`", TC + K6_TC + K6_CORE + ATOM_BOOL + ATOM_I64 + TC_HOOK),
    "C17": ("the registry: manager.go's CreateCircuit / GetCircuit / MustCreateCircuit are the model `Mgr`", MGR + STATFACTORY + STATSFIND + MGR_ALL + CTOR + HFAC_LAYERS + K6_MGR + K6_CORE + VARS_C17),
    "C20": ("the collectors' method bodies, translated from today's rolling.go / responsetime.go, are the model's functions",
            T("GoRunStats", evs("GoRunStats", "Cons.RunStats.onRun") + [
                ("tie_GoRunStats_ErrorsAt", "CM.GoTie.GoRunStats.go_ErrorsAt_eq", "errors = failures + timeouts, both read at the same instant"),
                ("tie_GoRunStats_LegitimateAttemptsAt", "CM.GoTie.GoRunStats.go_LegitimateAttemptsAt_eq", "attempts = successes + errors")]) +
            T("GoFbStats", [
                ("tie_GoFbStats_Success", "CM.GoTie.GoFbStats.go_Success_eq", "fallback success counter"),
                ("tie_GoFbStats_ErrFailure", "CM.GoTie.GoFbStats.go_ErrFailure_eq", "fallback failure counter"),
                ("tie_GoFbStats_ErrConcurrencyLimitReject", "CM.GoTie.GoFbStats.go_ErrConcurrencyLimitReject_eq", "fallback rejection counter")]) +
            T("GoStream", [
                ("tie_stream_record", "CM.GoTie.GoStream.stream_record_tie", "today's `collectCommandMetrics` fills every count field with `All.streamCounts` (all read at ONE instant: the configured clock's reading), plus name, IsOpen, gauge, error percentage and the latency block"),
                ("tie_stream_record_detached", "CM.GoTie.GoStream.stream_record_detached", "a circuit without the rolling collectors is still shown, every count zero")]) +
            T("GoSlo", evs("GoSlo", "Cons.Slo.onRun (through `SloW.onRun`)") + [
                ("tie_GoSlo_failure", "CM.GoTie.GoSlo.go_failure_eq", "a fail verdict moves the counter and tells every collector"),
                ("tie_GoSlo_healthy", "CM.GoTie.GoSlo.go_healthy_eq", "a pass verdict likewise"),
                ("tie_GoSlo_onRun_slo", "CM.GoTie.GoSlo.onRun_slo", "the tracker part of `SloW.onRun` is `Slo.onRun`"),
                ("tie_GoSlo_tell_told", "CM.GoTie.GoSlo.tell_told", "each verdict reaches every attached collector exactly once")]) + SLO_CFG + STATS + STATSFB + STATSFIND + SLO_FACTORY + VARS_C20),
}

# which regenerated units each property's tie depends on (-> lib/props.py "generated")
UNITS = {"F_": "gocircuit", "All": "gocircuit", "T_GoHOpener": "gohopener", "T_GoHCloser": "gohcloser", "T_GoConsec": "goconsec", "T_GoRunStats": "gorunstats",
         "T_GoFbStats": "gofbstats", "T_GoSlo": "goslo", "T_GoTimedCheck": "gotimedcheck", "T_GoLiveCfg": "golivecfg",
         "T_GoFanRun": "gofanrun", "T_GoFanFb": "gofanfb", "T_GoFanCirc": "gofancirc", "T_GoSetCfg": "gosetcfg", "T_GoStream": "gostream", "T_GoRollingBuckets": "gorollingbuckets", "T_GoRollingCounter": "gorollingcounter",
         "T_GoManager": "gomanager", "T_GoSortedDurations": "gosorteddurations", "T_GoRollingBucketsP": "gorollingbucketsp",
         "T_GoRollingPercentile": "gorollingpercentile", "T_GoDurationsBucket": "godurationsbucket",
         "T_GoIsBadRequest": "goisbadrequest", "T_GoCircuitError": "gocircuiterror", "T_GoSimpleBadRequest": "gosimplebadrequest",
         "T_GoAtomicBoolean": "goatomicboolean", "T_GoAtomicInt64": "goatomicint64",
         "T_GoNewRC": "gonewrc", "T_GoNewRP": "gonewrp", "T_GoRCWall": ["gorcwall", "gorollingcounter", "gorollingbuckets"], "T_GoRPSnap": ["gorpsnap", "gorollingpercentile", "gorollingbucketsp", "godurationsbucket"],
         "T_GoDBIter": "godbiter", "T_GoSDVar": ["gosdvar", "gosorteddurations"],
         "T_GoStatsRun": "gostatsrun", "T_GoStatsFb": "gostatsfb", "T_GoStatsFactory": "gostatsfactory", "T_GoStatsFind": "gostatsfind",
         "T_GoCtor": ["goctor", "gosetcfg", "goslocfg"], "T_GoCtorSet": ["goctorset", "gosetcfg"], "T_GoManagerAll": ["gomanagerall", "gosetcfg", "goslocfg"],
         "T_GoTCHook": ["gotchook", "gotimedcheck", "gosetcfg", "goslocfg"], "T_GoSloFactory": ["goslofactory", "goslocfg", "gosetcfg"],
         "T_GoCircMisc": ["gocircmisc", "gosetcfg", "goslocfg"], "T_GoRollingStore": ["gorollingstore", "gosetcfg", "goslocfg"],
         "T_GoHFacLayers": ["gohfaclayers"], "T_GoHFacCloser": ["gohfaccloser"], "T_GoHFacOpener": ["gohfacopener", "gohfacopenerset"], "T_GoHFacOpenerSet": ["gohfacopenerset"],
         "T_GoHFacNow": ["gohfacnow"], "T_GoHFacConsec": ["gohfacconsec"], "T_GoHFacNever": ["gohfacnever"],
         "T_GoHFacChain": ["gohfaclayers", "gohfaccloser", "gohfacopener", "gohfacopenerset"],
         "T_GoFbStatsVar": ["gofbstatsvar", "gofbstats"], "T_GoRunStatsVar": ["gorunstatsvar", "gorunstats"], "T_GoSloVar": "goslovar",
         "T_GoRPVar": ["gorpvar", "gorpsnap", "gosdvar", "gosorteddurations"], "T_GoManagerVar": "gomanagervar", "T_GoExpvarToVal": "goexpvartoval",
         "T_GoFanRunVar": "gofanrunvar", "T_GoFanFbVar": ["gofanfbvar", "gofanrunvar"], "T_GoCircuitVar": "gocircuitvar",
         "I_Core": [], "Props.RunAll": [], "Props.RunDynAll": [], "Props.RunDynView": [], "Props.RunDynC08": [], "Props.ExecAll": [], "Props.ExecFbView": [], "I_Fb": "gofbi", "I_Run": "goruni", "I_Mgr": ["gomgri", "gomgriall", "gomanager"], "I_RC": ["gorciclear", "gorciadv", "gorciops"], "I_TC": "gotci", "I_Call": "gocalli",
         "T_GoLiveLogic": ["goneveropens", "gonevercloses", "gohopenercfg", "gohclosercfg", "goslocfg"]}

def units_of(prop):
    us = []
    for _, mod in PROPS[prop][1]:
        u = UNITS["F_"] if mod.startswith("F_") else UNITS[mod]
        for x in (u if isinstance(u, list) else [u]):
            if x not in us: us.append(x)
    return us

def main(only=None):
    for prop, (intro, items) in PROPS.items():
        if only and prop not in only: continue
        late = [it for it in items if it[1].startswith("Props.")]      # proved in modules that import Props/<prop>.lean
        items = [it for it in items if not it[1].startswith("Props.")]
        mods = []
        for _, m in items:
            if m not in mods: mods.append(m)
        s = ("/- Props/%sTie.lean — GENERATED by tools/mkties.py — %s.\n"
             "   Each theorem below re-declares, under this property's namespace, a tie theorem proved in CircuitProofs/GoTie/* about\n"
             "   code REGENERATED from /repo's working tree on every run (tools/extract/gotrans): when the Go source changes, the\n"
             "   generated module changes and the tie is re-checked against it (or no longer compiles).  Ties of circuit.go functions\n"
             "   take their callees' ties as hypotheses, so each depends on the body of ITS function only. -/\n" % (prop, intro))
        s += "import CircuitProofs.TieAlias\n"
        for m in mods: s += "import CircuitProofs.GoTie.%s\n" % m
        s += "namespace CM.Props.%s\n\n" % prop
        for (alias, target, doc), _ in items:
            s += "/-- %s -/\ntie_theorem %s := %s\n\n" % (doc, alias, target)
        s += "end CM.Props.%s\n" % prop
        if items:
            with open(os.path.join(OUT, "%sTie.lean" % prop), "w") as f: f.write(s)
        allp = os.path.join(OUT, "%sAll.lean" % prop)
        if late:
            lmods = []
            for _, m in late:
                if m not in lmods: lmods.append(m)
            s = ("/- Props/%sAll.lean — GENERATED by tools/mkties.py — the ROOT module of property %s (what bin/check builds and audits):\n"
                 "   Props/%s.lean plus theorems proved in modules that build on it, re-declared under this property's namespace. -/\n" % (prop, prop, prop))
            s += "import CircuitProofs.TieAlias\nimport CircuitProofs.Props.%s\n" % prop
            for m in lmods: s += "import CircuitProofs.%s\n" % m
            s += "namespace CM.Props.%s\n\n" % prop
            for (alias, target, doc), _ in late:
                s += "/-- %s -/\ntie_theorem %s := %s\n\n" % (doc, alias, target)
            s += "end CM.Props.%s\n" % prop
            with open(allp, "w") as f: f.write(s)
        elif os.path.exists(allp):
            os.remove(allp)

if __name__ == "__main__":
    import sys
    main(sys.argv[1:] or None)

#!/usr/bin/env python3
"""tietable.py — prints the per-property table of DESIGN.md §5 (tie theorems, regenerated units, proof modules) from tools/mkties.py"""
import importlib.util, os
sp = importlib.util.spec_from_file_location("mkties", os.path.join(os.path.dirname(os.path.abspath(__file__)), "mkties.py"))
m = importlib.util.module_from_spec(sp); sp.loader.exec_module(m)
print("| id | tie theorems (K5 / K6 / lifted) | regenerated units | proof modules |")
print("|---|---|---|---|")
for p in sorted(m.PROPS):
    items = m.PROPS[p][1]
    k6 = [i for i in items if i[1].startswith("I_")]
    late = [i for i in items if i[1].startswith("Props.")]
    k5 = [i for i in items if i not in k6 and i not in late]
    mods = []
    for _, mod in items:
        if mod not in mods: mods.append(mod)
    print("| %s | %d / %d / %d | %s | %s |" % (p, len(k5), len(k6), len(late), ", ".join(m.units_of(p)), ", ".join("`%s`" % x for x in mods)))

#!/usr/bin/env python3
"""numbers quoted at the top of DESIGN.md, recomputed from the tree"""
import glob, json, os, re, subprocess
V = os.path.dirname(os.path.dirname(os.path.abspath(__file__)))
P = os.path.join(V, "lean", "CircuitProofs", "Props")
def count(pat, files): return sum(len(re.findall(pat, open(f).read(), re.M)) for f in files)
hand = [f for f in glob.glob(P + "/*.lean") if not re.search(r"(Tie|All)\.lean$", f) or os.path.basename(f) in ("RunAll.lean", "RunDynAll.lean", "ExecAll.lean")]
gen = [f for f in glob.glob(P + "/*.lean") if re.search(r"C\d\d(Tie|All)\.lean$", f)]
print("property theorems (hand-written Props/*):", count(r"^theorem ", hand))
print("  of them about whole calls (RunAll, RunDynAll, RunDynView, RunDynC08, ExecAll):", count(r"^theorem ", [f for f in hand if os.path.basename(f).startswith(("Run", "Exec"))]))
print("tie re-declarations:", count(r"^tie_theorem ", gen))
obl = 0
for f in glob.glob(V + "/evidence/C*.json"):
    obl += json.load(open(f)).get("coverage", {}).get("obligations", 0)
print("audited obligations (evidence):", obl)
def loc(globs):
    n = 0
    for g in globs:
        for f in glob.glob(g, recursive=True):
            if os.path.isfile(f): n += sum(1 for _ in open(f, errors="ignore"))
    return n
print("Lean models/specs/prims/drivers LoC:", loc([V + "/lean/CircuitModel/**/*.lean", V + "/lean/Driver.lean"]))
print("Lean proofs LoC:", loc([V + "/lean/CircuitProofs/**/*.lean"]))
gm = glob.glob(V + "/lean/Generated/**/*.lean", recursive=True)
print("generated Lean modules:", len(gm), "in", len([d for d in os.listdir(V + "/lean/Generated") if os.path.isdir(os.path.join(V, "lean", "Generated", d))]), "units;", "LoC", loc([V + "/lean/Generated/**/*.lean"]))
print("harness/translator LoC:", loc([V + "/harness/**/*.go", V + "/vsched/**/*.go", V + "/tools/**/*.go", V + "/tools/*.py", V + "/lib/*.py", V + "/bin/*"]))
print("seeded:", len(os.listdir(V + "/seeded")))
print("fix commits:", subprocess.run(["git", "-C", "/repo", "log", "--oneline", "--grep", "^fix:"], capture_output=True, text=True).stdout.count("\n"))

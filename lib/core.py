"""core.py — orchestration shared by every check (python3 stdlib only).

Verdict logic (DESIGN.md §3.3):
  O_ok : every theorem in namespace CM.Props.<id> builds and passes the axiom audit
  K_ok : every correspondence of the property agrees on corpus + this run's cases
  F    : cases on which the REAL code's outputs contradict the SPEC (always computed)
"""
import fcntl, hashlib, json, os, re, shutil, subprocess, sys, time, tempfile

VERIF = os.path.dirname(os.path.dirname(os.path.abspath(__file__)))
LEAN = os.path.join(VERIF, "lean")
BUILD = os.path.join(VERIF, ".build")
REPO = os.environ.get("VERIF_REPO", "/repo")
ALLOWED_AXIOMS = {"propext", "Classical.choice", "Quot.sound"}
GOENV = dict(os.environ, GOFLAGS="-mod=mod", GOPROXY="off", GOSUMDB="off", GOTOOLCHAIN="local",
             CGO_ENABLED=os.environ.get("CGO_ENABLED", "0"))

def log(*a):
    print(*a, file=sys.stderr, flush=True)

def sh(cmd, cwd=None, env=None, timeout=None, stdin=None):
    p = subprocess.run(cmd, cwd=cwd, env=env, timeout=timeout, stdin=stdin,
                       stdout=subprocess.PIPE, stderr=subprocess.STDOUT, text=True)
    return p.returncode, p.stdout

class Lock:
    def __init__(self, name):
        os.makedirs(BUILD, exist_ok=True)
        self.path = os.path.join(BUILD, name + ".lock")
    def __enter__(self):
        self.f = open(self.path, "w")
        fcntl.flock(self.f, fcntl.LOCK_EX)
        return self
    def __exit__(self, *a):
        fcntl.flock(self.f, fcntl.LOCK_UN)
        self.f.close()

# ------------------------------------------------------------------ Lean side

def lake_build(targets):
    """incremental build; returns (ok, output)"""
    with Lock("lake"):
        rc, out = sh(["lake", "build"] + targets, cwd=LEAN, timeout=3600)
    return rc == 0, out

def driver_path():
    return os.path.join(LEAN, ".lake", "build", "bin", "driver")

def run_driver(cases_path, out_path):
    with open(cases_path) as fin, open(out_path, "w") as fout:
        p = subprocess.run([driver_path()], stdin=fin, stdout=fout, stderr=subprocess.PIPE, text=True)
    if p.returncode != 0:
        raise RuntimeError("driver failed: " + p.stderr[-2000:])

def prop_module(prop):
    """the root module of a property: Props/<prop>All.lean when tools/mkties.py wrote one (it adds theorems proved in
    modules that themselves import Props/<prop>.lean), else Props/<prop>.lean"""
    if os.path.exists(os.path.join(LEAN, "CircuitProofs", "Props", prop + "All.lean")):
        return "CircuitProofs.Props." + prop + "All"
    return "CircuitProofs.Props." + prop

def audit(prop):
    """Build CircuitProofs.Props.<prop>, enumerate every theorem in namespace CM.Props.<prop> and its axioms.
    returns dict(ok, theorems=[{name, axioms, ok}], build_output)"""
    mod = prop_module(prop)
    ok, out = lake_build([mod, "CircuitProofs.Audit"])
    res = {"ok": False, "theorems": [], "build_ok": ok, "build_output": out[-4000:] if not ok else ""}
    if not ok:
        return res
    src = "import %s\nimport CircuitProofs.Audit\n#audit CM.Props.%s\n" % (mod, prop)
    os.makedirs(BUILD, exist_ok=True)
    path = os.path.join(BUILD, "audit_%s_%d.lean" % (prop, os.getpid()))
    with open(path, "w") as f:
        f.write(src)
    try:
        rc, out = sh(["lake", "env", "lean", path], cwd=LEAN, timeout=1800)
    finally:
        os.unlink(path)
    thms = []
    for line in out.splitlines():
        m = re.match(r"^AUDIT (\S+) \[(.*)\]$", line.strip())
        if m:
            axs = [a for a in m.group(2).split(",") if a]
            thms.append({"name": m.group(1), "axioms": axs,
                         "ok": all(a in ALLOWED_AXIOMS for a in axs)})
    res["theorems"] = thms
    res["ok"] = rc == 0 and len(thms) > 0 and all(t["ok"] for t in thms)
    if rc != 0:
        res["build_output"] = out[-4000:]
    # source hygiene: no sorry/admit/axiom/native_decide/... outside comments in the proof and model sources
    bad = grep_forbidden(mod)
    res["forbidden"] = bad
    if bad:
        res["ok"] = False
    return res

FORBIDDEN = re.compile(r"\b(sorry|admit|native_decide|bv_decide|implemented_by)\b|^\s*axiom\s|\bunsafe\s|maxHeartbeats\s+0\b")

def strip_lean_comments(s):
    out, i, depth = [], 0, 0
    while i < len(s):
        if s.startswith("/-", i):
            depth += 1; i += 2; continue
        if depth and s.startswith("-/", i):
            depth -= 1; i += 2; continue
        if depth:
            if s[i] == "\n": out.append("\n")
            i += 1; continue
        if s.startswith("--", i):
            while i < len(s) and s[i] != "\n": i += 1
            continue
        out.append(s[i]); i += 1
    return "".join(out)

def import_closure(mod):
    """project-local modules transitively imported by `mod` (by parsing import lines)"""
    seen, todo = set(), [mod]
    while todo:
        m = todo.pop()
        if m in seen: continue
        p = os.path.join(LEAN, m.replace(".", "/") + ".lean")
        if not os.path.exists(p): continue
        seen.add(m)
        for line in strip_lean_comments(open(p).read()).splitlines():
            mm = re.match(r"^\s*(?:public\s+)?import\s+(\S+)", line)
            if mm: todo.append(mm.group(1))
    return sorted(seen)

def grep_forbidden(mod=None):
    """sorry/admit/axiom/native_decide/... outside comments, in the sources the property's module depends on"""
    bad = []
    mods = import_closure(mod) if mod else []
    for m in mods:
        p = os.path.join(LEAN, m.replace(".", "/") + ".lean")
        txt = strip_lean_comments(open(p).read())
        for n, line in enumerate(txt.splitlines(), 1):
            if FORBIDDEN.search(line):
                bad.append("%s:%d: %s" % (os.path.relpath(p, LEAN), n, line.strip()[:120]))
    return bad

def leanchecker(mods):
    with Lock("lake"):
        rc, out = sh(["lake", "env", "leanchecker"] + mods, cwd=LEAN, timeout=3600)
    return rc == 0, out[-2000:]

# ------------------------------------------------------------------ Go side

def go_build(cmd="seqdiff"):
    """build harness/cmd/<cmd> against REPO's working tree; returns path of the binary"""
    tag = hashlib.sha1(REPO.encode()).hexdigest()[:10]
    bdir = os.path.join(BUILD, "go-" + tag)
    os.makedirs(bdir, exist_ok=True)
    harness = os.path.join(VERIF, "harness")
    modfile = os.path.join(bdir, "go.mod")
    mod = open(os.path.join(harness, "go.mod")).read().replace("=> /repo", "=> " + REPO)
    with Lock("go-" + tag):
        if not os.path.exists(modfile) or open(modfile).read() != mod:
            open(modfile, "w").write(mod)
        sums = ""
        for p in (os.path.join(REPO, "go.sum"), os.path.join(harness, "go.sum")):
            if os.path.exists(p):
                sums += open(p).read()
        open(os.path.join(bdir, "go.sum"), "w").write(sums)
        binp = os.path.join(bdir, cmd)
        rc, out = sh(["go", "build", "-modfile=" + modfile, "-o", binp, "./cmd/" + cmd], cwd=harness, env=GOENV, timeout=1200)
    if rc != 0:
        raise BuildError("go build of harness against %s failed:\n%s" % (REPO, out[-3000:]))
    return binp

class BuildError(Exception):
    pass

class HarnessCrash(Exception):
    """the harness process died while running the real code (a panic on a library goroutine, a fatal error …)"""
    def __init__(self, cmd, output):
        super().__init__("harness process crashed: " + output[-600:])
        self.cmd, self.output = cmd, output

def tool_build(name):
    """build tools/extract/<name> (stdlib-only Go) and return the binary path"""
    bdir = os.path.join(BUILD, "tools")
    os.makedirs(bdir, exist_ok=True)
    binp = os.path.join(bdir, name)
    with Lock("tools"):
        rc, out = sh(["go", "build", "-o", binp, "./extract/" + name], cwd=os.path.join(VERIF, "tools"), env=GOENV, timeout=600)
    if rc != 0:
        raise BuildError("go build of tool %s failed:\n%s" % (name, out[-2000:]))
    return binp

GENERATED = {"mergeprogs": "MergeProgs.lean", "lockfacts": "LockFacts.lean", "eventtables": "EventTables.lean", "chanfacts": "ChanFacts.lean"}
# translated units (tools/extract/gotrans REPO <unit>): one Lean module per Go function under Generated/<unit>/
GOTRANS = {"gocircuit": "GoCircuit", "gohopener": "GoHOpener", "gohcloser": "GoHCloser", "goconsec": "GoConsec",
           "gorunstats": "GoRunStats", "gofbstats": "GoFbStats", "goslo": "GoSlo", "gotimedcheck": "GoTimedCheck", "golivecfg": "GoLiveCfg",
           "gofanrun": "GoFanRun", "gofanfb": "GoFanFb", "gofancirc": "GoFanCirc", "gostream": "GoStream", "gosetcfg": "GoSetCfg",
           "gorollingbuckets": "GoRollingBuckets", "gorollingcounter": "GoRollingCounter", "gomanager": "GoManager", "gosorteddurations": "GoSortedDurations",
           "gorollingbucketsp": "GoRollingBucketsP", "gorollingpercentile": "GoRollingPercentile", "godurationsbucket": "GoDurationsBucket",
           "goneveropens": "GoNeverOpens", "gonevercloses": "GoNeverCloses", "gohopenercfg": "GoHOpenerCfg", "gohclosercfg": "GoHCloserCfg", "goslocfg": "GoSloCfg",
           "gorciclear": "GoRCIClear", "gorciadv": "GoRCIAdv", "gorciops": "GoRCIOps", "gotci": "GoTCI", "gocalli": "GoCallI",
           "goisbadrequest": "GoIsBadRequest", "gocircuiterror": "GoCircuitError", "gosimplebadrequest": "GoSimpleBadRequest",
           "goatomicboolean": "GoAtomicBoolean", "goatomicint64": "GoAtomicInt64",
           "gonewrc": "GoNewRC", "gonewrp": "GoNewRP", "gorcwall": "GoRCWall", "gorpsnap": "GoRPSnap", "godbiter": "GoDBIter", "gosdvar": "GoSDVar",
           "gostatsrun": "GoStatsRun", "gostatsfb": "GoStatsFb", "gostatsfactory": "GoStatsFactory", "gostatsfind": "GoStatsFind",
           "goctor": "GoCtor", "goctorset": "GoCtorSet", "gocircmisc": "GoCircMisc", "gomanagerall": "GoManagerAll", "gotchook": "GoTCHook", "goslofactory": "GoSloFactory", "gorollingstore": "GoRollingStore", "goruni": "GoRunI",
           "gohfaclayers": "GoHFacLayers", "gohfaccloser": "GoHFacCloser", "gohfacopener": "GoHFacOpener", "gohfacopenerset": "GoHFacOpenerSet", "gohfacnow": "GoHFacNow", "gohfacconsec": "GoHFacConsec", "gohfacnever": "GoHFacNever", "gofbi": "GoFbI", "gomgri": "GoMgrI", "gomgriall": "GoMgrIAll",
           "gofbstatsvar": "GoFbStatsVar", "gorunstatsvar": "GoRunStatsVar", "goslovar": "GoSloVar", "gorpvar": "GoRPVar", "gomanagervar": "GoManagerVar", "goexpvartoval": "GoExpvarToVal", "gofanrunvar": "GoFanRunVar", "gofanfbvar": "GoFanFbVar", "gocircuitvar": "GoCircuitVar"}

def regenerate(name):
    """re-run an extractor on REPO's working tree and (re)write lean/Generated/<file> if it changed.
    returns (ok, message)"""
    if name in GOTRANS:
        return regenerate_unit(GOTRANS[name])
    binp = tool_build(name)
    rc, out = sh([binp, REPO], env=GOENV, timeout=600)
    if rc != 0 or "namespace CM.Generated" not in out:
        return False, "extractor %s failed: %s" % (name, out[-1500:])
    path = os.path.join(LEAN, "Generated", GENERATED[name])
    with Lock("lake"):
        old = open(path).read() if os.path.exists(path) else None
        if old != out:
            with open(path, "w") as f:
                f.write(out)
    return True, ("regenerated" if old != out else "unchanged")

def regenerate_unit(unit):
    """translate the unit's Go functions again.  The translator's output is a sequence of `-- FILE: <path>` sections;
    every module is rewritten when it changed, modules no longer produced are removed.  When the translator gives up
    (the source left the translated subset) the root module is replaced by one that cannot compile, so that nothing
    is ever proved about a stale translation — but the check goes on to search for a failing input."""
    binp = tool_build("gotrans")
    p = subprocess.run([binp, REPO, unit], env=GOENV, timeout=600, stdout=subprocess.PIPE, stderr=subprocess.PIPE, text=True)
    gdir = os.path.join(LEAN, "Generated")
    files = {}
    if p.returncode == 0 and "-- FILE: " in p.stdout:
        cur = None
        for line in p.stdout.split("\n"):
            if line.startswith("-- FILE: "):
                cur = line[len("-- FILE: "):].strip()
                files[cur] = []
            elif cur is not None:
                files[cur].append(line)
        files = {k: "\n".join(v).rstrip("\n") + "\n" for k, v in files.items()}
        ok, msg = True, None
    else:
        why = (p.stderr or p.stdout)[-800:].replace("-/", "- /")
        stub = ("/- the translator gave up on today's source:\n%s\n-/\nnamespace CM.Generated.%s\n"
                "theorem translation_failed : False := by decide\nend CM.Generated.%s\n" % (why, unit, unit))
        # EVERY module of the unit is invalidated (the tie proofs import the per-function modules directly)
        files = {unit + ".lean": stub}
        if os.path.isdir(os.path.join(gdir, unit)):
            for fn in os.listdir(os.path.join(gdir, unit)):
                if fn.endswith(".lean"):
                    files[os.path.join(unit, fn)] = stub
        ok, msg = False, "translator gotrans %s failed: %s" % (unit, why)
    changed = 0
    with Lock("lake"):
        os.makedirs(os.path.join(gdir, unit), exist_ok=True)
        if ok:
            for fn in os.listdir(os.path.join(gdir, unit)):
                if os.path.join(unit, fn) not in files:
                    os.remove(os.path.join(gdir, unit, fn)); changed += 1
        for rel, text in files.items():
            path = os.path.join(gdir, rel)
            old = open(path).read() if os.path.exists(path) else None
            if old != text:
                with open(path, "w") as f:
                    f.write(text)
                changed += 1
    return ok, (msg if not ok else ("regenerated (%d modules changed)" % changed if changed else "unchanged"))

# ------------------------------------------------------------------ sequential differential (K1 + spec-vs-real)

def read_lines(p):
    with open(p) as f:
        return [l.rstrip("\n") for l in f]

def split_cases(cases_lines, *streams):
    """yield (header, ops, [per-stream op outputs]) for each case"""
    i, n = 0, len(cases_lines)
    while i < n:
        l = cases_lines[i]
        if l.startswith("case "):
            j = i + 1
            while j < n and cases_lines[j] != "end":
                j += 1
            yield l[5:], cases_lines[i+1:j], [s[i+1:j] for s in streams]
            i = j + 1
        else:
            i += 1

def ident(x):
    return x

class SeqResult:
    def __init__(self):
        self.cases = 0; self.ops = 0
        self.k_bad = []   # (header, ops, idx, model, real)
        self.f_bad = []   # (header, ops, idx, spec, real)
        self.stats = {}
        self.samples = []
        self.distinct_nontrivial = 0

def compare_case(header, ops, real, ms, proj_model, proj_spec):
    """returns (k_idx, f_idx).
    k_idx: the first op at which the real and the model outputs differ AT ALL is the divergence point; the
           correspondence of THIS property is broken iff its projected fields differ there (after a divergence in
           fields the property is not about, the model state is out of step for unrelated reasons and later ops are
           not compared for it).
    f_idx: first op whose real output violates the spec (the spec column judges real observations only, so it is
           evaluated on every op)."""
    k_idx = f_idx = None
    diverged = False
    for i, (r, m) in enumerate(zip(real, ms)):
        parts = m.split("\t")
        mo = parts[0]
        so = parts[1] if len(parts) > 1 else "-"
        if hasattr(proj_spec, "filter"):      # shared suites: keep only this property's verdict
            so = proj_spec.filter(so)
        if not diverged and r != mo:
            diverged = True
            if proj_model(r) != proj_model(mo):
                k_idx = i
        if f_idx is None and so != "-":
            if so.startswith("!"):          # trace monitor: the real answer violates the property here
                f_idx = i
            else:                           # functional spec: expected value
                ps, pr = proj_spec(so), proj_spec(r)
                if ps is not None and ps != pr:
                    f_idx = i
        if diverged and f_idx is not None:
            break
    return k_idx, f_idx

def run_seq(suite, seed, ncases, workdir, proj_model=ident, proj_spec=ident, replay=None, seqdiff=None):
    """generate+run (or replay) cases on the real code, run the Lean driver, compare."""
    seqdiff = seqdiff or go_build("seqdiff")
    os.makedirs(workdir, exist_ok=True)
    cmd = [seqdiff, "-suite", suite, "-out", workdir]
    cmd += ["-replay", replay] if replay else ["-seed", str(seed), "-cases", str(ncases)]
    rc, out = sh(cmd, env=GOENV, timeout=7200)
    if rc != 0:
        raise HarnessCrash(cmd, out)
    cases_p = os.path.join(workdir, suite + ".cases")
    real_p = os.path.join(workdir, suite + ".real")
    model_p = os.path.join(workdir, suite + ".model")
    cl, rl = read_lines(cases_p), read_lines(real_p)
    comb_p = os.path.join(workdir, suite + ".combined")
    with open(comb_p, "w") as f:      # op lines followed by "> <real answer>" for the trace monitors
        for c, r in zip(cl, rl):
            f.write(c + "\n")
            if not (c.startswith("case ") or c == "end"):
                f.write("> " + r + "\n")
    run_driver(comb_p, model_p)
    ml = read_lines(model_p)
    res = SeqResult()
    if not (len(cl) == len(rl) == len(ml)):
        raise RuntimeError("stream length mismatch %d/%d/%d in %s" % (len(cl), len(rl), len(ml), workdir))
    for header, ops, (real, ms) in split_cases(cl, rl, ml):
        res.cases += 1; res.ops += len(ops)
        k, f = compare_case(header, ops, real, ms, proj_model, proj_spec)
        if k is not None:
            res.k_bad.append({"header": header, "ops": ops, "idx": k, "model": ms[k].split("\t")[0], "real": real[k]})
        if f is not None:
            sp = ms[f].split("\t")
            res.f_bad.append({"header": header, "ops": ops, "idx": f, "spec": sp[1] if len(sp) > 1 else "-", "real": real[f]})
        if len(res.samples) < 2 and len(ops) >= 3 and res.cases % 7 == 3:
            res.samples.append({"case": header, "ops": ops[:12], "real": real[:12]})
    if not res.samples:
        for header, ops, (real, ms) in split_cases(cl, rl, ml):
            res.samples.append({"case": header, "ops": ops[:12], "real": real[:12]}); break
    sp = os.path.join(workdir, suite + ".stats.json")
    if os.path.exists(sp):
        res.stats = json.load(open(sp))
        res.distinct_nontrivial = res.stats.get("distinct_nontrivial", 0)
    return res

def eval_case(suite, header, ops, proj_model, proj_spec, seqdiff, workdir):
    """run one case; returns (k_idx, f_idx, real, ms)"""
    os.makedirs(workdir, exist_ok=True)
    p = os.path.join(workdir, "one.cases")
    with open(p, "w") as f:
        f.write("case %s\n" % header)
        for o in ops: f.write(o + "\n")
        f.write("end\n")
    sub = os.path.join(workdir, "one")
    r = run_seq(suite, 0, 0, sub, proj_model, proj_spec, replay=p, seqdiff=seqdiff)
    cl = read_lines(os.path.join(sub, suite + ".cases")); rl = read_lines(os.path.join(sub, suite + ".real")); ml = read_lines(os.path.join(sub, suite + ".model"))
    for h, o, (real, ms) in split_cases(cl, rl, ml):
        k, f = compare_case(h, o, real, ms, proj_model, proj_spec)
        return k, f, real, ms
    return None, None, [], []

def shrink(suite, bad, kind, proj_model, proj_spec, seqdiff, workdir, budget=150):
    """delta-debug the op list of a failing case; kind in {'k','f'}; keeps 'some failure of this kind exists'"""
    header, ops = bad["header"], list(bad["ops"][:bad["idx"] + 1])
    def fails(cand):
        k, f, _, _ = eval_case(suite, header, cand, proj_model, proj_spec, seqdiff, workdir)
        return (k if kind == "k" else f) is not None
    # a disagreement must REPLAY: the case is run again alone (prefix up to the bad op, then the whole case), three times
    # each.  One that never shows again is not a replayable counterexample (e.g. a goroutine of the library that was
    # still finishing under CPU starvation moved a substitute clock): the caller records it as unreproduced.
    if not any(fails(ops) for _ in range(3)):
        full = list(bad["ops"])
        if full != ops and any(fails(full) for _ in range(2)):
            ops = full
        else:
            return dict(bad, unreproduced=True)
    n = 2
    t_end = time.time() + 90      # slow replays (a hanging call costs seconds each): bounded minimisation
    while len(ops) >= 2 and budget > 0 and time.time() < t_end:
        chunk = max(1, len(ops) // n)
        reduced = False
        for start in range(0, len(ops), chunk):
            cand = ops[:start] + ops[start + chunk:]
            budget -= 1
            if cand and fails(cand):
                ops = cand; n = max(n - 1, 2); reduced = True
                break
            if budget <= 0 or time.time() > t_end: break
        if not reduced:
            if chunk == 1: break
            n = min(n * 2, len(ops))
    k, f, real, ms = eval_case(suite, header, ops, proj_model, proj_spec, seqdiff, workdir)
    idx = k if kind == "k" else f
    out = {"header": header, "ops": ops, "idx": idx, "real": real, "model_and_spec": ms}
    return out

# ------------------------------------------------------------------ evidence / verdict

def write_json(path, obj):
    os.makedirs(os.path.dirname(path), exist_ok=True)
    tmp = path + ".tmp%d" % os.getpid()
    with open(tmp, "w") as f:
        json.dump(obj, f, indent=1, sort_keys=False)
        f.write("\n")
    os.replace(tmp, path)

def load_known_findings(prop):
    p = os.path.join(VERIF, "known_findings.json")
    if not os.path.exists(p):
        return []
    return [e for e in json.load(open(p)).get("findings", []) if e.get("property") == prop]


def localize_crash(suite, seed, ncases, workdir, seqdiff, replay=None):
    """the harness died: find the crashing case and shrink its ops with 'the process dies' as the predicate.
    returns dict(header, ops, output) or None"""
    os.makedirs(workdir, exist_ok=True)
    dump = os.path.join(workdir, "dump")
    if replay:
        cases = list(split_cases(read_lines(replay)))
    else:
        rc, out = sh([seqdiff, "-suite", suite, "-seed", str(seed), "-cases", str(ncases), "-out", dump, "-dump"], env=GOENV, timeout=600)
        if rc != 0: return None
        cases = list(split_cases(read_lines(os.path.join(dump, suite + ".cases"))))
    def crashes(header, ops):
        p = os.path.join(workdir, "crash.cases")
        with open(p, "w") as f:
            f.write("case %s\n" % header)
            for o in ops: f.write(o + "\n")
            f.write("end\n")
        for _ in range(3):       # a crash that depends on goroutine timing may need more than one go
            rc, out = sh([seqdiff, "-suite", suite, "-replay", p, "-out", os.path.join(workdir, "crashrun")], env=GOENV, timeout=300)
            if rc != 0: break
        return (rc != 0), out
    def list_crashes(cs, tries=3):
        p = os.path.join(workdir, "range.cases")
        with open(p, "w") as f:
            for header, ops, _ in cs:
                f.write("case %s\n" % header)
                for o in ops: f.write(o + "\n")
                f.write("end\n")
        for _ in range(tries):       # a crash that depends on goroutine timing may need more than one go
            rc, out = sh([seqdiff, "-suite", suite, "-replay", p, "-out", os.path.join(workdir, "crashrun")], env=GOENV, timeout=600)
            if rc != 0: return True, out
        return False, out
    def multi(cs, out):
        flat = []
        for header, ops, _ in cs:
            flat += ["case " + header] + list(ops) + ["end"]
        return {"header": "%d case histor%s run in ONE process (the failure needs state that outlives a call, or depends on goroutine timing: replay tries several times)" % (len(cs), "y" if len(cs) == 1 else "ies one after the other"),
                "ops": flat, "cases": [[h, list(o)] for h, o, _ in cs], "output": out[-2500:]}
    ok, best_out = list_crashes(cases)
    if not ok: return None
    # delta debugging over whole cases, bounded in time; `cs` is always a list on which a crash WAS observed
    cs = list(cases); n = 2; t_end = time.time() + 240
    while len(cs) >= 2 and time.time() < t_end:
        chunk = max(1, len(cs) // n); reduced = False
        for start in range(0, len(cs), chunk):
            cand = cs[:start] + cs[start + chunk:]
            if cand:
                ok, out = list_crashes(cand)
                if ok:
                    cs, best_out = cand, out; n = max(n - 1, 2); reduced = True; break
            if time.time() > t_end: break
        if not reduced:
            if chunk == 1: break
            n = min(n * 2, len(cs))
    if len(cs) != 1:
        return multi(cs, best_out)
    header, ops, _ = cs[0]
    ok, out = crashes(header, ops)
    if not ok: return multi(cs, best_out)
    # shrink ops
    n = 2
    budget = 60
    t_end = time.time() + 90
    while len(ops) >= 2 and budget > 0 and time.time() < t_end:
        chunk = max(1, len(ops) // n); reduced = False
        for start in range(0, len(ops), chunk):
            cand = ops[:start] + ops[start + chunk:]
            budget -= 1
            if cand and crashes(header, cand)[0]:
                ops = cand; n = max(n - 1, 2); reduced = True; break
            if budget <= 0 or time.time() > t_end: break
        if not reduced:
            if chunk == 1: break
            n = min(n * 2, len(ops))
    _, out = crashes(header, ops)
    return {"header": header, "ops": ops, "output": out[-2500:]}

"""components.py — kinds of correspondence a property check is assembled from."""
import hashlib, json, os, shutil, time
from core import *

class Ctx:
    def __init__(self, prop, tier, seed, workdir):
        self.prop, self.tier, self.seed, self.workdir = prop, tier, seed, workdir
        self.scale = 1  # multiplied in the extended search

class Seq:
    """K1: sequential differential of suite `suite` (real code vs Lean model) + spec-vs-real (F)."""
    kind = "K1"
    def __init__(self, suite, quick, thorough, proj_model=ident, proj_spec=ident, label=None, signature=None, crash_is_violation=False, enum=None):
        self.enum = enum      # function(tier) -> iterable of (header, [ops]): a small scope enumerated COMPLETELY on every run
        self.crash_is_violation = crash_is_violation
        self.suite, self.quick, self.thorough = suite, quick, thorough
        self.pm, self.ps = proj_model, proj_spec
        self.name = label or suite
        self.signature = signature  # function(bad_item) -> tag string, used to match known findings
    def budget(self, ctx):
        # the gowrap scenarios wait in real time (parked functions, grace periods): the extended search gets 3x, not 10x
        scale = min(ctx.scale, 3) if self.suite == "gowrap" else ctx.scale
        return (self.quick if ctx.tier == "quick" else self.thorough) * scale
    def run(self, ctx):
        seqdiff = go_build("seqdiff")
        wd = os.path.join(ctx.workdir, self.name)
        out = {"name": self.name, "kind": self.kind, "suite": self.suite, "evaluations": 0, "ops": 0, "distinct_nontrivial": 0,
               "traces_validated": 0, "samples": [], "stats": {}, "k_bad": [], "f_bad": [], "corpus_cases": 0}
        # corpus first
        cdir = os.path.join(VERIF, "corpus", self.suite)
        runs = []
        if os.path.isdir(cdir):
            for fn in sorted(os.listdir(cdir)):
                if fn.endswith(".cases"):
                    runs.append(("corpus:" + fn, dict(replay=os.path.join(cdir, fn))))
        n = self.budget(ctx)
        runs.append(("gen", dict(seed=ctx.seed, ncases=n)))
        if self.enum:
            os.makedirs(wd, exist_ok=True)
            ep = os.path.join(wd, "enum.cases")
            ne = 0
            with open(ep, "w") as f:
                for header, ops in self.enum(ctx.tier):
                    f.write("case %s\n%s\nend\n" % (header, "\n".join(ops)))
                    ne += 1
            runs.append(("enum", dict(replay=ep)))
            out["stats_enum"] = {"cases_enumerated": ne, "exhaustive_small_scope": True}
        for label, kw in runs:
            sub = os.path.join(wd, label.replace(":", "_").replace("/", "_"))
            try:
                r = run_seq(self.suite, kw.get("seed", 0), kw.get("ncases", 0), sub, self.pm, self.ps, replay=kw.get("replay"), seqdiff=seqdiff)
            except HarnessCrash as hc:
                # the real code took the harness process down: localise and shrink the crashing case
                loc = localize_crash(self.suite, kw.get("seed", 0), kw.get("ncases", 0), os.path.join(wd, "crash"), seqdiff, replay=kw.get("replay"))
                item = {"component": self.name, "suite": self.suite, "kind": "spec-violation" if self.crash_is_violation else "correspondence",
                        "source": label, "seed": ctx.seed, "what": "the harness process died while running the real code (panic on a library goroutine / fatal error); the model does not crash on this case",
                        "case": loc["header"] if loc else "(not localised)", "ops": loc["ops"] if loc else [], "first_bad_op": (len(loc["ops"]) - 1) if loc else None,
                        "real": ["process-crash"] * (len(loc["ops"]) if loc else 0), "crash_output": (loc["output"] if loc else hc.output[-2500:]), "signature": None}
                if loc and loc.get("cases"): item["cases"] = loc["cases"]
                out["f_bad" if self.crash_is_violation else "k_bad"].append(item)
                continue
            out["evaluations"] += r.cases; out["ops"] += r.ops
            if label == "gen":
                out["distinct_nontrivial"] += r.distinct_nontrivial
                out["stats"] = r.stats
                out["samples"] = r.samples
            elif label == "enum":
                out["enum_cases"] = r.cases
            else:
                out["corpus_cases"] += r.cases
            out["traces_validated"] += r.cases - len(r.k_bad)
            for kind, lst in (("k", r.k_bad), ("f", r.f_bad)):
                # group by known-finding signature so that a listed finding cannot hide an unlisted violation
                groups = {}
                for bad in lst:
                    sig = self.signature(bad.get("spec", "")) if (self.signature and kind == "f") else None
                    groups.setdefault(sig, []).append(bad)
                for sig, items in groups.items():
                    kept = 0
                    for n_seen, bad in enumerate(items):
                        if kept >= 2 or n_seen >= 6:   # shrink at most 2 per group, look at no more than 6
                            break
                        small = shrink(self.suite, bad, kind, self.pm, self.ps, seqdiff, os.path.join(wd, "shrink"))
                        if small.get("unreproduced"):
                            # seen once, never again when the very same case is re-run alone (5 more runs): recorded, and
                            # reported only when it is not a one-off (see below)
                            out.setdefault("unreproduced", []).append({"kind": kind, "source": label, "case": bad["header"], "ops": bad["ops"][:bad["idx"] + 1],
                                                                       "first_bad_op": bad["idx"], "real": bad.get("real"), "model": bad.get("model"), "spec": bad.get("spec")})
                            continue
                        kept += 1
                        item = {"component": self.name, "suite": self.suite, "kind": "spec-violation" if kind == "f" else "correspondence",
                                "source": label, "case": small["header"], "ops": small["ops"], "first_bad_op": small["idx"],
                                "real": small.get("real"), "model_and_spec": small.get("model_and_spec"), "seed": ctx.seed}
                        if kind == "f":
                            ms = item.get("model_and_spec") or []
                            i = item.get("first_bad_op")
                            spec = ms[i].split("\t")[1] if (i is not None and i < len(ms) and "\t" in ms[i]) else ""
                            item["signature"] = self.signature(spec) if self.signature else None
                        out[kind + "_bad"].append(item)
                out[kind + "_bad_total"] = out.get(kind + "_bad_total", 0) + len(lst)
        shutil.rmtree(os.path.join(wd, "shrink"), ignore_errors=True)
        un = out.get("unreproduced", [])
        if len(un) > 2:
            # not a hiccup: the behaviour compared is nondeterministic — that breaks the tie
            u = un[0]
            out["k_bad"].append({"component": self.name, "suite": self.suite, "kind": "correspondence", "source": u["source"], "case": u["case"], "ops": u["ops"],
                                 "first_bad_op": u["first_bad_op"], "real": u["real"], "model_and_spec": None, "seed": ctx.seed,
                                 "what": "%d cases disagreed once and did not replay: nondeterministic behaviour under a sequential driver" % len(un)})
        out["unreproduced_count"] = len(un)
        out["unreproduced"] = un[:3]
        return out
    def replay(self, item, ctx, quiet=False):
        import sys
        def print(*a):   # known-finding replays must not pollute stdout
            __builtins__["print"](*a, file=sys.stderr if quiet else sys.stdout) if isinstance(__builtins__, dict) else __import__("builtins").print(*a, file=sys.stderr if quiet else sys.stdout)
        seqdiff = go_build("seqdiff")
        if item.get("cases"):
            # a failure that needs several case histories in one process: run them again, in order
            wd = os.path.join(ctx.workdir, "replay"); os.makedirs(wd, exist_ok=True)
            cp = os.path.join(wd, "multi.cases")
            with open(cp, "w") as fh:
                for header, ops in item["cases"]:
                    fh.write("case %s\n" % header)
                    for o in ops: fh.write(o + "\n")
                    fh.write("end\n")
            for _ in range(5):
                rc, outp = sh([seqdiff, "-suite", self.suite, "-replay", cp, "-out", os.path.join(wd, "multi")], env=GOENV, timeout=600)
                if rc != 0: break
            if rc != 0:
                print("the harness process still dies on these %d cases run in one process:" % len(item["cases"]), outp[-800:])
                return {"k": 0, "f": 0 if self.crash_is_violation else None}
            print("the %d cases now run to the end" % len(item["cases"]))
            return {"k": None, "f": None}
        tries = 5 if "process-crash" in (item.get("real") or []) else 1   # a crash may depend on goroutine timing
        for attempt in range(tries):
            try:
                k, f, real, ms = eval_case(self.suite, item["case"], item["ops"], self.pm, self.ps, seqdiff, os.path.join(ctx.workdir, "replay"))
            except HarnessCrash as hc:
                print("the harness process still dies on this case:", hc.output[-800:])
                return {"k": 0, "f": 0 if self.crash_is_violation else None}
            if k is not None or f is not None: break
        print("case", item["case"])
        for i, op in enumerate(item["ops"]):
            mark = " <== differs" if i in (k, f) else ""
            print("  %-40s real=%s   model|spec=%s%s" % (op, real[i] if i < len(real) else "?", ms[i].replace("\t", " | ") if i < len(ms) else "?", mark))
        return {"k": k, "f": f}

# ------------------------------------------------------------------ H2: schedule harness

_SCRATCH_CACHE = {}

def prepare_sched_binary(ctx):
    """copy REPO's working tree to a scratch dir outside /repo and /verif, substitute the import paths of sync/atomic
    (faststats/atomic.go) and sync (every non-test file declaring a Mutex/RWMutex), drop in vsched + vschedrun, build.
    The files are found by scanning imports at check time, not from a fixed list. Returns the binary path (inside
    ctx.workdir); the scratch copy is removed immediately after the build."""
    if ctx.workdir in _SCRATCH_CACHE:
        return _SCRATCH_CACHE[ctx.workdir]
    import tempfile, re
    scratch = tempfile.mkdtemp(prefix="verif-sched-")
    try:
        rc, out = sh(["rsync", "-a", "--exclude", ".git", REPO.rstrip("/") + "/", scratch + "/"])
        if rc != 0:
            raise BuildError("rsync failed: " + out)
        instrumented = []
        for dp, dns, fns in os.walk(scratch):
            dns[:] = [d for d in dns if not d.startswith(".") and d not in ("example", "vsched", "benchmarking")]
            for fn in fns:
                if not fn.endswith(".go") or fn.endswith("_test.go"):
                    continue
                p = os.path.join(dp, fn)
                src = open(p).read()
                new = src
                if re.search(r'^\s*"sync/atomic"\s*$', src, re.M):
                    new = re.sub(r'^(\s*)"sync/atomic"\s*$', r'\1"github.com/cep21/circuit/v4/vsched/vatomic"', new, flags=re.M)
                    new = re.sub(r'\batomic\.', 'vatomic.', new)
                if re.search(r'^\s*"sync"\s*$', src, re.M):
                    new = re.sub(r'^(\s*)"sync"\s*$', r'\1sync "github.com/cep21/circuit/v4/vsched/vsync"', new, flags=re.M)
                if new != src:
                    open(p, "w").write(new)
                    instrumented.append(os.path.relpath(p, scratch))
        shutil.copytree(os.path.join(VERIF, "vsched"), os.path.join(scratch, "vsched"))
        binp = os.path.join(ctx.workdir, "vschedrun")
        rc, out = sh(["go", "build", "-o", binp, "./vsched/vschedrun"], cwd=scratch, env=GOENV, timeout=1200)
        if rc != 0:
            raise BuildError("schedule harness does not build against the instrumented tree:\n" + out[-3000:])
    finally:
        shutil.rmtree(scratch, ignore_errors=True)
    _SCRATCH_CACHE[ctx.workdir] = (binp, instrumented)
    return binp, instrumented

class Sched:
    """K2/monitors: real code under the cooperative scheduler; a failing schedule is the replay"""
    kind = "K2"
    def __init__(self, scenario, quick, thorough, exhaustive_limit=0, label=None, conformance=None, traces=(150, 3000), only=None, pb1=None):
        self.pb1 = pb1        # (configs, limit) per tier: systematic single-preemption exploration (vschedrun -pb1)
        self.conformance, self.ntraces = conformance, traces   # K2: Lean trace-conformance suite for this scenario
        self.only = only      # a scenario shared by several properties prefixes its problems "Cnn:"; keep this property's
        self.scenario, self.quick, self.thorough, self.exh = scenario, quick, thorough, exhaustive_limit
        self.name = label or ("sched-" + scenario)
    def _run(self, binp, args):
        rc, out = sh([binp, "-scenario", self.scenario] + (["-only", self.only] if self.only else []) + args, env=GOENV, timeout=7200)
        lines = []
        for l in out.splitlines():
            l = l.strip()
            if l.startswith("{"):
                try: rec = json.loads(l)
                except ValueError: continue
                if self.only and rec.get("problems"):
                    rec["problems"] = [p for p in rec["problems"] if p.startswith(self.only) or not (len(p) > 3 and p[0] == "C" and p[3] == ":")]
                lines.append(rec)
        if rc != 0 and not lines:
            raise RuntimeError("vschedrun failed: " + out[-1500:])
        return lines
    def run(self, ctx):
        binp, instrumented = prepare_sched_binary(ctx)
        n = (self.quick if ctx.tier == "quick" else self.thorough) * ctx.scale
        out = {"name": self.name, "kind": self.kind, "scenario": self.scenario, "evaluations": 0, "distinct_nontrivial": 0, "traces_validated": 0,
               "samples": [], "stats": {}, "k_bad": [], "f_bad": [], "instrumented_files": instrumented}
        # corpus of recorded schedules first
        cdir = os.path.join(VERIF, "corpus", "sched", self.scenario)
        if os.path.isdir(cdir):
            for fn in sorted(os.listdir(cdir)):
                if not fn.endswith(".json"): continue
                for item in json.load(open(os.path.join(cdir, fn))):
                    recs = self._run(binp, ["-replay", item["config"] + ";" + ",".join(str(c) for c in item["schedule"])])
                    out["evaluations"] += 1
                    out["corpus_cases"] = out.get("corpus_cases", 0) + 1
                    if recs and recs[0].get("problems"):
                        out["f_bad"].append({"component": self.name, "kind": "spec-violation", "scenario": self.scenario, "config": item["config"], "source": "corpus:" + fn,
                                             "schedule": recs[0]["choices"], "problems": recs[0]["problems"], "trace": (recs[0].get("trace") or [])[:400], "seed": ctx.seed, "signature": None})
                    else:
                        out["traces_validated"] += 1
        batches = [["-seed", str(ctx.seed), "-runs", str(n)]]
        exported = []
        if self.conformance:
            batches[0] += ["-traces", str(self.ntraces[0] if ctx.tier == "quick" else self.ntraces[1])]
        if self.exh and (ctx.tier == "thorough" or self.exh <= 3000):
            batches.append(["-exhaustive", "-seed", str(ctx.seed), "-limit", str(self.exh if ctx.tier == "quick" else self.exh * 20)])
        if self.pb1:
            ncfg, lim = self.pb1[0] if ctx.tier == "quick" else self.pb1[1]
            batches.append(["-pb1", str(ncfg), "-seed", str(ctx.seed), "-limit", str(lim)])
        for args in batches:
            for rec in self._run(binp, args):
                if rec.get("summary"):
                    out["evaluations"] += rec["runs"]; out["distinct_nontrivial"] += rec["distinct_schedules"]
                    out["stats"].setdefault("batches", []).append(rec)
                    out["traces_validated"] += rec["runs"] - rec["failing"]
                elif rec.get("trace_export"):
                    exported.append(rec)
                elif rec.get("sample"):
                    if len(out["samples"]) < 2:
                        out["samples"].append({"config": rec["config"], "schedule": rec["choices"][:60], "trace": (rec.get("trace") or [])[:40]})
                elif rec.get("problems"):
                    out["f_bad"].append({"component": self.name, "kind": "spec-violation", "scenario": self.scenario, "config": rec["config"],
                                         "schedule": rec["choices"], "problems": rec["problems"], "trace": (rec.get("trace") or [])[:400], "seed": ctx.seed,
                                         "signature": None})
        if self.conformance and exported:
            # K2: every atomic step of these real runs must be the step the Lean small-step model takes
            wd = os.path.join(ctx.workdir, self.name + "-k2")
            os.makedirs(wd, exist_ok=True)
            cp, mp = os.path.join(wd, "traces.cases"), os.path.join(wd, "traces.model")
            with open(cp, "w") as f:
                # a scenario may be judged against several models ("tr-call,tr-run"): every trace once per suite
                exported = [dict(rec, suite=su) for rec in exported for su in self.conformance.split(",")]
                for rec in exported:
                    f.write("case %s %s\n" % (rec["suite"], rec["config"]))
                    for t in rec["trace"]: f.write(t + "\n")
                    f.write("end\n")
            run_driver(cp, mp)
            cl, ml = read_lines(cp), read_lines(mp)
            conforming = steps = 0
            for (header, ops, (ms,)), rec in zip(split_cases(cl, ml), exported):
                bad = next((i for i, m in enumerate(ms) if m.startswith("MISMATCH") or m.startswith("bad") or m.startswith("no-suite") or m.startswith("missing")), None)
                steps += sum(1 for m in ms if m.startswith("ok"))
                if bad is None:
                    conforming += 1
                elif len(out["k_bad"]) < 3:
                    out["k_bad"].append({"component": self.name, "kind": "correspondence", "scenario": self.scenario, "config": rec["config"], "schedule": [],
                                         "problems": ["trace step %d does not conform to the Lean small-step model (%s): %s" % (bad, rec["suite"], ms[bad].split("\t")[0])],
                                         "trace": ops[:bad + 1][-60:], "seed": ctx.seed})
            out["stats"]["k2_traces_checked"] = len(exported); out["stats"]["k2_traces_conforming"] = conforming; out["stats"]["k2_model_steps_matched"] = steps
            out["k2_traces_conforming"] = conforming
        return out
    def replay(self, item, ctx, quiet=False):
        binp, _ = prepare_sched_binary(ctx)
        recs = self._run(binp, ["-replay", item["config"] + ";" + ",".join(str(c) for c in item["schedule"])])
        probs = recs[0].get("problems") if recs else ["no output"]
        import sys
        print("config", item["config"], "schedule", item["schedule"], file=sys.stderr if quiet else sys.stdout)
        for t in (recs[0].get("trace") or [])[:200] if recs else []:
            print("  ", t, file=sys.stderr if quiet else sys.stdout)
        print("problems:", probs, file=sys.stderr if quiet else sys.stdout)
        return {"f": 0 if probs else None}

class RaceRun:
    """C11 obligation 1, failing-input search: a workload under the Go race detector; a race report is the replay"""
    kind = "race"
    name = "racerun"
    def __init__(self, quick_s=1.5, thorough_s=20):
        self.quick_s, self.thorough_s = quick_s, thorough_s
    def run(self, ctx):
        env = dict(GOENV, CGO_ENABLED="1")
        tag = hashlib.sha1(REPO.encode()).hexdigest()[:10]
        bdir = os.path.join(BUILD, "go-" + tag)
        go_build("seqdiff")   # makes sure the modfile exists
        binp = os.path.join(bdir, "racerun")
        with Lock("go-" + tag):
            rc, out = sh(["go", "build", "-race", "-modfile=" + os.path.join(bdir, "go.mod"), "-o", binp, "./cmd/racerun"], cwd=os.path.join(VERIF, "harness"), env=env, timeout=1800)
        res = {"name": self.name, "kind": self.kind, "evaluations": 0, "distinct_nontrivial": 0, "traces_validated": 0, "samples": [], "stats": {}, "k_bad": [], "f_bad": []}
        if rc != 0:
            raise BuildError("racerun does not build with -race:\n" + out[-2000:])
        secs = (self.quick_s if ctx.tier == "quick" else self.thorough_s) * (3 if ctx.scale > 1 else 1)
        rc, out = sh([binp, "-dur", "%dms" % int(secs * 1000), "-seed", str(ctx.seed)], env=dict(env, GORACE="halt_on_error=1 exitcode=66"), timeout=600)
        res["evaluations"] = 1; res["distinct_nontrivial"] = 1
        res["stats"] = {"seconds": secs, "exit": rc}
        if "WARNING: DATA RACE" in out or rc == 66:
            res["f_bad"].append({"component": self.name, "kind": "spec-violation", "seed": ctx.seed, "what": "the Go race detector reports a data race under concurrent traffic / reconfiguration / diagnostics",
                                 "race_report": out[:6000], "signature": None})
        elif rc != 0:
            res["f_bad"].append({"component": self.name, "kind": "spec-violation", "seed": ctx.seed, "what": "the concurrent workload crashed (panic or fatal error)", "race_report": out[-4000:], "signature": None})
        else:
            res["traces_validated"] = 1
            res["samples"] = [{"workload": "4 traffic goroutines (Execute/Go, all outcome kinds) + circuit/opener/closer/tracker SetConfigThreadSafe + OpenCircuit/CloseCircuit + Config/IsOpen/Var/stats readers", "seconds": secs, "result": "no race report"}]
        return res
    def replay(self, item, ctx, quiet=False):
        r = self.run(ctx)
        import sys
        print((r["f_bad"][0]["race_report"] if r["f_bad"] else "no race report this time (races are schedule dependent)"), file=sys.stderr if quiet else sys.stdout)
        return {"f": 0 if r["f_bad"] else None}

class OverrideMeta:
    """C08 metamorphic check on the REAL code: 'clearing an override resumes the underlying state'.  For every generated
    circuit history containing an episode  setcfg fo=1 | dis=1, calls…, setcfg fo=0 | dis=0  (calls under ForceOpen are
    all refused, calls on a Disabled circuit pass straight through), the history is re-run with the episode replaced
    by the passage of the same clock readings; every later op must answer identically."""
    kind = "metamorphic"
    name = "override-meta"
    def __init__(self, quick, thorough):
        self.quick, self.thorough = quick, thorough
    def _variants(self, cases_p, real_p):
        cl, rl = read_lines(cases_p), read_lines(real_p)
        out = []
        for header, ops, (real,) in split_cases(cl, rl):
            for i, op in enumerate(ops):
                if op not in ("setcfg fo=1", "setcfg dis=1"): continue
                flag = op.split(" ")[1].split("=")[0]
                # the episode must SWITCH THE OVERRIDE ON: skip histories in which the flag was mentioned before
                # (initial flags in the header, earlier setcfg / mid-call reconfigurations)
                if any((flag + "=") in x or (flag + ":") in x for x in [header] + ops[:i]): break
                j = i + 1
                while j < len(ops) and ops[j].startswith("exec ") and " mid=" not in ops[j]: j += 1
                if j == i + 1 or j >= len(ops) - 1 or ops[j] != "setcfg %s=0" % flag: break
                body = list(range(i + 1, j))
                ok = True; ticks = []
                for k in body:
                    rk = dict(t.split("=", 1) for t in real[k].split(" ") if "=" in t)
                    if flag == "fo" and rk.get("run") != "0": ok = False
                    if flag == "dis" and (" radv=0 " not in ops[k] + " " or "panic" in rk.get("res", "")): ok = False
                    t = 0 if rk.get("rd", "-") == "-" else len(rk["rd"].split(","))
                    # a fallback that was invoked during the episode moved the substitute clock by its own `fadv` as well
                    if rk.get("fb", "0") != "0":
                        m = re.search(r" fadv=(-?\d+)", ops[k])
                        t += int(m.group(1)) if m else 0
                    ticks.append(t)
                if not ok: break
                variant = ops[:i] + ["tick 0"] + ["tick %d" % t for t in ticks] + ["tick 0"] + ops[j + 1:]
                out.append({"header": header, "ops": ops, "from": i, "to": j, "variant": variant, "real": real, "flag": flag})
                break
        return out
    def _run_variants(self, seqdiff, wd, vs):
        vp = os.path.join(wd, "variants.cases")
        with open(vp, "w") as f:
            for v in vs:
                f.write("case %s\n" % v["header"])
                for o in v["variant"]: f.write(o + "\n")
                f.write("end\n")
        rc, out = sh([seqdiff, "-suite", "circuit", "-replay", vp, "-out", os.path.join(wd, "v")], env=GOENV, timeout=3600)
        if rc != 0: raise HarnessCrash([seqdiff], out)
        return [r for _, _, (r,) in split_cases(read_lines(os.path.join(wd, "v", "circuit.cases")), read_lines(os.path.join(wd, "v", "circuit.real")))]
    def run(self, ctx):
        seqdiff = go_build("seqdiff")
        wd = os.path.join(ctx.workdir, self.name)
        n = (self.quick if ctx.tier == "quick" else self.thorough) * ctx.scale
        res = {"name": self.name, "kind": self.kind, "evaluations": 0, "distinct_nontrivial": 0, "traces_validated": 0, "samples": [], "stats": {}, "k_bad": [], "f_bad": []}
        rc, out = sh([seqdiff, "-suite", "circuit", "-seed", str(ctx.seed + 202), "-cases", str(n), "-out", wd], env=GOENV, timeout=3600)
        if rc != 0: raise HarnessCrash([seqdiff], out)
        vs = self._variants(os.path.join(wd, "circuit.cases"), os.path.join(wd, "circuit.real"))
        vreal = self._run_variants(seqdiff, wd, vs) if vs else []
        for v, vr in zip(vs, vreal):
            res["evaluations"] += 1
            j = v["to"]
            diff = next((k for k in range(j + 1, len(v["ops"])) if v["real"][k] != vr[k]), None)
            if diff is None:
                res["traces_validated"] += 1
                if len(res["samples"]) < 2:
                    res["samples"].append({"case": v["header"], "episode": v["ops"][v["from"]:j + 1], "later_ops_compared": len(v["ops"]) - j - 1})
                continue
            if len(res["f_bad"]) < 2:
                res["f_bad"].append({"component": self.name, "kind": "spec-violation", "seed": ctx.seed, "case": v["header"], "ops": v["ops"][:diff + 1], "first_bad_op": diff,
                                     "what": "after an override episode was cleared a later call answers differently than if the episode had not happened (only its clock readings passing)",
                                     "with_override_episode": v["real"][diff], "with_time_passing_instead": vr[diff], "episode": [v["from"], j], "variant": v["variant"][:diff + 1], "signature": None})
        res["distinct_nontrivial"] = len(vs)
        res["stats"] = {"histories_with_an_override_episode": len(vs), "by_flag": {f: sum(1 for v in vs if v["flag"] == f) for f in ("fo", "dis")}}
        return res
    def replay(self, item, ctx, quiet=False):
        import sys
        seqdiff = go_build("seqdiff")
        wd = os.path.join(ctx.workdir, "replay-ometa")
        os.makedirs(wd, exist_ok=True)
        outs = []
        for name, o in (("orig", item["ops"]), ("variant", item["variant"])):
            p = os.path.join(wd, name + ".cases")
            with open(p, "w") as f:
                f.write("case %s\n" % item["case"]); [f.write(x + "\n") for x in o]; f.write("end\n")
            sh([seqdiff, "-suite", "circuit", "-replay", p, "-out", os.path.join(wd, name)], env=GOENV)
            outs.append(read_lines(os.path.join(wd, name, "circuit.real"))[1:-1])
        d = item["first_bad_op"]
        same = d < len(outs[0]) and d < len(outs[1]) and outs[0][d] == outs[1][d]
        print("op %d with the override episode : %s\nop %d with time passing instead  : %s" % (d, outs[0][d] if d < len(outs[0]) else "?", d, outs[1][d] if d < len(outs[1]) else "?"), file=sys.stderr if quiet else sys.stdout)
        return {"f": None if same else d}

class PanicMeta:
    """C10 metamorphic check on the REAL code: 'later calls behave as if the panicking call had not happened'.
    For every generated circuit history containing a run function that panicked, the history is re-run with that
    call replaced by the passage of the same amount of time; every later op must answer identically."""
    kind = "metamorphic"
    name = "panic-meta"
    def __init__(self, quick, thorough):
        self.quick, self.thorough = quick, thorough
    def _variants(self, cases_p, real_p):
        cl, rl = read_lines(cases_p), read_lines(real_p)
        out = []
        for header, ops, (real,) in split_cases(cl, rl):
            for i, (op, r) in enumerate(zip(ops, real)):
                # (a panicking call that also reconfigures the circuit mid-flight is not "as if it had not happened": skipped)
                if op.startswith("exec ") and " run=panic" in op and " mid=" not in op and " run=1 " in (" " + r + " ") and "res=panic:" in r and i + 1 < len(ops):
                    kv = dict(t.split("=", 1) for t in op.split(" ") if "=" in t)
                    adv = int(kv.get("radv", "0"))
                    rk = dict(t.split("=", 1) for t in r.split(" ") if "=" in t)
                    nread = 0 if rk.get("rd", "-") == "-" else len(rk["rd"].split(","))   # readings the panicking call consumed (none on a pass-through circuit)
                    open_before = " open=1" in (" " + real[i - 1]) if i > 0 else False
                    out.append({"header": header, "ops": ops, "idx": i, "tick": adv + nread, "variant": ops[:i] + ["tick %d" % (adv + nread)] + ops[i + 1:], "real": real, "open_before": open_before})
                    break
        return out
    def run(self, ctx):
        seqdiff = go_build("seqdiff")
        wd = os.path.join(ctx.workdir, self.name)
        n = (self.quick if ctx.tier == "quick" else self.thorough) * ctx.scale
        res = {"name": self.name, "kind": self.kind, "evaluations": 0, "distinct_nontrivial": 0, "traces_validated": 0, "samples": [], "stats": {}, "k_bad": [], "f_bad": []}
        rc, out = sh([seqdiff, "-suite", "circuit", "-seed", str(ctx.seed + 101), "-cases", str(n), "-out", wd], env=GOENV, timeout=3600)
        if rc != 0: raise HarnessCrash([seqdiff], out)
        vs = self._variants(os.path.join(wd, "circuit.cases"), os.path.join(wd, "circuit.real"))
        vp = os.path.join(wd, "variants.cases")
        with open(vp, "w") as f:
            for v in vs:
                f.write("case %s\n" % v["header"])
                for o in v["variant"]: f.write(o + "\n")
                f.write("end\n")
        rc, out = sh([seqdiff, "-suite", "circuit", "-replay", vp, "-out", os.path.join(wd, "v")], env=GOENV, timeout=3600)
        if rc != 0: raise HarnessCrash([seqdiff], out)
        vreal = [r for _, _, (r,) in split_cases(read_lines(os.path.join(wd, "v", "circuit.cases")), read_lines(os.path.join(wd, "v", "circuit.real")))]
        probes = 0
        for v, vr in zip(vs, vreal):
            res["evaluations"] += 1
            i = v["idx"]
            probe = v["open_before"] and "closer=hystrix" in v["header"]
            probes += 1 if probe else 0
            diff = next((j for j in range(i + 1, len(v["ops"])) if v["real"][j] != vr[j]), None)
            if diff is None:
                res["traces_validated"] += 1
                if len(res["samples"]) < 2:
                    res["samples"].append({"case": v["header"], "panicking_op": v["ops"][i], "later_ops_compared": len(v["ops"]) - i - 1})
                continue
            res["f_bad"].append({"component": self.name, "kind": "spec-violation", "seed": ctx.seed, "case": v["header"], "ops": v["ops"][:diff + 1], "first_bad_op": diff,
                                 "what": "a later call answers differently with the panicking call than with the same time simply passing",
                                 "with_panicking_call": v["real"][diff], "with_time_passing_instead": vr[diff], "panicking_op_index": i, "tick": v["tick"],
                                 "signature": "F-C10-probe" if probe else None})
        res["distinct_nontrivial"] = len(vs)
        res["stats"] = {"histories_with_a_panicking_run": len(vs), "of_which_half_open_probes_with_hystrix_closer": probes}
        # keep at most 2 per signature
        seen = {}
        res["f_bad"] = [b for b in res["f_bad"] if seen.setdefault(b["signature"], []).append(1) is None and len(seen[b["signature"]]) <= 2]
        return res
    def replay(self, item, ctx, quiet=False):
        import sys
        seqdiff = go_build("seqdiff")
        wd = os.path.join(ctx.workdir, "replay-meta")
        os.makedirs(wd, exist_ok=True)
        i = item["panicking_op_index"]; ops = item["ops"]
        kv = dict(t.split("=", 1) for t in ops[i].split(" ") if "=" in t)
        variant = ops[:i] + ["tick %d" % item.get("tick", int(kv.get("radv", "0")) + 1)] + ops[i + 1:]
        outs = []
        for name, o in (("orig", ops), ("variant", variant)):
            p = os.path.join(wd, name + ".cases")
            with open(p, "w") as f:
                f.write("case %s\n" % item["case"]); [f.write(x + "\n") for x in o]; f.write("end\n")
            sh([seqdiff, "-suite", "circuit", "-replay", p, "-out", os.path.join(wd, name)], env=GOENV)
            outs.append(read_lines(os.path.join(wd, name, "circuit.real"))[1:-1])
        d = next((j for j in range(i + 1, len(ops)) if outs[0][j] != outs[1][j]), None)
        print("panicking op:", ops[i], "\nfirst later op that differs:", (ops[d], outs[0][d], "VS", outs[1][d]) if d is not None else None, file=sys.stderr if quiet else sys.stdout)
        return {"f": d}

"""components.py — kinds of correspondence a property check is assembled from."""
import json, os, shutil, time
from core import *

class Ctx:
    def __init__(self, prop, tier, seed, workdir):
        self.prop, self.tier, self.seed, self.workdir = prop, tier, seed, workdir
        self.scale = 1  # multiplied in the extended search

class Seq:
    """K1: sequential differential of suite `suite` (real code vs Lean model) + spec-vs-real (F)."""
    kind = "K1"
    def __init__(self, suite, quick, thorough, proj_model=ident, proj_spec=ident, label=None, signature=None):
        self.suite, self.quick, self.thorough = suite, quick, thorough
        self.pm, self.ps = proj_model, proj_spec
        self.name = label or suite
        self.signature = signature  # function(bad_item) -> tag string, used to match known findings
    def budget(self, ctx):
        return (self.quick if ctx.tier == "quick" else self.thorough) * ctx.scale
    def run(self, ctx):
        seqdiff = go_build("seqdiff")
        wd = os.path.join(ctx.workdir, self.name)
        out = {"name": self.name, "kind": self.kind, "suite": self.suite, "evaluations": 0, "ops": 0, "distinct_nontrivial": 0,
               "traces_validated": 0, "samples": [], "stats": {}, "k_bad": [], "f_bad": [], "corpus_cases": 0}
        # corpus first
        cdir = os.path.join(VERIF, "corpus", self.suite)
        runs = []
        if os.path.isdir(cdir):
            for fn in sorted(os.listdir(cdir)):
                if fn.endswith(".cases"):
                    runs.append(("corpus:" + fn, dict(replay=os.path.join(cdir, fn))))
        n = self.budget(ctx)
        runs.append(("gen", dict(seed=ctx.seed, ncases=n)))
        for label, kw in runs:
            sub = os.path.join(wd, label.replace(":", "_").replace("/", "_"))
            r = run_seq(self.suite, kw.get("seed", 0), kw.get("ncases", 0), sub, self.pm, self.ps, replay=kw.get("replay"), seqdiff=seqdiff)
            out["evaluations"] += r.cases; out["ops"] += r.ops
            if label == "gen":
                out["distinct_nontrivial"] += r.distinct_nontrivial
                out["stats"] = r.stats
                out["samples"] = r.samples
            else:
                out["corpus_cases"] += r.cases
            out["traces_validated"] += r.cases - len(r.k_bad)
            for kind, lst in (("k", r.k_bad), ("f", r.f_bad)):
                # group by known-finding signature so that a listed finding cannot hide an unlisted violation
                groups = {}
                for bad in lst:
                    sig = self.signature(bad.get("spec", "")) if (self.signature and kind == "f") else None
                    groups.setdefault(sig, []).append(bad)
                for sig, items in groups.items():
                    for bad in items[:2]:   # shrink at most 2 per group
                        small = shrink(self.suite, bad, kind, self.pm, self.ps, seqdiff, os.path.join(wd, "shrink"))
                        item = {"component": self.name, "suite": self.suite, "kind": "spec-violation" if kind == "f" else "correspondence",
                                "source": label, "case": small["header"], "ops": small["ops"], "first_bad_op": small["idx"],
                                "real": small.get("real"), "model_and_spec": small.get("model_and_spec"), "seed": ctx.seed}
                        if kind == "f":
                            ms = item.get("model_and_spec") or []
                            i = item.get("first_bad_op")
                            spec = ms[i].split("\t")[1] if (i is not None and i < len(ms) and "\t" in ms[i]) else ""
                            item["signature"] = self.signature(spec) if self.signature else None
                        out[kind + "_bad"].append(item)
                out[kind + "_bad_total"] = out.get(kind + "_bad_total", 0) + len(lst)
        shutil.rmtree(os.path.join(wd, "shrink"), ignore_errors=True)
        return out
    def replay(self, item, ctx, quiet=False):
        import sys
        def print(*a):   # known-finding replays must not pollute stdout
            __builtins__["print"](*a, file=sys.stderr if quiet else sys.stdout) if isinstance(__builtins__, dict) else __import__("builtins").print(*a, file=sys.stderr if quiet else sys.stdout)
        seqdiff = go_build("seqdiff")
        k, f, real, ms = eval_case(self.suite, item["case"], item["ops"], self.pm, self.ps, seqdiff, os.path.join(ctx.workdir, "replay"))
        print("case", item["case"])
        for i, op in enumerate(item["ops"]):
            mark = " <== differs" if i in (k, f) else ""
            print("  %-40s real=%s   model|spec=%s%s" % (op, real[i] if i < len(real) else "?", ms[i].replace("\t", " | ") if i < len(ms) else "?", mark))
        return {"k": k, "f": f}

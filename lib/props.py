"""props.py — per-property assembly of components, trusted base and evidence rule."""
from components import *

TB_COMMON = [
    "Lean 4.33 kernel (leanchecker re-check in the thorough tier); axioms limited to propext / Classical.choice / Quot.sound, audited per theorem on every run",
    "hand-written Lean model validated (not verified) against the Go code by the differential harness on the cases of this run",
    "Go harness generators/canonicalisers (harness/cmd/seqdiff) and bin/check comparison logic",
]

PROPS = {}

PROPS["C13"] = {
    "components": [Seq("rc", 2000, 100000)],
    "rule": "rc: random op sequences (Inc/RollingSumAt/GetBuckets/Reset/TotalSum/JSON) over boundary-directed timestamps; a case is "
            "non-trivial when it rolls the window forward at least once AND presents at least one backwards/stale/pre-start time; distinct by FNV hash of its text",
    "trusted_base": TB_COMMON + ["modelled not verified: sequential semantics of sync/atomic (CAS always succeeds), encoding/json round-trip of the counter struct, time.Time arithmetic without saturation"],
    "assumptions": ["NumBuckets >= 0 and BucketWidth > 0 (constructor precondition; width 0 divides by zero in Go)"],
}

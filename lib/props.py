"""props.py — per-property assembly of components, trusted base and evidence rule."""
from components import *

TB_COMMON = [
    "Lean 4.33 kernel (leanchecker re-check in the thorough tier); axioms limited to propext / Classical.choice / Quot.sound, audited per theorem on every run",
    "hand-written Lean model validated (not verified) against the Go code by the differential harness on the cases of this run",
    "Go harness generators/canonicalisers (harness/cmd/seqdiff) and bin/check comparison logic",
]

PROPS = {}

def enum_rc(tier):
    """every op sequence of length 2 (quick) / 3 (thorough) over {Inc, RollingSumAt, GetBuckets, Reset} x 10 boundary
    timestamps, for 1, 2 and 3 buckets of width 10"""
    import itertools
    ts = [-1, 0, 9, 10, 19, 20, 29, 30, 40, 55]
    alphabet = ["%s %d" % (o, t) for o in ("inc", "sum", "bk", "reset") for t in ts]
    L = 2 if tier == "quick" else 3
    for n in (1, 2, 3):
        for seq in itertools.product(alphabet, repeat=L):
            yield "rc n=%d w=10" % n, list(seq) + ["bk 55", "total"]

def enum_tc(tier):
    """every op sequence of length 3 (quick) / 4 (thorough) over {SleepStart, Check} x 6 timestamps + 3 callback
    firings, for sleep 10 and budgets 0, 1, 2"""
    import itertools
    ts = [0, 5, 10, 11, 20, 25]
    alphabet = ["%s %d" % (o, t) for o in ("start", "check") for t in ts] + ["fire 0", "fire 1", "fire 2"]
    L = 3 if tier == "quick" else 4
    for allow in (0, 1, 2):
        for seq in itertools.product(alphabet, repeat=L):
            yield "tc", ["sleep 10", "allow %d" % allow] + list(seq) + ["check 40", "dump"]

PROPS["C13"] = {
    "components": [Seq("rc", 2000, 100000, enum=enum_rc)],
    "rule": "rc: random op sequences (Inc/RollingSumAt/GetBuckets/Reset/TotalSum/JSON) over boundary-directed timestamps; a case is "
            "non-trivial when it rolls the window forward at least once AND presents at least one backwards/stale/pre-start time; distinct by FNV hash of its text; "
            "plus a COMPLETE enumeration of a small scope on every run: all op sequences of length 2 (quick) / 3 (thorough) over 4 operations x 10 boundary timestamps for 1-3 buckets",
    "trusted_base": TB_COMMON + ["modelled not verified: sequential semantics of sync/atomic (CAS always succeeds), encoding/json round-trip of the counter struct, time.Time arithmetic without saturation"],
    "assumptions": ["NumBuckets >= 0 and BucketWidth > 0 (constructor precondition; width 0 divides by zero in Go)"],
}

PROPS["C16"] = {
    "components": [Seq("tc", 2000, 100000, enum=enum_tc)],
    "rule": "tc: random op sequences (SleepStart/Check/SetSleepDuration/SetEventCountToAllow/callback firings incl. stale and repeated/dump) with "
            "timestamps around nextOpenTime, behind and ahead; non-trivial = at least one callback firing AND one check at the boundary or with an older timestamp; distinct by FNV hash; "
            "plus a COMPLETE enumeration of a small scope on every run: all op sequences of length 3 (quick) / 4 (thorough) over SleepStart/Check x 6 timestamps + 3 callback firings for budgets 0-2",
    "trusted_base": TB_COMMON + ["modelled not verified: sync.RWMutex mutual exclusion (sequential part), timer callbacks as explicit environment steps (injected TimeAfterFunc)"],
    "assumptions": ["timestamps stay far from the zero time.Time and from int64 overflow"],
}

def sig_c15(spec):
    """known-finding signature from the monitor's message: the overflow class is declared by the Lean monitor
    (exact sum / max-min outside int64), everything else is unlisted"""
    return "F-C15-overflow" if spec.startswith("!overflow:") else None

def enum_rp(tier):
    """every op sequence of length 3 (quick) / 4 (thorough) over AddDuration (2 durations) / SnapshotAt x 6 boundary
    timestamps, for 2 buckets of width 10 holding 1 or 2 samples"""
    import itertools
    ts = [-1, 0, 9, 10, 20, 35]
    alphabet = ["add %d %d" % (d, t) for d in (7, 3) for t in ts] + ["snap %d" % t for t in ts]
    L = 3 if tier == "quick" else 4
    for size in (1, 2):
        for seq in itertools.product(alphabet, repeat=L):
            yield "rp n=2 w=10 size=%d" % size, list(seq) + ["snap 35"]

PROPS["C15"] = {
    "components": [Seq("rp", 1500, 50000, enum=enum_rp), Seq("sd", 1500, 100000, signature=sig_c15)],
    "rule": "rp: random AddDuration/SnapshotAt/Reset sequences with boundary-directed timestamps and bucket capacities 0..5 (overflowing); non-trivial = window rolled AND (a bucket overflowed OR a backwards/stale/pre-start time); plus a COMPLETE enumeration of a small scope on every run (all sequences of length 3 / 4 over AddDuration x 2 durations / SnapshotAt x 6 boundary timestamps, 2 buckets of capacity 1 and 2). "
            "sd: independent Percentile/Mean/Min/Max/Var queries on sorted samples, p as raw binary64 bits (fixed, uniform, +-ulp neighbours of integral indices, extremes, random bits); non-trivial = not a fixed-p-only case. distinct by FNV hash",
    "trusted_base": TB_COMMON + ["modelled not verified: IEEE-754 binary64 round-to-nearest-even as exact rationals (CircuitModel/F64.lean, compared bit-for-bit with Go on every run through the sd suite), no FMA contraction on amd64, sort.Slice sorts, expvar/time.ParseDuration round-trip of duration strings"],
    "assumptions": ["p is not NaN (Go's int(NaN) is unspecified)", "percentile/mean bounds are claimed for samples whose exact sum and max-min stay inside int64 (outside: finding F-C15-overflow)"],
}

# ---- circuit-level properties share the `circuit` suite; each projects the fields it is about
import re as _re
def _fields(line, keys):
    """projection of an output line on some fields; 'ev:run' keeps only run/fallback events of ev, 'ev:notif' only Opened/Closed"""
    kv = dict(t.split("=", 1) for t in line.split(" ") if "=" in t)
    out = []
    for k in keys:
        base, _, sub = k.partition(":")
        if base not in kv: continue
        v = kv[base]
        if sub == "libpanic":      # only: did the library itself panic?
            v = "1" if v == "panic:other" else "0"
        elif sub == "reject":      # the fan-out verdict, on ops that recorded a rejection only
            v = v if "reject" in kv.get("ev", "") else "1"
        elif sub and v != "-":
            if sub in ("opened", "closed"):
                keep = [e for e in v.split(";") if e.startswith(sub + "@")]
            else:
                keep = [e for e in v.split(";") if (e.startswith("run:") or e.startswith("fb:")) == (sub == "run")]
            v = ";".join(keep) or "-"
        out.append("%s=%s" % (k, v))
    return " ".join(out)

def circuit_proj(keys):
    return lambda line: _fields(line, keys)

def circuit_spec_filter(prop):
    """spec column of the circuit suite is '-' or '!C05:msg|C06:msg'; keep only this property's verdict"""
    def f(spec):
        return spec
    return f

TB_CIRCUIT = TB_COMMON + ["modelled not verified: Go context package (deadline = min, values and cancellation propagate to derived contexts), errors.As, the substitute clock (each reading advances 1 ns), sequential execution (concurrency is covered by the schedule harness where a property quantifies over schedules)"]

class _PropFilter:
    """spec column '-' or '!C05:msg|C06:msg' -> '!msg' for this property, else '-'"""
    def __init__(self, prop): self.prop = prop
    def __call__(self, x): return x
    def filter(self, spec):
        if not spec.startswith("!"): return "-"
        mine = [v for v in spec[1:].split("|") if v.startswith(self.prop + ":")]
        return ("!" + mine[0]) if mine else "-"

class CircuitSeq(Seq):
    """Seq over a shared suite restricted to one property's fields and verdicts"""
    def __init__(self, prop, keys, quick, thorough, suite="circuit", crash_is_violation=False):
        self.prop = prop
        super().__init__(suite, quick, thorough, proj_model=circuit_proj(keys) if keys else ident, proj_spec=_PropFilter(prop), label=suite,
                         crash_is_violation=crash_is_violation)

ALL_KEYS = ["res", "run", "fb", "seen", "after", "fbarg", "fbsame", "ev", "rd", "rel", "open", "conc", "fan"]
def _circuit_prop(pid, keys, text):
    PROPS[pid] = {"components": [CircuitSeq(pid, keys, 1500, 60000)],
        "rule": "circuit: random histories of Execute (every error shape x elapsed-vs-timeout boundary x caller-context state x IgnoreInterrupts x IsErrInterrupt verdict x fallback nil/disabled/throttled/failing/panicking) mixed with OpenCircuit/CloseCircuit/SetConfigThreadSafe/clock ticks/timer callbacks, over opener x closer in {never, hystrix, consecutive, scripted}; "
                "non-trivial = at least one control-plane op AND at least one of bad-request shape / timeout boundary / cancel during run / panic; distinct by FNV hash. Compared fields for this property: " + ",".join(keys) + ". " + text,
        "trusted_base": TB_CIRCUIT, "assumptions": ["sequential histories (one call at a time); schedules are covered separately where the property quantifies over them"]}

_circuit_prop("C05", ["ev:run", "fan", "run", "fb"], "")
_circuit_prop("C06", ["res", "run", "fb", "fbarg"], "")
_circuit_prop("C01", ["res", "run", "fbarg", "ev:run", "told"], "")
_circuit_prop("C08", ["res", "run", "fb", "told"], "")
_circuit_prop("C12", ["rd", "ev"], "")
_circuit_prop("C07", ["seen", "after", "rel", "fbsame"], "")
_circuit_prop("C10", ["res", "conc"], "")
_circuit_prop("C09", ["fan"], "")



def enum_opener(tier):
    """every op sequence of length 3 (quick) / 4 (thorough) over success / failure / ShouldOpen / Opened x 6 boundary
    timestamps on a hystrix opener with 2 buckets of width 10, 50 %, volume 2"""
    import itertools
    ts = [0, 9, 10, 19, 20, 30]
    alphabet = ["%s %d" % (o, t) for o in ("ev success", "ev failure", "should", "opened") for t in ts]
    L = 3 if tier == "quick" else 4
    for seq in itertools.product(alphabet, repeat=L):
        yield "opener kind=hystrix n=2 dur=20 pct=50 vol=2 base=future", list(seq) + ["should 30"]

def enum_closer(tier):
    """every op sequence of length 2 (quick) / 3 (thorough) over Opened / Allow / success / failure / ShouldClose x 5
    timestamps + 2 callback firings, sleep window 10, HalfOpenAttempts and Required in {1,2}"""
    import itertools
    ts = [0, 5, 10, 11, 20]
    alphabet = ["%s %d" % (o, t) for o in ("opened", "allow", "ev success", "ev failure", "shouldclose") for t in ts] + ["fire 0", "fire 1"]
    L = 2 if tier == "quick" else 3
    for half in (1, 2):
        for req in (1, 2):
            for seq in itertools.product(alphabet, repeat=L):
                yield "closer sleep=10 half=%d req=%d" % (half, req), list(seq) + ["allow 25", "shouldclose 25", "view"]

PROPS["C02"] = {
    "components": [Seq("opener", 2500, 100000, enum=enum_opener), CircuitSeq("C02", ["ev:opened"], 800, 30000)],
    "rule": "opener: event sequences on hystrix.Opener / ConsecutiveErrOpener with boundary-directed (errors, attempts, pct, volume): 60% exact-percentage boundaries 100*e = pct*a nudged by -1/0/+1, "
            "plus idle gaps, partial and full window roll-over, transitions, neutral kinds, live threshold changes, non-monotonic probes; non-trivial = at least one of those features; distinct by FNV hash; plus a COMPLETE enumeration of a small scope on every run (all sequences of length 3 / 4 over success / failure / ShouldOpen / Opened x 6 boundary timestamps). "
            "circuit: the shared circuit histories with the built-in openers (fields ev, open)",
    "trusted_base": TB_COMMON + ["modelled not verified: sequential atomics; the hystrix opener's start time pinned to the clock origin by the harness"],
    "assumptions": ["the iff theorem is stated for non-negative, non-decreasing timestamps (one unambiguous window); other orders are covered by the model correspondence only"],
}

def sig_c03(spec):
    return "F-C03-stale" if spec.startswith("!stale:") else None

PROPS["C03"] = {
    "components": [Seq("closer", 2500, 100000, signature=sig_c03, enum=enum_closer), CircuitSeq("C03", ["ev:closed"], 1500, 60000)],
    "rule": "closer: op sequences on hystrix.Closer (Opened/Closed, Allow with timestamps at the window end +-1 / stale / ahead, run events of all kinds, ShouldClose, timer callbacks incl. stale ones, live SleepWindow/HalfOpenAttempts/Required changes); "
            "non-trivial = a callback fired AND a transition AND an admission attempt at the window boundary or with a stale reading; plus a COMPLETE enumeration of a small scope on every run (all sequences of length 2 / 3 over Opened / Allow / success / failure / ShouldClose x 5 timestamps + 2 callback firings, budgets and required counts in {1,2}). circuit: shared circuit histories judged by the C03 book (sleep window, span bound, closing rule) when the closer is hystrix",
    "trusted_base": TB_CIRCUIT + ["timer callbacks as explicit environment steps (injected AfterFunc)"],
    "assumptions": ["the literal span bound for budgets >= 2 is claimed only when start readings reach the gate in non-decreasing order (otherwise: finding F-C03-stale)"],
}

def _merge_coverage_check(result):
    """K3 completeness: every type the extractor found must be exercised by the reflection differential"""
    return None

PROPS["C19"] = {
    "components": [Seq("merge", 14, 140)],
    "generated": ["mergeprogs"], "exhaustive": True,
    "rule": "merge: for every config type with an exported Merge entry point (nested types through circuit.Config), the per-field table — every exported leaf field x {unset,set} on both sides, other leaves random — plus random whole-struct combinations, run through the REAL Merge by reflection and through the regenerated MergeLang program; "
            "every case is non-trivial (each op sets/unsets a designated field); distinct by FNV hash. The per-field table is enumerated completely on every run.",
    "trusted_base": TB_COMMON + ["the translator tools/extract/mergeprogs (go/ast, ~300 lines; unrecognised statements become .opaque, which the verified checker rejects) — guarded by the reflection differential",
                                 "reflection-based construction of config values (func-typed fields as tagged reflect.MakeFunc closures)"],
    "assumptions": ["'set' means different from the Go zero value (the library's own convention)"],
}

TB_SCHED = ["the cooperative scheduler and the instrumented vatomic/vsync packages (vsched/, ~400 lines): goroutines are serialised, so the explored executions are the sequentially consistent interleavings of the instrumented operations (Go's sync/atomic is sequentially consistent)",
            "import-path substitution applied to a scratch copy of the working tree (found by scanning imports on every run)"]
PROPS["C04"] = {
    "components": [Sched("gauge", 3000, 100000, exhaustive_limit=3000, conformance="tr-gauge,tr-run-gauge,tr-exec-gauge", only="C04:", pb1=((40, 1500), (400, 40000)))],
    "rule": "gauge: 2-5 callers with outcomes success/failure/panic/failing fallback/panicking fallback race on one circuit with run and fallback limits in {-1,0,1,2,3}; every atomic operation and a marker inside the run/fallback functions is a scheduling point; "
            "random schedules plus DFS over all schedules of small 2-caller configurations; a run is distinct by (configuration, schedule) and every schedule of >= 2 callers is non-trivial",
    "trusted_base": TB_COMMON + TB_SCHED,
    "assumptions": ["limits are static during a run (live limit changes belong to C11)"],
}
PROPS["C14"] = {
    "components": [Sched("rc", 3000, 200000, exhaustive_limit=3000, conformance="tr-rc", pb1=((40, 1500), (400, 40000)))],
    "rule": "rc: 2-4 threads each running one or two of Inc/RollingSumAt/GetBuckets/Reset on one RollingCounter, timestamps in the same bucket / adjacent buckets (racing roll-over) / a window apart; every atomic step is a scheduling point; random schedules plus DFS over all schedules of 2 threads x 1 op; distinct by (configuration, schedule)",
    "trusted_base": TB_COMMON + TB_SCHED,
    "assumptions": [],
}

PROPS["C14"]["components"].append(Seq("rc", 800, 30000, proj_model=lambda line: "conservation-broken" if line.startswith("conservation-broken") else "-",
                                      proj_spec=lambda line: "conservation-broken" if line.startswith("conservation-broken") else "-", label="rc-conservation"))
PROPS["C14"]["rule"] += " rc (sequential): after every operation of the sequential counter histories (incl. the text views String / StringAt and JSON restores) rolling sum = sum of the buckets, within [0, total]."
PROPS["C14"]["components"].append(Seq("consumers", 300, 12000, proj_model=circuit_proj(["cons"]), proj_spec=circuit_proj(["cons"]), label="consumers-conservation"))
PROPS["C14"]["rule"] += " consumers (sequential): on every stats read each of the ten rolling counters the collectors own must have rolling sum = sum of its buckets, within [0, total] (counters that share storage fail this)."

PROPS["C11"] = {
    "components": [Sched("cfg", 4000, 150000, only="C11:", pb1=((40, 1500), (400, 40000))), Sched("diag", 1500, 60000), Seq("consumers", 400, 20000, label="diag", crash_is_violation=True), RaceRun(),
                   CircuitSeq("C11", ["res:libpanic"], 1500, 60000)],
    "generated": ["lockfacts"],
    "rule": "cfg: one Execute (success / failure / context-error outcome, live or cancelled caller context, closed or open circuit) races one SetConfigThreadSafe changing exactly one setting (run limit, timeout, fallback limit, ForceOpen, ForcedClosed, Disabled, Fallback.Disabled, IgnoreInterrupts; 23 old->new pairs); the observed outcome must equal the outcome under the old or under the new configuration; distinct by (configuration, schedule). diag (schedules): calls of every outcome kind on a circuit whose collectors and interrupt classifier use Config/IsOpen/Name/gauges from inside their callbacks, racing SetConfigThreadSafe / Var / OpenCircuit+CloseCircuit; monitored: no deadlock. diag (consumers suite): diagnostics after partial SetConfigThreadSafe. circuit suite (sequential histories with partial live reconfigurations and every outcome kind): no call may end in a panic that the run function / fallback did not raise. racerun: control plane + diagnostics vs traffic under the Go race detector.",
    "trusted_base": TB_COMMON + TB_SCHED,
    "assumptions": ["partial by nature: the Go memory model, fairness and network-facing diagnostics are outside the model"],
}

PROPS["C09"]["components"].append(Sched("trans", 3000, 150000, exhaustive_limit=3000, conformance="tr-trans", pb1=((40, 1500), (400, 40000))))
PROPS["C11"]["components"].append(Sched("trans", 1500, 60000, label="sched-trans-override", only="C11:", pb1=((40, 1500), (400, 40000))))
PROPS["C08"]["components"].append(Sched("trans", 1500, 60000, label="sched-trans-override", only="C08:", pb1=((40, 1500), (400, 40000))))
PROPS["C08"]["components"].append(Sched("gauge", 1500, 60000, label="sched-gauge-killswitch", conformance="tr-exec-gauge", only="C08:", pb1=((40, 1500), (400, 40000))))
PROPS["C08"]["rule"] += " gauge (schedules): with the kill switch on (dis=1) concurrent callers that succeed, fail and panic: every run function runs, no fallback does, nothing is recorded, each caller gets its own function's outcome; K2: the traces are runs of Conc/Exec."
PROPS["C08"]["rule"] += " trans (schedules): once SetConfigThreadSafe(ForcedClosed / ForceOpen) has returned, no transition that STARTS afterwards announces Opened / Closed against it."
PROPS["C11"]["rule"] += " trans (schedules): a transition racing a live change of an override flag (ForceOpen on, ForcedClosed on, overrides off) must behave as under the old or the new setting: never a second Opened for an open circuit, never a Closed for a closed one."
PROPS["C09"]["rule"] += " trans: 2-4 threads among OpenCircuit / CloseCircuit / failing call (opener says open) / succeeding probe (closer admits and says close) race from a closed or open circuit under the cooperative scheduler; quiescent monitor: alternation and IsOpen = last notification."
PROPS["C09"]["trusted_base"] = TB_CIRCUIT + TB_SCHED

PROPS["C17"] = {
    "components": [Seq("manager", 1500, 60000)],
    "rule": "manager: histories of CreateCircuit (0-3 explicit config layers each setting a random subset of 8 settings) / GetCircuit / AllCircuits / stat-binding queries over 4 names with duplicates, under 0-3 default constructors plus optionally a rolling.StatFactory; "
            "non-trivial = default constructors present or a multi-layer create; distinct by FNV hash",
    "trusted_base": TB_COMMON + ["circuit handles identified by pointer identity; settings read back through Circuit.Config()"],
    "assumptions": ["sequential histories; concurrent creates are covered by the schedule harness where built"],
}

PROPS["C16"]["components"].append(Sched("tc", 3000, 150000, exhaustive_limit=3000, conformance="tr-tc", pb1=((40, 1500), (400, 40000))))
PROPS["C16"]["rule"] += " tc (schedules): 2-4 concurrent Check callers with timestamps inside one sleep period (bound: at most max(1,budget) successes) or all before nextOpen (bound: none), a timer thread firing armed callbacks at arbitrary moments, optionally a racing SleepStart; every atomic and lock operation is a scheduling point."
PROPS["C16"]["trusted_base"] = PROPS["C16"]["trusted_base"] + TB_SCHED
PROPS["C03"]["components"].append(Sched("tc", 1500, 60000, label="sched-tc-gate", pb1=((40, 1500), (400, 40000))))
PROPS["C03"]["trusted_base"] = PROPS["C03"]["trusted_base"] + TB_SCHED

PROPS["C07"]["components"].append(Sched("cfg", 3000, 100000, label="sched-cfg-deadline", only="C07:", pb1=((40, 1500), (400, 40000))))
PROPS["C05"]["components"].append(Sched("cfg", 3000, 100000, label="sched-cfg-kind", only="C05:", pb1=((40, 1500), (400, 40000))))
PROPS["C05"]["rule"] += " cfg (schedules): one call racing one live reconfiguration (limits, timeout, flags, IgnoreInterrupts, the interrupt classifier) must be reported as the kind the old or the new configuration yields."
PROPS["C07"]["rule"] += " cfg (schedules): one call racing one Timeout change: the deadline its run function sees is start+old or start+new (or none), never anything else."
for _pid in ("C01", "C04", "C07", "C08", "C09", "C11"):
    PROPS[_pid]["components"].append(Sched("cfg2", 1500, 60000, only=_pid + ":", pb1=((40, 1500), (400, 40000))))
    PROPS[_pid]["rule"] += " cfg2 (schedules): two overlapping SetConfigThreadSafe calls with different settings (+ optionally a reader); once both returned, what Config() reports must be what is enforced (override flags, timeout, both limits), observed through IsOpen and a lone probe call."
    if TB_SCHED[0] not in PROPS[_pid]["trusted_base"]:
        PROPS[_pid]["trusted_base"] = PROPS[_pid]["trusted_base"] + TB_SCHED
PROPS["C04"]["components"].append(CircuitSeq("C04", ["conc", "run", "fb", "fan:reject", "dflt"], 1200, 50000))   # dflt: what an EMPTY config enforces when that is not the documented 10 / 10
PROPS["C04"]["rule"] += " circuit (sequential histories incl. reconfigurations landing mid-call with several settings at once): a limit of 0 in force refuses the lone caller, a refused function is not invoked, the gauges read zero after every call."
PROPS["C04"]["trusted_base"] = PROPS["C04"]["trusted_base"] + [t for t in TB_CIRCUIT if t not in PROPS["C04"]["trusted_base"]]
PROPS["C07"]["components"].append(CircuitSeq("C07", ["same"], 150, 4000, suite="gowrap"))
PROPS["C07"]["rule"] += " gowrap: under Go (real goroutines, contexts ending before / during / after the call) a fallback always receives the caller's own context, and so does a run function when no timeout context is derived."
PROPS["C08"]["components"].append(CircuitSeq("C08", ["started"], 150, 4000, suite="gowrap"))
PROPS["C08"]["rule"] += " gowrap: Go on nil / zero-value / Disabled circuits (also with an already cancelled context) must still run the function."
PROPS["C08"]["components"].append(OverrideMeta(1500, 40000))
PROPS["C08"]["rule"] += " override-meta (metamorphic, real code only): histories with an episode setcfg fo=1|dis=1, calls, setcfg fo=0|dis=0 (often over an open circuit whose sleep window has elapsed) are re-run with the episode replaced by the passage of its clock readings; every later op must answer identically ('clearing an override resumes the underlying state')."
PROPS["C10"]["components"].append(Sched("gauge", 2000, 100000, label="sched-gauge-panic", conformance="tr-run-gauge,tr-exec-gauge", only="C10:", pb1=((40, 1500), (400, 40000))))
PROPS["C10"]["rule"] += " gauge (schedules): 2-5 concurrent callers among succeeding / failing / panicking run functions and fallbacks under every limit: a panic reaches its own caller with its value, nobody else sees one, and both gauges read zero once all returned."
PROPS["C10"]["trusted_base"] = PROPS["C10"]["trusted_base"] + TB_SCHED
PROPS["C01"]["components"].append(Sched("shed", 3000, 150000, exhaustive_limit=3000, conformance="tr-call,tr-run", only="C01:", pb1=((40, 1500), (400, 40000))))
PROPS["C01"]["rule"] += " shed (schedules): 2-4 threads among OpenCircuit / failing call (the opener says open) / succeeding call race on a circuit with the real hystrix closer whose sleep window never elapses and which cannot close; monitors: a call that starts after an opening completed is never run and gets the circuit-open error; one short-circuit event per shed call; every atomic step conforms to the Lean small-step model Conc/Call (K2)."
PROPS["C01"]["trusted_base"] = TB_CIRCUIT + TB_SCHED
PROPS["C03"]["components"].append(Sched("shed", 3000, 150000, label="sched-shed-window", only="C03:", pb1=((40, 1500), (400, 40000))))
PROPS["C03"]["rule"] += " shed (schedules): callers racing the opening transition with the real hystrix closer: a call whose own reading of the circuit said open never runs inside the sleep window."
PROPS["C17"]["components"].append(Sched("mgr", 2000, 100000, exhaustive_limit=3000, conformance="tr-mgr", pb1=((40, 1500), (400, 40000))))
PROPS["C17"]["rule"] += " mgr (schedules): 2-4 threads among CreateCircuit(same name) / CreateCircuit(other) / GetCircuit / AllCircuits / Var on one Manager, with and without a StatFactory, under the cooperative scheduler; quiescent monitor: exactly one winner, stable handle, AllCircuits = successful creations, stats binding."
PROPS["C17"]["trusted_base"] = PROPS["C17"]["trusted_base"] + TB_SCHED

PROPS["C20"] = {
    "components": [Seq("consumers", 600, 16000)],
    "rule": "consumers: histories of calls of all seven run kinds and three fallback kinds (durations around MaximumHealthyTime and Timeout +-1), manual open/close (short-circuits), limits 0 (rejections), clock steps across partial/full stats windows, on a circuit created through a Manager with rolling.StatFactory and the SLO factory; "
            "queries: per-kind totals and rolling sums, ErrorPercentage (as exact rational of the double), SLO pass/fail and collector callbacks, hystrix event-stream record through the real HTTP handler; non-trivial = at least one clock step; distinct by FNV hash",
    "trusted_base": TB_CIRCUIT + ["the event-stream record is fetched through Start/ServeHTTP with a 1 ms tick while the substitute clock is frozen (so that the number of ticks does not matter)", "encoding/json of the record"],
    "assumptions": ["sequential histories with a monotone clock (one unambiguous window)"],
}

PROPS["C18"] = {
    "components": [CircuitSeq("C18", None, 150, 4000, suite="gowrap", crash_is_violation=True)],   # a harness death = a panic nobody surfaced to Go's caller, or Go blocked for good
    "generated": ["chanfacts"],   # gowrapper.go's concurrency structure as a ChanLang term, checked in Props/C18Prog.lean
    "rule": "gowrap (K4): Circuit.Go scenarios = outcome (nil / error / panic incl. error-valued and typed-nil panic values) x context end (never / before the call / while the function is parked / after it finished / simultaneously) x cancel vs execution timeout x GoLostErrors on/off x run function vs fallback x nil vs real circuit x function finishing or never returning; real goroutines under the real Go scheduler, order forced by channels; "
            "observed: Go's result or re-panicked value (identity), GoLostErrors reports, promptness (2 s bound while the function is parked), helper goroutines (stack dump) after the function returned; each observation must be a final state the Lean model allows; non-trivial = the context ends before/while/racing the function; distinct by FNV hash. "
            "STRUCTURAL TIE BY REGENERATION (K3): tools/extract/chanfacts prints gowrapper.go's concurrency structure (channels with capacities, goroutines, deferred recover-send, selects with their cases, closes, guards) as a ChanLang term on every run; Props/C18Prog proves by kernel evaluation that it IS the program the small-step model was written for, that every channel a goroutine sends into is buffered, that the panic send sits in a deferred recover, that the waiter is started under the GoLostErrors guard only",
    "trusted_base": TB_COMMON + ["modelled not verified: Go channel/select/goroutine semantics (capacity-1 buffers as Option, select = any ready branch)", "outcome-level tie under the real scheduler: the harness forces orders with channels and real timers of a few ms"],
    "assumptions": ["partial: the model's interleavings are not driven step by step on the real code (no scheduler control over goroutines the library spawns)"],
}

PROPS["C10"]["components"].append(CircuitSeq("C10", None, 150, 4000, suite="gowrap", crash_is_violation=True))
# the Go entry point for the return-value contract (C06) and — as far as the caller's answer shows it — for C05: a later Go call
# must get ITS OWN function's answer (result channels recycled across calls hand it another call's)
PROPS["C06"]["components"].append(CircuitSeq("C06", ["caller"], 150, 4000, suite="gowrap", crash_is_violation=True))
PROPS["C06"]["rule"] += " gowrap: the Circuit.Go scenarios of C18, judged for the caller's answer (its own function's nil / error / panic, or the context's error)."
PROPS["C05"]["components"].append(CircuitSeq("C05", ["caller", "lost"], 150, 4000, suite="gowrap", crash_is_violation=True))
PROPS["C05"]["rule"] += " gowrap: the Circuit.Go scenarios of C18 (answers and lost-error reports: every outcome surfaces exactly once)."
# C10: a panic of a user function that takes the PROCESS down did not reach its caller: the crashing case is the violation
PROPS["C10"]["components"][0] = CircuitSeq("C10", ["res", "conc"], 1500, 60000, crash_is_violation=True)
PROPS["C10"]["rule"] += " gowrap: the Circuit.Go scenarios of C18, judged for panics (value identity at Go's caller while the context has not ended)."

PROPS["C10"]["components"].append(PanicMeta(1500, 40000))
PROPS["C10"]["rule"] += " panic-meta: every generated history in which a run function panicked is re-run on the real code with that call replaced by the passage of the same time; all later answers must be identical (metamorphic form of 'as if the panicking call had not happened')."

for _pid in ("C02", "C09"):
    PROPS[_pid]["components"].append(Sched("reopen", 1500, 60000, only=_pid + ":", pb1=((40, 1500), (400, 40000))))
    PROPS[_pid]["rule"] += " reopen (schedules): on an open circuit whose real hystrix opener holds stale failures from half-open probes, one CloseCircuit races one or two calls; with fewer failing callers than the volume threshold the circuit must end closed (the opener counts since the last transition)."
for _pid in ("C02", "C03", "C11", "C16", "C20"):
    PROPS[_pid]["components"].append(Sched("lcfg2", 1200, 50000, only=_pid + ":", pb1=((40, 1500), (400, 40000))))
    PROPS[_pid]["rule"] += " lcfg2 (schedules): two overlapping SetConfigThreadSafe calls on one built-in closer / opener / SLO tracker; once both returned, what Config() reports must be what the object enforces (sleep window, probe budget, required successes, volume threshold, healthy time)."
    if TB_SCHED[0] not in PROPS[_pid]["trusted_base"]:
        PROPS[_pid]["trusted_base"] = PROPS[_pid]["trusted_base"] + TB_SCHED


# ---- tie units: the regenerated translations (tools/extract/gotrans) each property's tie theorems depend on (tools/mkties.py)
import importlib.util as _ilu
_spec = _ilu.spec_from_file_location("mkties", os.path.join(os.path.dirname(os.path.abspath(__file__)), "..", "tools", "mkties.py"))
_mk = _ilu.module_from_spec(_spec); _spec.loader.exec_module(_mk)
TIED = sorted(_mk.PROPS)
for _pid in TIED:
    PROPS[_pid]["generated"] = list(PROPS[_pid].get("generated", [])) + _mk.units_of(_pid)
    PROPS[_pid]["rule"] += (" TIE BY REGENERATION: the bodies of the Go functions this property is about are translated on every run (gotrans: %s) into "
                            "do-notation over a Go-semantics monad and PROVED equal to the model's functions (tie_* theorems)." % ", ".join(_mk.units_of(_pid)))
